"""Contract for OscMessageBuilder.add_arg, sc3/base/_osclib.py (C06: what is encoded is exactly the typed argument list):

  add_arg(value, type)   a given type that is not valid is refused (ValueError) and nothing is added; no type given: it is
                         guessed ONCE from the value; a list of types opens an array - ('[', None) - adds every
                         (value_i, type_i) pair of zip(value, type) in order through add_arg itself, and closes it -
                         (']', None); any other type adds exactly ONE entry (type, value) at the end of the list

The argument list is a ghost list (appends are events); the recursion is the function's own contract.
"""
import z3
from vf.pyvc.spec import contract, Loop
from vf.pyvc.values import *
from vf.pyvc import values as VV
from vf.pyvc.engine import Raised, Unsupported

F = 'sc3/base/_osclib.py'
GIVEN = z3.Bool('a_type_is_given')
VALID = z3.Bool('the_given_type_is_valid')
GIVEN_IS_LIST = z3.Bool('the_given_type_is_a_list')
GUESS_IS_LIST = z3.Bool('the_guessed_type_is_a_list')
NZ = z3.Int('zip.len')


def aa_truth(eng, v, st, node):
    if v.k == 'obj' and v.oid == 'arg_type':
        return GIVEN
    return None


def aa_valid(eng, selfv, args, kwargs, st, node):
    st.trace.append(('validated', tuple(args)))
    return [(st, vbool(VALID))]


def aa_guess(eng, selfv, args, kwargs, st, node):
    r = V('obj', oid='guessed-type')
    st.trace.append(('guessed', tuple(args), r))
    return [(st, r)]


def aa_recurse(eng, selfv, args, kwargs, st, node):
    st.trace.append(('add-arg', tuple(args), dict(kwargs)))
    return [(st, NONE)]


def aa_builtin(eng, name, args, kwargs, st, node):
    if name == 'isinstance' and len(args) == 2 and args[0].k == 'obj' and args[0].oid in ('arg_type', 'guessed-type'):
        return [(st, vbool(GIVEN_IS_LIST if args[0].oid == 'arg_type' else GUESS_IS_LIST))]
    if name == 'zip' and len(args) == 2 and args[0].k == 'obj' and args[1].k == 'obj':
        a, b = args

        def get(e_, i, s_):
            return vtuple([V('obj', oid='value-at', extra={'index': i, 'of': a}), V('obj', oid='type-at', extra={'index': i, 'of': b})])
        st.trace.append(('zipped', a, b))
        return [(st, V('seq', extra={'len': NZ, 'facts': [NZ >= 0], 'zip-of': (a, b), 'get': get}))]
    return None


def aa_getattr(eng, obj, name, st, node):
    if obj.k == 'obj' and obj.oid == 'self._args' and name == 'append':
        def app(eng, a, kw, st, node):
            st.trace.append(('appended', a[0]))
            return [(st, NONE)]
        return [(st, V('func', py=('spec', app)))]
    if obj.k == 'ref' and obj.oid == 'self' and name in ('ARG_TYPE_ARRAY_START', 'ARG_TYPE_ARRAY_STOP'):
        return [(st, vstr('[' if name.endswith('START') else ']'))]
    return None


def aa_since(trace):
    idx = max([i for i, e in enumerate(trace) if e[0] == 'loop-head'] or [-1])
    return trace[idx + 1:] if idx >= 0 else None


def aa_pass(c, L):
    ev = aa_since(c.trace)
    if not ev or L.phase != 'after':
        return z3.BoolVal(True)
    rec = [e for e in ev if e[0] == 'add-arg']
    if len(rec) != 1 or rec[0][2] or [e for e in ev if e[0] == 'appended']:
        return z3.BoolVal(False)
    a = rec[0][1]
    if len(a) != 2 or a[0].oid != 'value-at' or a[1].oid != 'type-at':
        return z3.BoolVal(False)
    return z3.And(a[0].extra['index'] == L.i - 1, a[1].extra['index'] == L.i - 1)      # pair i: value i with type i


def aa_over(c, seq, k, elem):
    z = seq.extra.get('zip-of') if seq.k == 'seq' else None
    the_type = None
    for e in c.trace:
        if e[0] == 'guessed':
            the_type = e[2]
    ok = z is not None and z[0] is c._params['arg_value'] and (z[1] is c._params['arg_type'] or z[1] is the_type)
    return z3.BoolVal(bool(ok)), z3.BoolVal(True)


def is_entry(v, tag):
    return v.k == 'tuple' and len(v.items) == 2 and v.items[0].k == 'str' and v.items[0].py == tag and v.items[1].k == 'none'


def add_arg_post(c):
    t = c.trace
    app = [e for e in t if e[0] == 'appended']
    gs = [e for e in t if e[0] == 'guessed']
    heads = [i for i, e in enumerate(t) if e[0] == 'loop-head']
    typ = gs[0][2] if gs else c._params['arg_type']
    cl = [z3.BoolVal(len(gs) <= 1), z3.BoolVal(bool(gs)) == z3.Not(GIVEN)]                 # guessed once iff no type is given
    if gs:
        cl.append(z3.BoolVal(len(gs[0][1]) == 1 and gs[0][1][0] is c._params['arg_value']))
    is_list = GUESS_IS_LIST if gs else GIVEN_IS_LIST
    if heads:
        ok = (len(app) == 2 and is_entry(app[0][1], '[') and is_entry(app[1][1], ']')
              and t.index(app[0]) < heads[0] and t.index(app[1]) > max(i for i, e in enumerate(t) if e[0] in ('add-arg', 'loop-head')))
        cl += [is_list, z3.BoolVal(bool(ok))]                                              # '[' first, the pairs, ']' last
    else:
        ok = (len(app) == 1 and app[0][1].k == 'tuple' and len(app[0][1].items) == 2 and app[0][1].items[0] is typ
              and app[0][1].items[1] is c._params['arg_value'] and not [e for e in t if e[0] == 'add-arg'])
        cl += [z3.Not(is_list), z3.BoolVal(bool(ok))]                                      # ONE entry (type, value)
    return z3.And(*cl)


contract(F, 'OscMessageBuilder.add_arg', props=('C06',), params={'self': 'self', 'arg_value': 'obj', 'arg_type': 'obj'},
         raises={'ValueError': lambda c: z3.And(GIVEN, z3.Not(VALID))},
         on_raise=[('nothing-added-when-refused', lambda c: z3.BoolVal(not [e for e in c.trace if e[0] in ('appended', 'add-arg')]))],
         ensures=[('guessed-iff-not-given;list-type:[,the-pairs-in-order,];else-one-entry-(type,value)', add_arg_post)],
         loops={0: Loop(inv=aa_pass, over=aa_over, kinds={'v': 'obj', 't': 'obj'})},
         fields={'OscMessageBuilder': {'_args': 'obj'}}, class_modules={'OscMessageBuilder': F},
         hooks={'truth': aa_truth, 'builtin_first': aa_builtin, 'getattr': aa_getattr},
         policies={'OscMessageBuilder._valid_type': aa_valid, 'OscMessageBuilder._get_arg_type': aa_guess,
                   'OscMessageBuilder.add_arg': aa_recurse}, modifies=[], native=False)
