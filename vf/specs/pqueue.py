"""Reference model of a *stable priority queue with unique items*.

Written from the property statement of C09, not from sc3's implementation:

  * items come out in non-decreasing priority ("time"), first-in-first-out
    among equal priorities, each item at most once;
  * adding an item that is already present moves it to its new priority as the
    most recent entry;
  * removing an item never disturbs the others (removing an absent item
    changes nothing);
  * emptiness, the earliest and the latest entry always agree with the
    contents.

The model is deliberately naive: a plain Python list of ``(prio, seqno, item)``
kept sorted by ``(prio, seqno)``; ``seqno`` grows with every insertion.  Two
flavours are offered:

  * ``PQueue`` - mutable object for long random histories;
  * pure functions on immutable tuples (``f_*``) for exhaustive tree search,
    where the state of a prefix is shared by all its extensions.

Items are compared by ``==`` (hashable items in sc3's queue are looked up in a
dict, i.e. by hash/eq); priorities by the usual ``<`` on reals.
"""


class Empty(Exception):
    """Raised by the model where the real queue must raise ``KeyError``."""


class PQueue:
    def __init__(self):
        self._l = []        # sorted by (prio, seqno)
        self._n = 0

    # -- mutators ----------------------------------------------------------
    def add(self, prio, item):
        self._l = [e for e in self._l if not _same(e[2], item)]
        seq = self._n
        self._n += 1
        i = len(self._l)
        # stable: after every entry with prio <= new prio
        while i > 0 and self._l[i - 1][0] > prio:
            i -= 1
        self._l.insert(i, (prio, seq, item))

    def remove(self, item):
        self._l = [e for e in self._l if not _same(e[2], item)]

    def pop(self):
        if not self._l:
            raise Empty
        p, _, t = self._l.pop(0)
        return (p, t)

    def clear(self):
        self._l = []

    # -- observers ---------------------------------------------------------
    def peek(self, smallest=True):
        if not self._l:
            raise Empty
        p, _, t = self._l[0] if smallest else self._l[-1]
        return (p, t)

    def empty(self):
        return not self._l

    def __contains__(self, item):
        return any(_same(e[2], item) for e in self._l)

    def __len__(self):
        return len(self._l)

    def __iter__(self):
        return iter([(p, t) for p, _, t in self._l])

    def contents(self):
        return [(p, t) for p, _, t in self._l]


def _same(a, b):
    return a is b or a == b


# --------------------------------------------------------------------------
# functional flavour: state = tuple of (prio, item) in queue order.  Sequence
# numbers are implicit: within equal priorities the tuple order *is* the
# insertion order, and a new entry always goes after all entries of priority
# <= its own.
# --------------------------------------------------------------------------

F_EMPTY = ()


def f_add(st, prio, item):
    st = tuple(e for e in st if not _same(e[1], item))
    i = len(st)
    while i > 0 and st[i - 1][0] > prio:
        i -= 1
    return st[:i] + ((prio, item),) + st[i:]


def f_remove(st, item):
    return tuple(e for e in st if not _same(e[1], item))


def f_pop(st):
    """-> (result or Empty, new state)"""
    if not st:
        return Empty, st
    return st[0], st[1:]


def f_peek(st, smallest=True):
    if not st:
        return Empty
    return st[0] if smallest else st[-1]


def f_empty(st):
    return not st


def f_clear(st):
    return F_EMPTY


def merge_order(children):
    """Reference for every client that merges several time-stamped sources
    through such a queue (parallel patterns): ``children`` is a list of lists
    of durations; source ``i`` emits its k-th element at the sum of its first
    k durations and is re-inserted, when it is served, at the time of its next
    element.  Returns the list of ``(time, source index, k)`` in the order a
    stable priority queue serves them (sources inserted at time 0 in index
    order)."""
    q = PQueue()
    pos = [0] * len(children)
    for i in range(len(children)):
        q.add(0.0, i)
    out = []
    while not q.empty():
        now, i = q.pop()
        k = pos[i]
        if k >= len(children[i]):
            continue                      # source exhausted: nothing emitted
        out.append((now, i, k))
        pos[i] = k + 1
        q.add(now + children[i][k], i)
    return out
