"""Contracts for stopping and clearing clocks (C08: "clearing or stopping the clock cancels everything pending") and for
resuming a paused routine (C11: "pause() makes next() raise PausedStream until resume()"): sc3/base/clock.py,
sc3/base/stream.py.

  SystemClock.clear    real time: under the clock's lock the queue is emptied - popped until empty() says so - and the
                       clock thread is notified (non-real time is outside C08: nothing is demanded there)
  SystemClock._sched_stop / TempoClock._stop
                       a clock that runs: under its lock the queue is cleared, the run flag goes down and ALL waiters are
                       notified (so that the clock thread sees the flag and ends); then the thread is joined, outside the
                       lock; a clock that does not run stays stopped
  AppClock.clear       real time: the tick scheduler is cleared under the scheduler lock
  Routine.resume       only a PAUSED routine: it becomes Suspended and is played again - once - on the clock given, or
                       else on the clock it was played on, with the quant given; any other state: nothing happens

Queue, condition and thread operations are ghost events.
"""
import z3
from vf.pyvc.spec import contract, Loop, REGISTRY
from vf.pyvc.values import *
from vf.pyvc.engine import Raised, Unsupported
from ._common import MAIN_FIELDS, TT_FIELDS, ghost_int, ghost_bool

FC = 'sc3/base/clock.py'
FS = 'sc3/base/stream.py'


def ev(c, *kinds):
    return [e for e in c.trace if (e[0] == 'call' and e[2] in kinds) or e[0] in kinds]


def calls(c, oid_suffix, *names):
    return [e for e in c.trace if e[0] == 'call' and str(e[1]).endswith(oid_suffix) and e[2] in names]


NOTIFY = ('notify', 'notify_all')          # the clock thread is the only one that ever waits on a clock's condition


def lock_depth_at(trace, event):
    d = 0
    for e in trace:
        if e is event:
            return d
        if e[0] == 'enter':
            d += 1
        elif e[0] == 'exit':
            d -= 1
    return None


EMPTY_AFTER = z3.Bool('queue_empty_now')


def q_getattr(eng, obj, name, st, node):
    if obj.k == 'obj' and str(obj.oid).endswith('_task_queue') and name in ('empty', 'pop', 'clear'):
        def m(eng, a, kw, st, node, _n=name, _o=obj):
            if _n == 'empty':
                b = z3.Bool('queue.empty!%d' % next(eng.counter))
                st.trace.append(('queue-empty?', b))
                return [(st, vbool(b))]
            st.trace.append(('call', _o.oid, _n, tuple(a)))
            return [(st, NONE if _n == 'clear' else V('obj', oid='popped!%d' % next(eng.counter)))]
        return [(st, V('func', py=('spec', m)))]
    return None


def stop_post(clsname=None, cond='_sched_cond', clears_queue=True):
    def post(c):
        t = c.trace
        o = c.pre.cls(clsname) if clsname else c.pre.self
        po = c.post.cls(clsname) if clsname else c.post.self
        clears = calls(c, '_task_queue', 'clear')
        notes = calls(c, cond, *NOTIFY)
        joins = calls(c, '_thread', 'join')
        if not clears and not notes and not joins:
            return z3.And(z3.Not(o._run_sched), z3.Not(po._run_sched))            # a clock that does not run stays stopped
        ok = (len(notes) == 1 and len(joins) == 1
              and lock_depth_at(t, notes[0]) == 1                                           # under the clock's lock
              and lock_depth_at(t, joins[0]) == 0                                           # joined OUTSIDE it (the thread needs it)
              and t.index(notes[0]) < t.index(joins[0]))
        if clears_queue:
            ok = ok and len(clears) == 1 and lock_depth_at(t, clears[0]) == 1
        # the flag is down by the END of the critical section of the notification (the woken thread needs the lock before it
        # looks at the flag, so the order inside the section cannot be seen; a flag lowered after it can be missed)
        flags = [e for e in t if e[0] == 'flag-down']
        closes = [i for i, e in enumerate(t) if e[0] == 'exit' and i > t.index(notes[0])]
        ok = ok and len(flags) >= 1 and bool(closes) and t.index(flags[0]) < closes[0]
        return z3.And(z3.Not(po._run_sched), z3.BoolVal(bool(ok)))                          # flag down, the thread woken
    return post


def flag_setattr(eng, obj, name, val, st, node):
    if name == '_run_sched' and val.k == 'bool' and z3.is_false(z3.simplify(val.z)):
        st.trace.append(('flag-down',))
    return None


SC = {'_run_sched': 'bool', '_task_queue': 'obj', '_sched_cond': 'obj', '_thread': 'obj'}
STOP = 'running:queue-cleared,flag-down,the-thread-notified-all-under-the-lock,then-joined-outside'
contract(FC, 'SystemClock._sched_stop', props=('C08',), params={'cls': 'cls'},
         ensures=[(STOP, stop_post('SystemClock'))],
         fields={'SystemClock': SC}, class_modules={'SystemClock': FC}, hooks={'getattr': q_getattr, 'setattr': flag_setattr}, native=False)
contract(FC, 'TempoClock._stop', props=('C08',), params={'self': 'self'},
         ensures=[(STOP, stop_post())],
         fields={'TempoClock': dict(SC, _all='obj')}, class_modules={'TempoClock': FC}, hooks={'getattr': q_getattr, 'setattr': flag_setattr}, native=False)
contract(FC, 'AppClock._stop', props=('C08',), params={'cls': 'cls'},
         ensures=[('running:flag-down,the-thread-notified-both-under-the-lock,then-joined-outside', stop_post('AppClock', '_tick_cond', False))],
         fields={'AppClock': {'_run_sched': 'bool', '_tick_cond': 'obj', '_thread': 'obj'}}, class_modules={'AppClock': FC},
         hooks={'getattr': q_getattr, 'setattr': flag_setattr}, native=False)


# ---- SystemClock.clear ---------------------------------------------------------------------------------------------------
def clear_pass(c, L):
    if L.phase != 'after':
        return z3.BoolVal(True)
    idx = max([i for i, e in enumerate(c.trace) if e[0] == 'loop-head'] or [-1])
    evs = [e for e in c.trace[idx + 1:] if e[0] == 'call' and e[2] in ('pop', 'clear', 'notify_all')]
    return z3.BoolVal(len(evs) == 1 and evs[0][2] == 'pop')                       # one entry leaves per pass


def clear_post(c):
    t = c.trace
    nrt = z3.Int('cls:SystemClock.__mode') == 0
    notes = calls(c, '_sched_cond', *NOTIFY)
    heads = [e for e in t if e[0] == 'loop-head']
    if not heads:
        return nrt                                       # C08 speaks of real time only: nothing is demanded of the other mode
    tests = [e for e in t if e[0] == 'queue-empty?']
    ok = len(notes) == 1 and lock_depth_at(t, notes[0]) == 1 and bool(tests)
    # the loop is left only when the queue says it is empty; then the clock thread is notified, still under the lock
    return z3.And(z3.Not(nrt), z3.BoolVal(bool(ok)), tests[-1][1] if tests else z3.BoolVal(False))


def h_mode(eng, obj, name, st, node):
    if obj.k == 'class' and obj.py == 'SystemClock' and name == 'mode':
        z = z3.Int('cls:SystemClock.__mode')
        st.pc.append(z3.And(z >= 0, z <= 1))
        return [(st, vint(z))]
    return q_getattr(eng, obj, name, st, node)


contract(FC, 'SystemClock.clear', props=('C08',), params={'cls': 'cls'},
         ensures=[('real-time:emptied-under-the-lock-and-the-clock-thread-notified', clear_post)],
         loops={0: Loop(inv=clear_pass)},
         fields={'SystemClock': SC, 'Main': MAIN_FIELDS, 'TimeThread': TT_FIELDS}, class_modules={'SystemClock': FC},
         hooks={'getattr': h_mode}, native=False)


# ---- TempoClock.clear / Scheduler.clear / AppClock.clear ----------------------------------------------------------------------
def tclear_post(c):
    t = c.trace
    nrt = z3.Int('self.__mode') == 0
    heads = [e for e in t if e[0] == 'loop-head']
    running = [e for e in t if e[0] == 'running?']
    if not heads:
        if not running:
            return nrt
        return z3.Or(nrt, z3.Not(running[-1][1]))          # a clock that does not run has no thread to take anything out
    notes = calls(c, '_sched_cond', *NOTIFY)
    tests = [e for e in t if e[0] == 'queue-empty?']
    ok = len(notes) == 1 and lock_depth_at(t, notes[0]) == 1 and bool(tests)
    return z3.And(z3.BoolVal(bool(ok)), tests[-1][1] if tests else z3.BoolVal(False))


def t_getattr(eng, obj, name, st, node):
    if obj.k == 'ref' and obj.oid == 'self' and name == 'mode':
        z = z3.Int('self.__mode')
        st.pc.append(z3.And(z >= 0, z <= 1))
        return [(st, vint(z))]
    if obj.k == 'ref' and obj.oid == 'self' and name == 'running':
        def run(eng, a, kw, st, node):
            b = z3.Bool('running!%d' % next(eng.counter))
            st.trace.append(('running?', b))
            return [(st, vbool(b))]
        return [(st, V('func', py=('spec', run)))]
    return q_getattr(eng, obj, name, st, node)


contract(FC, 'TempoClock.clear', props=('C08',), params={'self': 'self'},
         ensures=[('real-time-and-running:emptied-under-the-lock-and-the-clock-thread-notified', tclear_post)],
         loops={0: Loop(inv=clear_pass)},
         fields={'TempoClock': dict(SC), 'Main': MAIN_FIELDS, 'TimeThread': TT_FIELDS}, class_modules={'TempoClock': FC},
         hooks={'getattr': t_getattr}, native=False)


def sq_getattr(eng, obj, name, st, node):
    if obj.k == 'obj' and str(obj.oid).endswith('queue') and name in ('empty', 'pop'):
        def m(eng, a, kw, st, node, _n=name, _o=obj):
            if _n == 'empty':
                b = z3.Bool('queue.empty!%d' % next(eng.counter))
                st.trace.append(('queue-empty?', b))
                return [(st, vbool(b))]
            st.trace.append(('call', _o.oid, _n, tuple(a)))
            return [(st, V('obj', oid='popped!%d' % next(eng.counter)))]
        return [(st, V('func', py=('spec', m)))]
    return None


def sclear_post(c):
    tests = [e for e in c.trace if e[0] == 'queue-empty?']
    return tests[-1][1] if tests else z3.BoolVal(False)            # left only when the queue says it is empty


contract(FC, 'Scheduler.clear', props=('C08',), params={'self': 'self'},
         ensures=[('popped-until-the-queue-is-empty', sclear_post)],
         loops={0: Loop(inv=clear_pass)},
         fields={'Scheduler': {'queue': 'obj'}}, class_modules={'Scheduler': FC}, hooks={'getattr': sq_getattr}, native=False)


def aclear_post(c):
    t = c.trace
    nrt = z3.Int('cls:AppClock.__mode') == 0
    cl = calls(c, '_scheduler', 'clear')
    if not cl:
        return nrt
    return z3.BoolVal(len(cl) == 1 and lock_depth_at(t, cl[0]) == 1)          # under the scheduler lock (the tick thread pops under it)


def a_getattr(eng, obj, name, st, node):
    if obj.k == 'class' and obj.py == 'AppClock' and name == 'mode':
        z = z3.Int('cls:AppClock.__mode')
        st.pc.append(z3.And(z >= 0, z <= 1))
        return [(st, vint(z))]
    if obj.k == 'obj' and str(obj.oid).endswith('_scheduler') and name == 'clear':
        def m(eng, a, kw, st, node, _o=obj):
            st.trace.append(('call', _o.oid, 'clear', tuple(a)))
            return [(st, NONE)]
        return [(st, V('func', py=('spec', m)))]
    return None


contract(FC, 'AppClock.clear', props=('C08',), params={'cls': 'cls'},
         ensures=[('real-time:the-tick-scheduler-cleared-under-its-lock', aclear_post)],
         fields={'AppClock': {'_scheduler': 'obj', '_sched_lock': 'obj'}, 'Main': MAIN_FIELDS, 'TimeThread': TT_FIELDS},
         class_modules={'AppClock': FC}, hooks={'getattr': a_getattr}, native=False)


# ---- Routine.resume ---------------------------------------------------------------------------------------------------------
PAUSED, SUSPENDED = 5, 2


def rs_getattr(eng, obj, name, st, node):
    if obj.k == 'ref' and obj.cls == 'Routine' and name == 'State':
        return [(st, V('enumcls'))]
    if obj.k == 'enumcls':
        from .base_stream import STATES
        if name in STATES:
            return [(st, vint(STATES[name]))]
    if obj.k == 'obj' and name == 'play':
        def play(eng, a, kw, st, node, _o=obj):
            st.trace.append(('clock-play', _o, tuple(a)))
            return [(st, NONE)]
        return [(st, V('func', py=('spec', play)))]
    return None


def resume_post(c):
    from .base_stream import STATES
    pre, post = c.pre.self, c.post.self
    plays = [e for e in c.trace if e[0] == 'clock-play']
    was_paused = pre.state == STATES['Paused']
    if not plays:
        return z3.And(z3.Not(was_paused), post.state == pre.state)               # nothing happens
    if len(plays) != 1 or len(plays[0][2]) != 2:
        return z3.BoolVal(False)
    clk, (who, quant) = plays[0][1], plays[0][2]
    given = c._params['clock']
    right_clock = (clk is given) if given.k != 'none' else (clk.k == 'obj' and clk.oid == 'self._clock')
    ok = right_clock and who.k == 'ref' and who.oid == 'self' and quant is c._params['quant']
    return z3.And(was_paused, post.state == STATES['Suspended'], z3.BoolVal(bool(ok)))


contract(FS, 'Routine.resume', props=('C11',), params={'self': 'self', 'clock': ['none', 'obj'], 'quant': 'obj'},
         requires=lambda c: z3.And(c.pre.self.state >= 1, c.pre.self.state <= 5),
         ensures=[('only-a-paused-routine:suspended-and-played-once-on-the-given-or-its-own-clock', resume_post)],
         modifies=[('self', 'state')],
         fields={'Routine': {'state': 'int', '_clock': 'obj', '_state_lock': 'obj'}}, class_modules={'Routine': FS},
         hooks={'getattr': rs_getattr}, native=False)


# ---- MetaClock.play (SystemClock / AppClock): playing IS scheduling now (C05: the start time of what plays) ---------------------
def mp_getattr(eng, obj, name, st, node):
    if obj.k == 'class' and name == 'sched':
        def sched(eng, a, kw, st, node, _c=obj):
            st.trace.append(('sched', _c.py, tuple(a), dict(kw)))
            return [(st, NONE)]
        return [(st, V('func', py=('spec', sched)))]
    return None


def mplay_post(c):
    sc = [e for e in c.trace if e[0] == 'sched']
    if len(sc) != 1 or sc[0][3] or len(sc[0][2]) != 2:
        return z3.BoolVal(False)
    d, task = sc[0][2]
    zero = d.k in ('int', 'real') and z3.is_true(z3.simplify(to_real(d) == 0))
    return z3.BoolVal(bool(zero) and task is c._params['task'])                 # on THIS clock, with delay 0, the very task


contract(FC, 'MetaClock.play', props=('C05',), params={'cls': 'cls', 'task': 'obj', 'quant': 'obj'},
         ensures=[('scheduled-once-on-this-clock-with-delay-zero', mplay_post)],
         fields={'MetaClock': {}}, class_modules={'MetaClock': FC}, hooks={'getattr': mp_getattr}, modifies=[], native=False)


# ---- TempoClock.stop: a running real-time clock is stopped (by _stop, contract above) from a helper thread -----------------------
# (the caller may be a task of this very clock: joining its own thread would never end); a clock that does not run,
# or the non-real-time mode: nothing is started.
def ts_getattr(eng, obj, name, st, node):
    if obj.k == 'ref' and obj.oid == 'self' and name == 'mode':
        z = z3.Int('self.__mode')
        st.pc.append(z3.And(z >= 0, z <= 1))
        return [(st, vint(z))]
    if obj.k == 'ref' and obj.oid == 'self' and name == 'running':
        def run(eng, a, kw, st, node):
            return [(st, vbool(z3.Bool('self.__running')))]
        return [(st, V('func', py=('spec', run)))]
    if obj.k == 'ref' and obj.oid == 'self' and name == '_stop':
        return [(st, V('obj', oid='self._stop'))]
    if obj.k == 'obj' and obj.oid == 'stop-thread' and name == 'start':
        def start(eng, a, kw, st, node):
            st.trace.append(('thread-started',))
            return [(st, NONE)]
        return [(st, V('func', py=('spec', start)))]
    if obj.k == 'obj' and str(obj.oid).endswith('_atexitq') and name == 'remove':
        def rm(eng, a, kw, st, node):
            st.trace.append(('atexit-removed', tuple(a)))
            return [(st, NONE)]
        return [(st, V('func', py=('spec', rm)))]
    return None


def ts_ext(eng, mod, name, args, kwargs, st, node):
    if mod == 'threading' and name == 'Thread':
        st.trace.append(('thread-made', dict(kwargs), tuple(args)))
        return [(st, V('obj', oid='stop-thread'))]
    return None


def tstop_post(c):
    t = c.trace
    made = [e for e in t if e[0] == 'thread-made']
    started = [e for e in t if e[0] == 'thread-started']
    rt = z3.Int('self.__mode') == 1
    running = z3.Bool('self.__running')
    if not made and not started:
        return z3.Not(z3.And(rt, running))
    ok = (len(made) == 1 and len(started) == 1 and t.index(made[0]) < t.index(started[0])
          and made[0][1].get('target') is not None and made[0][1]['target'].k == 'obj' and made[0][1]['target'].oid == 'self._stop')
    return z3.And(rt, running, z3.BoolVal(bool(ok)))                 # ONE helper thread that runs THIS clock's _stop, started


contract(FC, 'TempoClock.stop', props=('C08',), params={'self': 'self'},
         ensures=[('running-in-real-time:one-helper-thread-running-_stop-is-started;else-nothing-is-started', tstop_post)],
         fields={'TempoClock': dict(SC), 'Main': MAIN_FIELDS, 'TimeThread': TT_FIELDS}, class_modules={'TempoClock': FC},
         hooks={'getattr': ts_getattr, 'ext': ts_ext}, modifies=[], native=False)
