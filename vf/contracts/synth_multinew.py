"""Contract for the generic multichannel expansion SynthObject._multi_new (C03): the
wrap-and-zip law itself.

For a call with k arguments (k = 1, 2, 3 and 4 as separate type cases: the rate and up to
three inputs; the loops over the arguments are executed for the statically known k, the
loop over the channels has an invariant), with A_0..A_{k-1} the arguments as converted by
gpp.ugen_param(args)._as_ugen_input(cls) - each one an arbitrary value that may or may not
be a list, of arbitrary length:

  * no list among them (or only empty lists): the rate name is checked, then exactly one
    single unit is made by cls._new1(*A) and returned;
  * otherwise n = the length of the longest list, and for EVERY channel i in [0, n) exactly
    one recursive cls._multi_new(B_0, .., B_{k-1}) is made with
        B_j = A_j[i mod len(A_j)]  if A_j is a list,  A_j otherwise,
    after checking B_0 as rate name, and its result is stored at position i of the result
    list, which is handed to ChannelList(...) and returned.

So element i is exactly what the same call returns when every list argument is replaced by
its element i modulo its length, recursively (the recursive call is the same function).
What _new1 does with scalars, and that tuples are not lists (isinstance(item, list)), is the
code's own test; the conversion by ugen_param is opaque here (bounded driver C03).
"""
import ast
import z3
from vf.pyvc.spec import contract, Loop
from vf.pyvc.values import *
from vf.pyvc import values as VV
from vf.pyvc.engine import Raised, Unsupported

F = 'sc3/synth/ugen.py'
G = 'sc3/synth/_graphparam.py'


def A(j):
    return z3.Const('A%d' % j, VV.Any)


def is_list(a):
    return VV.tag_of(a) == TAGS['list']


def args_kind(k):
    def kind(eng, name):
        return vtuple([V('any', z3.Const('raw%d' % j, VV.Any)) for j in range(k)])
    return kind


def ugen_param(eng, selfv, args, kwargs, st, node):
    return [(st, V('obj', oid='param', extra={'of': args[0]}))]


def h_getattr(eng, obj, name, st, node):
    if obj.k == 'obj' and obj.oid == 'param' and name == '_as_ugen_input':
        def conv(eng, a, kw, st, node, _o=obj):
            raw = _o.extra['of']
            k = len(raw.items)
            st.trace.append(('converted', k))
            return [(st, vlist([V('any', A(j)) for j in range(k)]))]
        return [(st, V('func', py=('spec', conv)))]
    return None


def h_binop(eng, op, a, b, st, node):
    # [None] * n
    if isinstance(op, ast.Mult) and a.k == 'list' and a.items is not None and len(a.items) == 1 \
            and a.items[0].k == 'none' and b.k == 'int':
        n = z3.simplify(b.z)
        if z3.is_int_value(n):
            return [(st, vlist([NONE] * n.as_long()))]
        st.trace.append(('results', b.z))
        return [(st, V('obj', oid='results', extra={'len': b.z}))]
    return None


def h_setitem(eng, obj, idx, v, st, node):
    if obj.k == 'obj' and obj.oid == 'results':
        st.trace.append(('store', idx, v))
        return [('next', st)]
    if obj.k == 'list' and obj.items is not None and idx.k == 'int':
        iz = z3.simplify(idx.z)
        if z3.is_int_value(iz) and 0 <= iz.as_long() < len(obj.items):
            items = list(obj.items)
            items[iz.as_long()] = v
            new = vlist(items)
            for k_, v_ in list(st.env.items()):
                if v_ is obj:
                    st.env[k_] = new
            return [('next', st)]
    return None


def h_construct(eng, f, args, kwargs, st, node):
    if f.k == 'class' and f.py == 'ChannelList':
        st.trace.append(('channel-list', tuple(args)))
        return [(st, V('obj', oid='the-channel-list'))]
    return None


def traced(name):
    def pol(eng, selfv, args, kwargs, st, node):
        r = V('obj', oid='%s!%d' % (name, next(eng.counter)))
        st.trace.append((name, tuple(args), r))
        return [(st, r)]
    return pol


def rate_check(eng, selfv, args, kwargs, st, node):
    st.trace.append(('rate-check', args[0]))
    return [(st, NONE)]


def since_head(trace, ordinal):
    idx = -1
    for i, e in enumerate(trace):
        if e[0] == 'loop-head' and e[1] == ordinal:
            idx = i
    return trace[idx + 1:] if idx >= 0 else None


def pick(j, i):
    a = A(j)
    return z3.If(is_list(a), VV.any_item(a, i % VV.any_len(a)), a)


def per_channel(k):
    def inv(c, L):
        # once a channel has been built, no list argument is empty (its element was taken)
        nonempty = z3.Implies(L.i >= 1, z3.And(*[z3.Implies(is_list(A(j)), VV.any_len(A(j)) >= 1)
                                                 for j in range(k)]))
        ev = since_head(c.trace, 1)
        if not ev:
            return nonempty
        ev = [e for e in ev if e[0] in ('rate-check', 'recurse', 'new1', 'store', 'channel-list')]
        if [e[0] for e in ev] != ['rate-check', 'recurse', 'store']:
            return z3.BoolVal(False)
        i = L.i - 1
        rc, rec, store = ev
        if len(rec[1]) != k or any(b.k != 'any' for b in rec[1]) or rc[1].k != 'any':
            return z3.BoolVal(False)
        cl = [rec[1][j].z == pick(j, i) for j in range(k)]
        cl.append(rc[1].z == pick(0, i))                         # the rate name of THIS channel is checked
        cl.append(to_int(store[1]) == i)                         # stored at position i ...
        cl.append(z3.BoolVal(store[2] is rec[2]))                # ... the result of that very call
        return z3.And(nonempty, *cl)
    return inv


def multi_post(k):
    def post(c):
        t = [e for e in c.trace if e[0] in ('rate-check', 'recurse', 'new1', 'store', 'channel-list',
                                            'results', 'loop-head')]
        lens = [z3.If(is_list(A(j)), VV.any_len(A(j)), 0) for j in range(k)]
        n = z3.Int('n_channels')
        longest = z3.And(*([n >= l for l in lens] + [z3.Or(*[n == l for l in lens])]))
        res = [e for e in t if e[0] == 'results']
        if not res:
            # single unit
            ev = [e for e in t if e[0] != 'loop-head']
            if [e[0] for e in ev] != ['rate-check', 'new1']:
                return z3.BoolVal(False)
            a = ev[1][1]
            ok = len(a) == k and all(a[j].k == 'any' for j in range(k)) and c.resultv is ev[1][2]
            if not ok:
                return z3.BoolVal(False)
            return z3.And(*([a[j].z == A(j) for j in range(k)] + [ev[0][1].z == A(0)]
                            + [l == 0 for l in lens]))           # only when nothing expands
        cls_ev = [e for e in t if e[0] == 'channel-list']
        ok = (len(res) == 1 and len(cls_ev) == 1 and len(cls_ev[0][1]) == 1
              and cls_ev[0][1][0].k == 'obj' and cls_ev[0][1][0].oid == 'results'
              and c.resultv.k == 'obj' and c.resultv.oid == 'the-channel-list'
              and not [e for e in t if e[0] == 'new1'])
        if not ok:
            return z3.BoolVal(False)
        # as many channels as the longest list has elements (and at least one)
        return z3.And(z3.Exists([n], z3.And(longest, res[0][1] == n)), res[0][1] >= 1)
    return post


for k in (1, 2, 3, 4):
    contract(F, 'SynthObject._multi_new', props=('C03',),
             params={'cls': 'cls', 'args': args_kind(k)},
             # an EMPTY list next to a longer one has no "element i modulo its length": the
             # expansion refuses it (integer modulo by zero) instead of inventing a value
             raises={'ValueError': None, 'TypeError': None,
                     'ZeroDivisionError': (lambda c, _k=k: z3.And(
                         z3.Or(*[z3.And(is_list(A(j)), VV.any_len(A(j)) == 0) for j in range(_k)]),
                         z3.Or(*[z3.And(is_list(A(j)), VV.any_len(A(j)) >= 1) for j in range(_k)])))},
             ensures=[('one-unit-without-lists;else-one-recursive-call-per-channel-of-the-longest-list',
                       multi_post(k))],
             loops={1: Loop(inv=per_channel(k), kinds={'j': 'int', 'item': 'any', 'i': 'int'})},
             hooks={'getattr': h_getattr, 'binop': h_binop, 'setitem': h_setitem, 'construct': h_construct},
             policies={G + '::ugen_param': ugen_param,
                       'SynthObject._multi_new': traced('recurse'), 'SynthObject._new1': traced('new1'),
                       'SynthObject._check_valid_rate_name': rate_check},
             class_modules={'SynthObject': F}, native=False)
    from vf.pyvc.spec import REGISTRY
    key = '%s::SynthObject._multi_new#%d-arguments' % (F, k)
    REGISTRY[key] = REGISTRY.pop('%s::SynthObject._multi_new' % F)
    REGISTRY[key].key = key
