"""Contract for the receive entry point, sc3/base/_oscinterface.py OscInterface._handle_request (C18: "A malformed or
hostile datagram invokes nothing, raises nothing into the receiver and leaves it able to process the next datagram"):

  _handle_request(data, address)   NOTHING is raised into the caller (the socket server's thread), whatever the parser or a
                                   dispatch step raises; the datagram is parsed ONCE; every message of the packet - in the
                                   packet's order - is dispatched once with the sender's address, its time (the ONE reading
                                   of the physical present taken before parsing when the message says "immediately" or
                                   carries no time, else its time tag converted to elapsed time) and its address followed by
                                   its parameters; a datagram whose parsing fails dispatches nothing

The packet (OscPacket: C06/C18 parser contracts) is a ghost object whose construction may raise.
"""
import z3
from vf.pyvc.spec import contract, Loop
from vf.pyvc.values import *
from vf.pyvc import values as VV
from vf.pyvc.engine import Raised, Unsupported
from ._common import MAIN_FIELDS, TT_FIELDS

F = 'sc3/base/_oscinterface.py'
NMSG = z3.Int('packet.messages.len')
MSG_TIME = z3.Function('message_time', z3.IntSort(), VV.Any)
IS_IMMEDIATE = z3.Function('time_is_none_or_immediately', z3.IntSort(), z3.BoolSort())


def rq_getattr(eng, obj, name, st, node):
    if obj.k == 'ref' and obj.oid == 'main' and name == 'elapsed_time':
        def now(eng, a, kw, st, node):
            v = eng.fresh_val('real', 'elapsed')
            st.trace.append(('time', v))
            return [(st, v)]
        return [(st, V('func', py=('spec', now)))]
    if obj.k == 'module' and name == 'OscPacket':
        return [(st, V('class', py='OscPacket'))]
    if obj.k == 'module' and name == 'IMMEDIATELY':
        return [(st, V('obj', oid='IMMEDIATELY'))]
    if obj.k == 'module' and name == 'SystemClock':
        return [(st, V('obj', oid='SystemClock'))]
    if obj.k == 'obj' and obj.oid == 'SystemClock' and name == 'osc_to_elapsed_time':
        def conv(eng, a, kw, st, node):
            r = V('obj', oid='converted', extra={'of': a[0]})
            st.trace.append(('converted', a[0], r))
            return [(st, r)]
        return [(st, V('func', py=('spec', conv)))]
    if obj.k == 'obj' and obj.oid == 'packet' and name == 'messages':
        def get(e_, i, s_):
            return V('obj', oid='timed-msg', extra={'index': i})
        return [(st, V('seq', extra={'len': NMSG, 'facts': [NMSG >= 0], 'messages-of-the-packet': True, 'get': get}))]
    if obj.k == 'obj' and obj.oid == 'timed-msg':
        i = obj.extra['index']
        if name == 'time':
            return [(st, V('obj', oid='msg-time', extra={'index': i}))]
        if name == 'message':
            return [(st, V('obj', oid='message', extra={'index': i}))]
    if obj.k == 'obj' and obj.oid == 'message' and name in ('address', 'params'):
        return [(st, V('obj', oid='message.' + name, extra={'index': obj.extra['index']}))]
    if obj.k == 'ref' and obj.oid == 'self' and name == '_msg_dispatch':
        def disp(eng, a, kw, st, node):
            ok, bad = st, st.fork()
            ok.trace.append(('dispatch', tuple(a), dict(kw)))
            bad.trace.append(('dispatch-raised',))
            return [(ok, NONE), (bad, Raised(eng.make_exc('ValueError', node=node)))]
        return [(st, V('func', py=('spec', disp)))]
    return None


def rq_construct(eng, f, args, kwargs, st, node):
    if f.k == 'class' and f.py == 'OscPacket':
        ok, bad = st, st.fork()
        ok.trace.append(('parsed', tuple(args)))
        bad.trace.append(('parse-failed', tuple(args)))
        return [(ok, V('obj', oid='packet')), (bad, Raised(eng.make_exc('ValueError', node=node)))]
    return None


def rq_compare(eng, op, a, b, st, node):
    import ast
    for p, q in ((a, b), (b, a)):
        if p.k == 'obj' and p.oid == 'msg-time' and isinstance(op, (ast.Is, ast.Eq)) \
                and (q.k == 'none' or (q.k == 'obj' and q.oid == 'IMMEDIATELY')):
            # `time is None or time == IMMEDIATELY`: ONE ghost fact per message stands for both tests
            return IS_IMMEDIATE(p.extra['index'])
    return None


def rq_ext(eng, mod, name, args, kwargs, st, node):
    if mod == 'sys' and name == 'exc_info':
        st.trace.append(('handler',))
        return [(st, V('obj', oid='exc-info'))]
    return None


def rq_since(trace):
    idx = max([i for i, e in enumerate(trace) if e[0] == 'loop-head'] or [-1])
    return trace[idx + 1:] if idx >= 0 else None


def rq_pass(c, L):
    ev = rq_since(c.trace)
    if not ev or L.phase != 'after':
        return z3.BoolVal(True)
    ds = [e for e in ev if e[0] == 'dispatch']
    if len(ds) != 1 or ds[0][2]:
        return z3.BoolVal(False)
    a = ds[0][1]
    i = L.i - 1
    times = [e for e in c.trace if e[0] == 'time']
    if len(a) != 4 or a[0] is not c._params['address'] or len(times) != 1:
        return z3.BoolVal(False)
    addr, params = a[2], a[3]
    ok = (addr.k == 'obj' and addr.oid == 'message.address' and params.k == 'star' and params.extra['seq'].k == 'obj'
          and params.extra['seq'].oid == 'message.params')
    if not ok:
        return z3.BoolVal(False)
    cl = [addr.extra['index'] == i, params.extra['seq'].extra['index'] == i]          # THIS message: address, then its parameters
    t = a[1]
    if t is times[0][1]:
        cl.append(IS_IMMEDIATE(i))                                                   # "now" = the reading taken before parsing
    elif t.k == 'obj' and t.oid == 'converted' and t.extra['of'].k == 'obj' and t.extra['of'].oid == 'msg-time':
        cl += [z3.Not(IS_IMMEDIATE(i)), t.extra['of'].extra['index'] == i]           # its own time tag, converted
    else:
        return z3.BoolVal(False)
    return z3.And(*cl)


def rq_over(c, seq, k, elem):
    return z3.BoolVal(bool(seq.k == 'seq' and seq.extra.get('messages-of-the-packet'))), z3.BoolVal(True)


def rq_post(c):
    t = c.trace
    parsed = [e for e in t if e[0] in ('parsed', 'parse-failed')]
    ok = len(parsed) == 1 and len(parsed[0][1]) == 1 and parsed[0][1][0] is c._params['data']        # parsed once, THE datagram
    if parsed and parsed[0][0] == 'parse-failed':
        ok = ok and not [e for e in t if e[0] == 'dispatch']                                         # malformed: nobody is invoked
    # the only things that may go wrong are the parser and a dispatch step (they are the callees that see foreign data);
    # the function's own steps never fail
    if [e for e in t if e[0] == 'handler']:
        ok = ok and bool([e for e in t if e[0] in ('parse-failed', 'dispatch-raised')])
    return z3.BoolVal(bool(ok))


contract(F, 'OscInterface._handle_request', props=('C18',), params={'self': 'self', 'data': 'obj', 'address': 'obj'},
         ensures=[('parsed-once;a-datagram-that-does-not-parse-dispatches-nothing;only-parser-or-dispatch-can-fail', rq_post)],
         loops={0: Loop(inv=rq_pass, over=rq_over)},
         fields={'OscInterface': {}, 'Main': MAIN_FIELDS, 'TimeThread': TT_FIELDS}, class_modules={'OscInterface': F},
         hooks={'getattr': rq_getattr, 'construct': rq_construct, 'compare': rq_compare, 'ext': rq_ext},
         opts={'star_in_display_to_ghost': True, 'exceptions_stay_inside': True}, modifies=[], native=False,
         note='no `raises`: any path on which an exception leaves the function fails `no-unexpected-exception`')
