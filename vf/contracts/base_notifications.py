"""Contracts for sc3/base/model.py NotificationCenter (C18: "the callback registries (system actions, server actions,
notifications) run exactly the actions currently registered, in registration order").

  notify(obj, msg, *args, **kwargs)   nothing unless something is registered for (obj, msg); then every (listener, action)
                                      of a SNAPSHOT of that registration table - in its order - is evaluated once as
                                      value(action, obj, msg, listener, *args, **kwargs)
  register(obj, msg, listener, action)  tables made on first use (per object, per message), then the action filed under
                                      the listener in the table of (obj, msg); nothing else
  registration_exists                 True iff all three levels are present

The nested registration tables are ghost: look-ups and stores are events with the path they went through.
"""
import z3
from vf.pyvc.spec import contract, Loop, REGISTRY
from vf.pyvc.values import *
from vf.pyvc import values as VV
from vf.pyvc.engine import Raised, Unsupported

F = 'sc3/base/model.py'
FN = 'sc3/base/functions.py'
HAS_OBJ = z3.Bool('registrations.has_obj')
HAS_MSG = z3.Bool('registrations.has_msg_for_obj')
HAS_LISTENER = z3.Bool('registrations.has_listener_for_msg')
NL = z3.Int('listeners.len')
LISTENER = z3.Function('listener_at', z3.IntSort(), VV.Any)
ACTION = z3.Function('action_at', z3.IntSort(), VV.Any)


def table(path, **extra):
    return V('obj', oid='table' + ''.join('[%s]' % p for p in path), extra=dict(extra, path=tuple(path)))


def role(c, v):
    """which parameter a key is"""
    for nm in ('obj', 'msg', 'listener'):
        if nm in c and v is c[nm]:
            return nm
    return None


def mk_hooks(params_of):
    def has_now(st, level):
        made = [e for e in st.trace if e[0] == 'store' and len(e[1]) == level]
        return bool(made)

    def contains(eng, container, item, st, node):
        ps = params_of(eng)
        if container.k == 'obj' and str(container.oid).endswith('_registrations'):
            path = ()
        elif container.k == 'obj' and container.extra and 'path' in container.extra and 'stage' not in container.extra:
            path = container.extra['path']
        else:
            return None
        r = role(ps, item)
        want = ('obj', 'msg', 'listener')[len(path)] if len(path) < 3 else None
        if r != want:
            raise Unsupported(node, 'registration look-up %r under %r' % (r, path))
        st.trace.append(('has?', path + (r,)))
        if has_now(st, len(path) + 1):
            return z3.BoolVal(True)
        if any(has_now(st, lv) for lv in range(1, len(path) + 1)):
            return z3.BoolVal(False)                       # the table it is looked up in was made by this very call: empty
        return (HAS_OBJ, HAS_MSG, HAS_LISTENER)[len(path)]

    def getitem(eng, obj, idx, st, node):
        ps = params_of(eng)
        if obj.k == 'obj' and str(obj.oid).endswith('_registrations'):
            path = ()
        elif obj.k == 'obj' and obj.extra and 'path' in obj.extra and 'stage' not in obj.extra:
            path = obj.extra['path']
        else:
            return None
        r = role(ps, idx)
        want = ('obj', 'msg', 'listener')[len(path)] if len(path) < 3 else None
        if r != want:
            raise Unsupported(node, 'registration path %r under %r' % (r, path))
        return [(st, table(path + (r,)))]

    def setitem(eng, obj, idx, v, st, node):
        ps = params_of(eng)
        if obj.k == 'obj' and str(obj.oid).endswith('_registrations'):
            path = ()
        elif obj.k == 'obj' and obj.extra and 'path' in obj.extra and 'stage' not in obj.extra:
            path = obj.extra['path']
        else:
            return None
        r = role(ps, idx)
        want = ('obj', 'msg', 'listener')[len(path)] if len(path) < 3 else None
        if r != want:
            raise Unsupported(node, 'registration store %r under %r' % (r, path))
        st.trace.append(('store', path + (r,), v))
        return [('next', st)]

    def getattr_(eng, obj, name, st, node):
        if obj.k == 'obj' and obj.extra and obj.extra.get('path') == ('obj', 'msg'):
            if name == 'copy' and 'stage' not in obj.extra:
                def copy(eng, a, kw, st, node):
                    st.trace.append(('snapshot',))
                    return [(st, table(('obj', 'msg'), stage='copy'))]
                return [(st, V('func', py=('spec', copy)))]
            if name == 'items':
                marker = 'items-of-snapshot' if obj.extra.get('stage') == 'copy' else 'items-of-the-live-table'

                def items(eng, a, kw, st, node):
                    def get(e_, i, s_):
                        return vtuple([V('any', LISTENER(i)), V('any', ACTION(i))])
                    return [(st, V('seq', extra={'len': NL, 'facts': [NL >= 0], marker: True, 'get': get}))]
                return [(st, V('func', py=('spec', items)))]
        if obj.k == 'module' and name == 'WeakKeyDictionary':
            return [(st, V('class', py='WeakKeyDictionary'))]
        return None

    def construct(eng, f, args, kwargs, st, node):
        if f.k == 'class' and f.py == 'WeakKeyDictionary' and not args:
            return [(st, V('obj', oid='new!weakdict!%d' % next(eng.counter)))]
        return None
    return {'contains': contains, 'getitem': getitem, 'setitem': setitem, 'getattr': getattr_, 'construct': construct}


def params_of(eng):
    return getattr(eng, '_nc_params', {})


def value_pol(eng, selfv, args, kwargs, st, node):
    st.trace.append(('value', tuple(args), dict(kwargs)))
    return [(st, NONE)]


def since_head(trace):
    idx = max([i for i, e in enumerate(trace) if e[0] == 'loop-head'] or [-1])
    return trace[idx + 1:] if idx >= 0 else None


def args_kind(eng, name):
    return V('seq', extra={'len': z3.Int('args.len'), 'facts': [z3.Int('args.len') >= 0], 'callers-args': True,
                           'get': (lambda e_, i, s_: V('any', z3.Function('caller_arg', z3.IntSort(), VV.Any)(i)))})


def remember(c):
    c._eng._nc_params = dict(c._params)
    return z3.BoolVal(True)


def notify_pass(c, L):
    ev = since_head(c.trace)
    if not ev:
        return z3.BoolVal(True)
    vals = [e for e in ev if e[0] == 'value']
    if len(vals) != 1 or [e for e in ev if e[0] in ('store', 'snapshot')]:
        return z3.BoolVal(False)
    _, a, kw = vals[0]
    p = c._params
    ok = (len(a) == 5 and a[0].k == 'any' and a[1] is p['obj'] and a[2] is p['msg'] and a[3].k == 'any'
          and a[4].k == 'star' and a[4].extra['seq'] is p['args'] and set(kw) == {'**'} and kw['**'] is p['kwargs'])
    if not ok:
        return z3.BoolVal(False)
    return z3.And(a[0].z == ACTION(L.i - 1), a[3].z == LISTENER(L.i - 1))         # the i-th registration, once, with ITS listener


def notify_over(c, seq, k, elem):
    ok = seq.k == 'seq' and seq.extra.get('items-of-snapshot')
    return z3.BoolVal(bool(ok)), z3.BoolVal(True)


def notify_post(c):
    heads = [e for e in c.trace if e[0] == 'loop-head']
    vals = [e for e in c.trace if e[0] == 'value']
    if not heads:
        return z3.And(z3.Not(z3.And(HAS_OBJ, HAS_MSG)), z3.BoolVal(not vals))     # nothing registered: nobody is called
    return z3.And(HAS_OBJ, HAS_MSG, z3.BoolVal(len([e for e in c.trace if e[0] == 'snapshot']) == 1))


HOOKS = mk_hooks(params_of)
NC_FIELDS = {'NotificationCenter': {'_registrations': 'obj'}}
contract(F, 'NotificationCenter.notify', props=('C18',),
         params={'cls': 'cls', 'obj': 'obj', 'msg': 'obj', 'args': args_kind, 'kwargs': 'obj'},
         requires=remember,
         ensures=[('registered-for-(obj,msg):one-snapshot-of-that-table;else-nobody-is-called', notify_post)],
         loops={0: Loop(inv=notify_pass, over=notify_over)},
         fields=NC_FIELDS, class_modules={'NotificationCenter': F}, hooks=HOOKS,
         policies={FN + '::value': value_pol}, opts={'star_in_display_to_ghost': True}, native=False)


# ---- register ------------------------------------------------------------------------------------------------------------------
def register_post(c):
    t = c.trace
    stores = [e for e in t if e[0] == 'store']
    by_level = {len(e[1]): e for e in stores}
    if len(by_level) != len(stores) or 3 not in by_level:
        return z3.BoolVal(False)
    cl = [z3.BoolVal(by_level[3][1] == ('obj', 'msg', 'listener') and by_level[3][2] is c._params['action']),   # filed under the listener
          z3.BoolVal(t.index(by_level[3]) == max(t.index(e) for e in stores))]
    # tables are made exactly where they are missing
    if 1 in by_level:
        v = by_level[1][2]
        cl += [z3.Not(HAS_OBJ), z3.BoolVal(v.k in ('obj', 'dict0') and (v.k == 'dict0' or str(v.oid).startswith('new!')))]
    else:
        cl += [HAS_OBJ]
    if 2 in by_level:
        v = by_level[2][2]
        cl += [z3.BoolVal(v.k in ('obj', 'dict0') and (v.k == 'dict0' or str(v.oid).startswith('new!')))]
        if 1 not in by_level:
            cl += [z3.Not(HAS_MSG)]
    else:
        cl += [z3.BoolVal(1 not in by_level), HAS_MSG]      # a new table for the object has no table for the message yet
    return z3.And(*cl)


contract(F, 'NotificationCenter.register', props=('C18',),
         params={'cls': 'cls', 'obj': 'obj', 'msg': 'obj', 'listener': 'obj', 'action': 'obj'},
         requires=remember,
         ensures=[('tables-made-where-missing;the-action-filed-under-the-listener-of-(obj,msg);nothing-else', register_post)],
         fields=NC_FIELDS, class_modules={'NotificationCenter': F}, hooks=HOOKS, native=False)


def exists_post(c):
    r = c.resultv
    if r.k != 'bool':
        return z3.BoolVal(False)
    # the three levels, looked at along the path obj -> msg -> listener
    return r.z == z3.And(HAS_OBJ, HAS_MSG, HAS_LISTENER)


contract(F, 'NotificationCenter.registration_exists', props=('C18',),
         params={'cls': 'cls', 'obj': 'obj', 'msg': 'obj', 'listener': 'obj'},
         requires=remember,
         ensures=[('true-iff-object,message-and-listener-are-all-registered', exists_post)],
         fields=NC_FIELDS, class_modules={'NotificationCenter': F}, hooks=HOOKS, modifies=[], native=False)


# ---- unregister ------------------------------------------------------------------------------------------------------------------
# exactly the level the arguments name is deleted: the object's whole table (msg None), the table of one message
# (listener None), or one listener's action; a path that is not registered deletes nothing (it raises KeyError, which
# C18 does not ask for: the contract allows the error only then, and does not demand it).
def un_present(path):
    return z3.And(*[(HAS_OBJ, HAS_MSG, HAS_LISTENER)[i] for i in range(len(path))])


def un_delitem(eng, obj, idx, st, node):
    ps = params_of(eng)
    if obj.k == 'obj' and str(obj.oid).endswith('_registrations'):
        path = ()
    elif obj.k == 'obj' and obj.extra and 'path' in obj.extra:
        path = obj.extra['path']
    else:
        return None
    r = role(ps, idx)
    if r != ('obj', 'msg', 'listener')[len(path)]:
        raise Unsupported(node, 'registration delete %r under %r' % (r, path))
    full = path + (r,)
    ok, bad = st, st.fork()
    ok.pc.append(un_present(full))
    ok.trace.append(('delete', full))
    bad.pc.append(z3.Not(un_present(full)))
    return [('next', ok), ('raise', bad, eng.make_exc('KeyError', node=node))]


def un_getitem(eng, obj, idx, st, node):
    # a look-up on the way to the level that is deleted: KeyError when the path is not there
    r = HOOKS['getitem'](eng, obj, idx, st, node)
    if r is None:
        return None
    (st1, tbl), = r
    bad = st1.fork()
    st1.pc.append(un_present(tbl.extra['path']))
    bad.pc.append(z3.Not(un_present(tbl.extra['path'])))
    return [(st1, tbl), (bad, Raised(eng.make_exc('KeyError', node=node)))]


def un_path(c):
    if c.kinds.get('msg') == 'none':
        return ('obj',)
    if c.kinds.get('listener') == 'none':
        return ('obj', 'msg')
    return ('obj', 'msg', 'listener')


def unregister_post(c):
    dels = [e for e in c.trace if e[0] == 'delete']
    if not dels:
        return z3.Not(un_present(un_path(c)))                  # (C18 does not ask for the KeyError: staying silent is allowed)
    return z3.And(un_present(un_path(c)), z3.BoolVal(len(dels) == 1 and dels[0][1] == un_path(c)))


def unregister_refused(c):
    # an error is raised only for a path that is not registered, and then nothing was deleted
    return z3.And(z3.Not(un_present(un_path(c))), z3.BoolVal(not [e for e in c.trace if e[0] == 'delete']))


contract(F, 'NotificationCenter.unregister', props=('C18',),
         params={'cls': 'cls', 'obj': 'obj', 'msg': ['none', 'obj'], 'listener': ['none', 'obj']},
         requires=remember,
         ensures=[('exactly-the-named-level-deleted', unregister_post)],
         raises={'KeyError': None}, on_raise=[('only-for-a-path-that-is-not-registered,nothing-deleted', unregister_refused)],
         fields=NC_FIELDS, class_modules={'NotificationCenter': F},
         hooks=dict(HOOKS, delitem=un_delitem, getitem=un_getitem), opts={'optional_obligations': ('on-raise[',)},
         native=False)
