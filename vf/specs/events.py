"""Reference key resolution and event-pattern timelines (oracle of C14).

Written from the property statement and the event documentation (SuperCollider
"Event" / "Pattern Guide 07: Value Conversions", and the key names and default
values that sc3/seq/event.py documents in its partial events); it does not use
sc3.

Pitch chain (each step only when the key on its left is not given explicitly;
precedence freq > midinote > note > degree)::

    note     = degree_to_key(degree + mtranspose, scale, steps_per_octave)
    midinote = ((note + gtranspose + root) / steps_per_octave + octave - 5)
               * 12 * log2(octave_ratio) + 60
    freq     = midicps(midinote + ctranspose)
    played   = freq * harmonic + detune          (the value sent as 'freq')

Amplitude: amp, else dbamp(db), else velocity / 127, else 0.1.
Duration:  delta = dur * stretch unless given; sustain = dur * legato * stretch
unless given.

``resolve(keys, scale)`` returns the resolved values plus the set of parts the
documentation leaves open for that key combination (see OPEN).
"""

import math

DEFAULTS = {
    'freq': 440.0 * 2 ** ((60 - 69) / 12), 'detune': 0.0, 'harmonic': 1.0,
    'midinote': 60, 'ctranspose': 0.0, 'degree': 0, 'mtranspose': 0,
    'gtranspose': 0.0, 'octave': 5.0, 'root': 0.0,
    'dur': 1.0, 'legato': 0.8, 'stretch': 1.0,
    'amp': 0.1, 'db': -20, 'velocity': 12, 'pan': 0.0, 'out': 0,
}

MAIN_PITCH = ('freq', 'midinote', 'note', 'degree')
PITCH_MODS = ('octave', 'root', 'gtranspose', 'mtranspose', 'ctranspose',
              'harmonic', 'detune')

OPEN = [
    'pitch of an event that gives only modifiers (octave=4 and no degree): '
    'sclang applies them to the default degree, sc3 documents "only one main '
    'key ... with its own modifiers" and plays the default freq',
    'ctranspose when the highest main key given is degree (sclang adds it, '
    'sc3/seq/event.py says "No ctranspose" on that path)',
    'harmonic together with an explicit freq (sclang: harmonic belongs to the '
    'midinote->freq conversion and is not applied; sc3: "harmonic and detune '
    'for freq")',
    'fractional degrees (sclang reads the fraction as an accidental)',
    'tunings that are not equal divisions of the 2:1 octave (sc3 keys count '
    'tuning steps, sclang keys are semitones taken from the tuning)',
    'amp when db and velocity are both given without amp',
    'whether a control whose value is only derivable (amp from db, sustain '
    'from dur) is sent with /s_new; if sent it must carry the chain value',
    'reverse conversions (midinote/degree from an explicit freq)',
]


class Scale:
    """Equal-tempered scale: `degrees` are step indices into a tuning of
    `steps` equal steps per 2:1 octave."""

    def __init__(self, degrees, steps=12, name=''):
        self.degrees = list(degrees)
        self.steps = steps
        self.octave_ratio = 2.0
        self.name = name


MAJOR = Scale([0, 2, 4, 5, 7, 9, 11], 12, 'major/et12')


def midicps(m):
    return 440.0 * 2.0 ** ((m - 69.0) / 12.0)


def dbamp(db):
    return 10.0 ** (db / 20.0)


def degree_to_key(degree, scale):
    n = len(scale.degrees)
    return scale.steps * (degree // n) + scale.degrees[degree % n]


def resolve(keys, scale=MAJOR):
    """keys: the keys given explicitly (numbers).  Returns (values, open) with
    values for 'note', 'midinote', 'freq', 'played', 'amp', 'delta', 'sustain'
    and open = subset of {'pitch', 'harmonic', 'amp'} left unspecified."""
    def get(k):
        return keys[k] if k in keys else DEFAULTS[k]

    out = {}
    unspec = set()
    main = [k for k in MAIN_PITCH if k in keys]
    mods = [k for k in PITCH_MODS if k in keys]
    top = main[0] if main else None

    note = midinote = freq = None
    if top is None:
        if mods:
            unspec.add('pitch')
        freq = DEFAULTS['freq']
    else:
        if top == 'degree' and 'ctranspose' in keys:
            unspec.add('pitch')
        if 'note' in keys:
            note = keys['note']
        elif 'degree' in keys:
            d = keys['degree'] + get('mtranspose')
            if d != int(d):
                unspec.add('pitch')
                d = int(d)
            note = degree_to_key(int(d), scale)
        if 'midinote' in keys:
            midinote = keys['midinote']
        elif note is not None:
            midinote = ((note + get('gtranspose') + get('root')) / scale.steps
                        + get('octave') - 5.0) \
                * 12.0 * math.log2(scale.octave_ratio) + 60.0
        if 'freq' in keys:
            freq = keys['freq']
            if 'harmonic' in keys:
                unspec.add('harmonic')
        else:
            freq = midicps(midinote + get('ctranspose'))
    if note is not None and 'note' not in keys:
        out['note'] = note
    if midinote is not None and top in ('midinote', 'note', 'degree'):
        out['midinote'] = midinote
    out['freq'] = freq
    out['played'] = freq * get('harmonic') + get('detune')

    if 'amp' in keys:
        out['amp'] = keys['amp']
    elif 'db' in keys and 'velocity' in keys:
        unspec.add('amp')
        out['amp'] = dbamp(keys['db'])
    elif 'db' in keys:
        out['amp'] = dbamp(keys['db'])
    elif 'velocity' in keys:
        out['amp'] = keys['velocity'] / 127.0
    else:
        out['amp'] = DEFAULTS['amp']

    out['delta'] = keys['delta'] if 'delta' in keys \
        else get('dur') * get('stretch')
    out['sustain'] = keys['sustain'] if 'sustain' in keys \
        else get('dur') * get('legato') * get('stretch')
    return out, unspec


def close(a, b, rel=1e-9):
    return a == b or math.isclose(a, b, rel_tol=rel, abs_tol=1e-12)


# -- what a played note event must send -------------------------------------

ADD_ACTIONS = {'addToHead': 0, 'addToTail': 1, 'addBefore': 2, 'addAfter': 3,
               'addReplace': 4}

DERIVED = {      # control -> keys from which its value is derivable
    'freq': MAIN_PITCH, 'amp': ('db', 'velocity'),
    'sustain': ('dur', 'legato', 'stretch'), 'midinote': ('note', 'degree'),
    'delta': ('dur', 'stretch'),
}


def control_pairs(keys, controls, scale=MAJOR):
    """For a note event with the explicit `keys` on an instrument whose controls
    are `controls` (without 'gate'): returns (must, may) - dicts control->value.
    `must`: pairs that have to be in /s_new (controls the event defines);
    `may`: pairs that may be present, with the value they must then carry.
    Every other pair is forbidden."""
    vals, unspec = resolve(keys, scale)
    must, may = {}, {}
    for c in controls:
        if c == 'gate':
            continue
        if c == 'freq':
            pitch_open = 'pitch' in unspec or 'harmonic' in unspec
            given = any(k in keys for k in MAIN_PITCH)
            if pitch_open:
                may[c] = None                   # any value
            elif given:
                must[c] = vals['played']
            else:
                may[c] = vals['played']         # default pitch: not "defined"
        elif c in keys:
            must[c] = keys[c]
        elif c in DERIVED and any(k in keys for k in DERIVED[c]):
            if c == 'amp' and 'amp' in unspec:
                may[c] = None
            else:
                may[c] = vals[c] if c in vals else None
        elif c in DEFAULTS:
            may[c] = DEFAULTS[c]                # documented default value
    return must, may


# -- timelines of event patterns ------------------------------------------------

class Unspecified(Exception):
    pass


def REST(x):
    return ('Rest', x)


def _num(v):
    return v[1] if isinstance(v, tuple) and v and v[0] == 'Rest' else v


def _is_rest(ev):
    return ev.get('type') == 'rest' or any(
        isinstance(v, tuple) and v and v[0] == 'Rest' for v in ev.values())


def _delta(ev):
    keys = {k: _num(v) for k, v in ev.items()
            if k in ('dur', 'stretch', 'delta')}
    return resolve(keys)[0]['delta']


def _expand(v):
    # ('pat', expr): a finite value pattern in the notation of specs/patterns
    if isinstance(v, tuple) and v and v[0] == 'pat':
        from vf.specs import patterns
        vals = patterns.den(v[1], 1000)
        if len(vals) >= 1000:
            raise Unspecified('infinite value pattern')
        return vals
    return v


def _bind(mapping):
    mapping = {k: _expand(v) for k, v in mapping.items()}
    lists = [v for v in mapping.values() if isinstance(v, list)]
    if not lists:
        raise Unspecified('infinite Pbind')
    n = min(len(v) for v in lists)
    return [{k: (v[i] if isinstance(v, list) else v)
             for k, v in mapping.items()} for i in range(n)]


def stream(expr):
    """Event stream of an event-pattern expression: list of
    (delta, event-keys | None, kind); kind in note/rest/mono_on/mono_set."""
    name = expr[0]
    if name == 'Pbind':
        out = []
        for ev in _bind(expr[1]):
            out.append((_delta(ev), ev, 'rest' if _is_rest(ev) else 'note'))
        return out
    if name == 'Pmono':
        out = []
        for i, ev in enumerate(_bind(expr[2])):
            ev = dict(ev, instrument=expr[1])
            if _is_rest(ev):
                raise Unspecified('rest inside Pmono')
            out.append((_delta(ev), ev, 'mono_on' if i == 0 else 'mono_set'))
        return out
    if name == 'Pdelta':
        t, sub = expr[1], stream(expr[2])
        return ([(t, None, 'rest')] if t > 0 else []) + sub
    if name == 'Pdur':
        d, tol = expr[1], 0.001
        out = []
        elapsed = 0.0
        for delta, ev, kind in stream(expr[2]):
            nxt = elapsed + delta
            if nxt >= d:
                out.append((d - elapsed, ev, kind))
                return out
            if nxt > d - 2 * tol:
                raise Unspecified('Pdur inside the tolerance band')
            out.append((delta, ev, kind))
            elapsed = nxt
        return out
    if name == 'Pseq':
        out = []
        for _ in range(expr[2]):
            for sub in expr[1]:
                out.extend(stream(sub))
        return out
    if name == 'Pn':
        return stream(expr[1]) * expr[2]
    if name == 'Ppar':
        items = []
        total = 0.0
        for ci, sub in enumerate(expr[1]):
            t = 0.0
            for delta, ev, kind in stream(sub):
                items.append((t, ci, len(items), ev, kind))
                t += delta
            total = max(total, t)
        items.sort(key=lambda x: (x[0], x[1], x[2]))
        out = []
        for i, (t, _, _, ev, kind) in enumerate(items):
            nxt = items[i + 1][0] if i + 1 < len(items) else total
            out.append((nxt - t, ev, kind))
        return out
    if name == 'Pchain':
        a, b = stream(expr[1]), stream(expr[2])
        out = []
        for (_, ea, _), (_, eb, kb) in zip(a, b):
            if ea is None or eb is None or kb not in ('note', 'rest'):
                raise Unspecified('Pchain over non-Pbind events')
            ev = dict(eb)
            ev.update(ea)
            out.append((_delta(ev), ev, 'rest' if _is_rest(ev) else 'note'))
        return out
    raise ValueError('unknown event pattern %r' % (name,))


def timeline(expr, t0=0.0):
    """[(time, event-keys, kind)] of the non-rest events and the total
    duration (end time) of the pattern started at t0."""
    t = t0
    out = []
    for delta, ev, kind in stream(expr):
        if kind != 'rest':
            out.append((t, {k: v for k, v in ev.items()}, kind))
        t += delta
    return out, t
