"""Contracts for the dispatchers of the graph optimiser, sc3/synth/ugen.py (C01: the rewrites themselves are under
contract in synth_optimizer; these two decide WHICH rewrite runs):

  BinaryOpUGen._optimize_graph   dead-code elimination is tried first; a unit it removed is not rewritten; otherwise an
                                 addition goes to _optimize_add, a subtraction to _optimize_sub - once - and any other
                                 operator is left alone
  BinaryOpUGen._optimize_add     the rewrites Sum3, Sum4, MulAdd, a + neg(b) -> a - b are tried one after the other (each at most
                                 once; their order is free), a further one only when every earlier one gave nothing; the FIRST
                                 result replaces this unit in its definition (once); no result: nothing is replaced
"""
import z3
from vf.pyvc.spec import contract
from vf.pyvc.values import *
from vf.pyvc.engine import Raised, Unsupported

F = 'sc3/synth/ugen.py'
REMOVED = z3.Bool('dead_code_elimination_removed_the_unit')
OPERATOR = z3.Int('operator_code')           # 0: '+', 1: '-', 2: anything else


def og_dce(eng, selfv, args, kwargs, st, node):
    st.trace.append(('dce',))
    return [(st, vbool(REMOVED))]


def og_step(name):
    def pol(eng, selfv, args, kwargs, st, node):
        st.trace.append(('rewrite', name))
        return [(st, NONE)]
    return pol


def og_getattr(eng, obj, name, st, node):
    if obj.k == 'ref' and obj.oid == 'self' and name == 'operator':
        return [(st, V('obj', oid='self.operator'))]
    return None


def og_compare(eng, op, a, b, st, node):
    import ast
    if isinstance(op, (ast.Eq, ast.NotEq)):
        for p, q in ((a, b), (b, a)):
            if p.k == 'obj' and p.oid == 'self.operator' and q.k == 'str' and q.py is not None:
                code = {'+': 0, '-': 1}.get(q.py, 3)
                r = OPERATOR == code
                return z3.Not(r) if isinstance(op, ast.NotEq) else r
    return None


def optimize_graph_post(c):
    t = c.trace
    dce = [e for e in t if e[0] == 'dce']
    rw = [e for e in t if e[0] == 'rewrite']
    if len(dce) != 1 or len(rw) > 1 or (rw and t.index(dce[0]) > t.index(rw[0])):
        return z3.BoolVal(False)
    if not rw:
        return z3.Or(REMOVED, z3.And(OPERATOR != 0, OPERATOR != 1))
    return z3.And(z3.Not(REMOVED), OPERATOR == (0 if rw[0][1] == 'add' else 1))


contract(F, 'BinaryOpUGen._optimize_graph', props=('C01',), params={'self': 'self'},
         requires=lambda c: z3.And(OPERATOR >= 0, OPERATOR <= 2),
         ensures=[('dead-code-first;a-removed-unit-is-not-rewritten;+:add-rewrites,-:sub-rewrite,once;others-left-alone', optimize_graph_post)],
         fields={'BinaryOpUGen': {}}, class_modules={'BinaryOpUGen': F}, hooks={'getattr': og_getattr, 'compare': og_compare},
         policies={'SynthObject._perform_dead_code_elimination': og_dce, 'BinaryOpUGen._perform_dead_code_elimination': og_dce,
                   'BinaryOpUGen._optimize_add': og_step('add'), 'BinaryOpUGen._optimize_sub': og_step('sub')},
         modifies=[], native=False)


# ---- _optimize_add ---------------------------------------------------------------------------------------------------------------
ORDER = ['_optimize_to_sum3', '_optimize_to_sum4', '_optimize_to_muladd', '_optimize_addneg']


def oa_try(name):
    def pol(eng, selfv, args, kwargs, st, node):
        found = z3.Bool('found_by' + name)
        some, none = st, st.fork()
        r = V('ref', cls='NewUnit', oid='result-of' + name, extra={'truth': z3.BoolVal(True)})
        some.pc.append(found)
        some.trace.append(('tried', name, r))
        none.pc.append(z3.Not(found))
        none.trace.append(('tried', name, NONE))
        return [(some, r), (none, NONE)]
    return pol


def oa_getattr(eng, obj, name, st, node):
    if obj.k == 'ref' and obj.oid == 'self' and name == '_synthdef':
        return [(st, V('obj', oid='self._synthdef'))]
    if obj.k == 'obj' and obj.oid == 'self._synthdef' and name == '_replace_ugen':
        def rep(eng, a, kw, st, node):
            st.trace.append(('replaced', tuple(a)))
            return [(st, NONE)]
        return [(st, V('func', py=('spec', rep)))]
    return None


def optimize_add_post(c):
    t = c.trace
    tried = [e for e in t if e[0] == 'tried']
    rep = [e for e in t if e[0] == 'replaced']
    names = [e[1] for e in tried]
    if not names or len(set(names)) != len(names) or any(n not in ORDER for n in names):
        return z3.BoolVal(False)                                              # each rewrite at most once (their order is free:
                                                                              # every one of them preserves the meaning)
    # every one but the last gave nothing (else the later ones would not have been tried)
    if any(e[2].k != 'none' for e in tried[:-1]):
        return z3.BoolVal(False)
    last = tried[-1]
    if last[2].k == 'none':
        return z3.BoolVal(not rep)                                            # nothing found: nothing replaced (how many rewrites
                                                                              # are tried is free: not optimising keeps the meaning)
    ok = (len(rep) == 1 and len(rep[0][1]) == 2 and rep[0][1][0].k == 'ref' and rep[0][1][0].oid == 'self'
          and rep[0][1][1] is last[2])
    return z3.BoolVal(bool(ok))                                               # the FIRST result replaces this unit, once


contract(F, 'BinaryOpUGen._optimize_add', props=('C01',), params={'self': 'self'},
         ensures=[('rewrites-tried-one-by-one-until-one-gives-a-unit;that-unit-replaces-this-one-once;none:nothing-replaced', optimize_add_post)],
         fields={'BinaryOpUGen': {}, 'NewUnit': {}}, class_modules={'BinaryOpUGen': F, 'NewUnit': F}, hooks={'getattr': oa_getattr},
         policies={'BinaryOpUGen.' + n: oa_try(n) for n in ORDER}, modifies=[], native=False)


# ---- _optimize_update_descendants: who depends on whom after a rewrite ---------------------------------------------------------------
# for every input of the replacement that is a unit (an output proxy stands for its source unit): the replacement is
# entered among that unit's descendants, and the replaced unit and the deleted auxiliary unit are taken out - so that
# "does anything still reference this unit?" (dead-code elimination, C01: "only ... units that nothing references may be
# dropped") is answered for the NEW graph.  Inputs that are not units are skipped.
from vf.pyvc.spec import Loop
from vf.pyvc import values as VV

NIN = z3.Int('replacement.inputs.len')
IS_UNIT = z3.Function('input_is_a_unit', z3.IntSort(), z3.BoolSort())
IS_PROXY = z3.Function('input_is_an_output_proxy', z3.IntSort(), z3.BoolSort())
NO_SET = z3.Function('descendants_not_initialised', z3.IntSort(), z3.BoolSort())


def ud_getattr(eng, obj, name, st, node):
    if obj.k == 'obj' and obj.oid == 'replacement' and name == 'inputs':
        def get(e_, i, s_):
            return V('obj', oid='input', extra={'index': i, 'via': 'direct'})
        return [(st, V('seq', extra={'len': NIN, 'facts': [NIN >= 0], 'inputs-of-the-replacement': True, 'get': get}))]
    if obj.k == 'obj' and obj.oid == 'input' and name == 'source_ugen':
        return [(st, V('obj', oid='input', extra={'index': obj.extra['index'], 'via': 'source'}))]
    if obj.k == 'obj' and obj.oid == 'input' and name == '_descendants':
        return [(st, V('ref', cls='DSet', oid='descendants', extra={'index': obj.extra['index'], 'via': obj.extra['via'],
                                                                      'maybe_none': NO_SET(obj.extra['index'])}))]
    if obj.k == 'ref' and obj.cls == 'DSet' and name in ('add', 'discard'):
        def m(eng, a, kw, st, node, _o=obj, _n=name):
            st.trace.append(('set-' + _n, _o.extra['index'], _o.extra['via'], a[0]))
            return [(st, NONE)]
        return [(st, V('func', py=('spec', m)))]
    return None


def ud_builtin(eng, name, args, kwargs, st, node):
    if name == 'isinstance' and len(args) == 2 and args[0].k == 'obj' and args[0].oid == 'input' and args[1].k == 'class':
        i = args[0].extra['index']
        if args[1].py == 'UGen':
            return [(st, vbool(IS_UNIT(i)))]
        if args[1].py == 'OutputProxy':
            return [(st, vbool(IS_PROXY(i)))]
    return None


def ud_compare(eng, op, a, b, st, node):
    import ast
    if isinstance(op, (ast.Is, ast.IsNot)):
        for p, q in ((a, b), (b, a)):
            if p.k == 'ref' and p.extra and 'maybe_none' in p.extra and q.k == 'none':
                r = p.extra['maybe_none']
                return z3.Not(r) if isinstance(op, ast.IsNot) else r
    return None


def ud_since(trace):
    idx = max([i for i, e in enumerate(trace) if e[0] == 'loop-head'] or [-1])
    return trace[idx + 1:] if idx >= 0 else None


def ud_pass(c, L):
    ev = ud_since(c.trace)
    if not ev or L.phase != 'after':
        return z3.BoolVal(True)
    ops = [e for e in ev if e[0] in ('set-add', 'set-discard')]
    i = L.i - 1
    if not ops:
        return z3.Not(IS_UNIT(i))                                             # only non-units are skipped
    adds = [e for e in ops if e[0] == 'set-add']
    dis = [e for e in ops if e[0] == 'set-discard']
    if len(adds) != 1 or len(dis) != 2 or len({(e[1] is ops[0][1], e[2]) for e in ops}) != 1:
        return z3.BoolVal(False)
    via = ops[0][2]
    me = lambda v: v.k == 'ref' and v.oid == 'self'
    ok = (adds[0][3] is c._params['replacement'] and any(me(e[3]) for e in dis) and any(e[3] is c._params['deleted_unit'] for e in dis))
    return z3.And(IS_UNIT(i), z3.BoolVal(bool(ok)), ops[0][1] == i,
                  z3.BoolVal(via == 'source') == IS_PROXY(i))                # a proxy stands for its source unit


def ud_over(c, seq, k, elem):
    return z3.BoolVal(bool(seq.k == 'seq' and seq.extra.get('inputs-of-the-replacement'))), z3.BoolVal(True)


contract(F, 'BinaryOpUGen._optimize_update_descendants', props=('C01',),
         params={'self': 'self', 'replacement': 'obj', 'deleted_unit': 'obj'},
         ensures=[('nothing-but-the-descendant-sets-of-the-replacements-inputs-is-touched', lambda c: z3.BoolVal(True))],
         loops={0: Loop(inv=ud_pass, over=ud_over, early_exit='return', kinds={'input': 'obj'})},
         fields={'BinaryOpUGen': {}, 'DSet': {}}, class_modules={'BinaryOpUGen': F, 'DSet': F},
         hooks={'getattr': ud_getattr, 'builtin_first': ud_builtin, 'compare': ud_compare}, modifies=[], native=False,
         note='the function gives up (returns) at the first input whose descendant set is not initialised: the graph is then '
              'not in its optimisation phase; passes before that point are still checked')
