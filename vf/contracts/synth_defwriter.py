"""Contract for SynthDef._write_def (C02: "all counts, names, rates and output lists are mutually consistent";
C04: "name table, defaults and variants in the binary"): sc3/synth/synthdef.py.

One definition inside an SCgf v2 file is, in this order:
  name (pascal string) | constants (SynthDef._write_constants: its own contract/bounded) |
  int32 number of control defaults, then EVERY default as float32 in slot order |
  int32 number of control names (the non-prepended ones), then for EVERY name: pascal string, int32 first slot |
  int32 number of units, then EVERY unit writes itself (SynthObject._write_def: synth_writer), in table order |
  int16 number of variants, and for EVERY variant: its name "<def name>.<variant>" (pascal string) followed by a
  FULL set of control values as float32 - a fresh copy of the defaults made for THIS variant, in which exactly the
  values the variant gives are stored at <first slot of the named control> + position - in slot order.
A variant whose name is too long, names an unknown control or gives more values than the control has slots stops
the writing of variants (False is returned, logged); anything else returns True.

The primitive writers are ghost events ('write', kind, file, value): what is checked is the sequence of fields.
"""
import ast
import z3
from vf.pyvc.spec import contract, Loop, REGISTRY
from vf.pyvc.values import *
from vf.pyvc import values as VV
from vf.pyvc.engine import Raised, Unsupported
from vf.contracts.synth_writer import WRITERS, same

F = 'sc3/synth/synthdef.py'
U = 'sc3/base/utils.py'
I = z3.IntSort()
NCTL = z3.Int('controls.len')
CTL = z3.Function('control_default', I, VV.Any)
NNAMES = z3.Int('written_names.len')
NAME = z3.Function('cn_name', I, VV.Any)
NINDEX = z3.Function('cn_index', I, I)
NCH = z3.Int('children.len')
NVAR = z3.Int('variants.len')
VNAME = z3.Function('variant_name', I, VV.Any)
NPAIRS = z3.Function('variant_pairs.len', I, I)
PCN = z3.Function('pair_control_name', I, I, VV.Any)
KNOWN = z3.Function('control_is_known', VV.Any, z3.BoolSort())
CN_OF = z3.Function('slot_of_named_control', VV.Any, I)
CN_WIDTH = z3.Function('width_of_named_control', VV.Any, I)
NVALS = z3.Function('pair_values.len', I, I, I)
PVAL = z3.Function('pair_value', I, I, I, VV.Any)
TOO_LONG = z3.Function('variant_name_too_long', I, z3.BoolSort())


def controls_kind(eng, name):
    return V('seq', extra={'len': NCTL, 'facts': [NCTL >= 0], 'the_controls': True,
                           'get': (lambda e_, i, s_: V('any', CTL(i)))})


def cn_ref(i):
    return V('ref', cls='ControlName', oid='name[%s]' % str(z3.simplify(i)).replace(' ', ''), extra={'pos': i})


def names_seq():
    return V('seq', extra={'len': NNAMES, 'facts': [NNAMES >= 0], 'the_names': True, 'get': (lambda e_, i, s_: cn_ref(i))})


def children_kind(eng, name):
    return V('seq', extra={'len': NCH, 'facts': [NCH >= 0], 'the_children': True,
                           'get': (lambda e_, i, s_: V('obj', oid='unit[%s]' % str(z3.simplify(i)).replace(' ', ''), extra={'unit': i}))})


def h_listcomp(eng, e, it, st, node):
    if it.k == 'obj' and it.oid == 'self._all_control_names' and e.generators[0].ifs:
        st.pc.append(NNAMES >= 0)
        return [(st, names_seq())]
    return None


def h_builtin(eng, name, args, kwargs, st, node):
    if name == 'isinstance' and len(args) == 2 and args[0].k == 'ref' and args[0].cls == 'ControlName':
        return [(st, vbool(True))]
    if name == 'dict' and not args:
        return [(st, V('obj', oid='the-name-map'))]
    if name == 'len' and len(args) == 1 and args[0].k == 'obj' and args[0].extra and 'variant_full_name' in args[0].extra:
        v = args[0].extra['variant_full_name']
        n = eng.fresh('fullname.len', z3.IntSort())
        st.pc.append((n > 32) == TOO_LONG(v))
        return [(st, vint(n))]
    return None


def h_getattr(eng, obj, name, st, node):
    if obj.k == 'ref' and obj.cls == 'ControlName':
        i = obj.extra['pos'] if 'pos' in obj.extra else None
        if name == 'name':
            z = NAME(i) if i is not None else obj.extra['named']
            return [(st, V('any', z, extra={'name_of': obj}))]
        if name == 'index':
            return [(st, vint(NINDEX(i) if i is not None else CN_OF(obj.extra['named'])))]
        if name == 'default_value':
            return [(st, V('obj', oid='default-of', extra={'default_of': obj}))]
    if obj.k == 'obj' and obj.extra and 'unit' in obj.extra and name == '_write_def':
        def wd(eng, a, kw, st, node, _o=obj):
            st.trace.append(('unit-writes-itself', _o, a[0]))
            return [(st, NONE)]
        return [(st, V('func', py=('spec', wd)))]
    if obj.k == 'obj' and obj.oid == 'self._variants' and name == 'items':
        def items(eng, a, kw, st, node):
            return [(st, V('seq', extra={'len': NVAR, 'facts': [NVAR >= 0], 'get': (
                lambda e_, i, s_: vtuple([V('any', VNAME(i), extra={'variant': i}),
                                          V('obj', oid='pairs[%s]' % str(z3.simplify(i)).replace(' ', ''), extra={'pairs_of': i})]))}))]
        return [(st, V('func', py=('spec', items)))]
    if obj.k == 'obj' and obj.extra and 'pairs_of' in obj.extra and name == 'items':
        def pitems(eng, a, kw, st, node, _v=obj.extra['pairs_of']):
            st.pc.append(NPAIRS(_v) >= 0)
            return [(st, V('seq', extra={'len': NPAIRS(_v), 'get': (
                lambda e_, j, s_, _v=_v: vtuple([V('any', PCN(_v, j), extra={'pair': (_v, j)}),
                                                 V('obj', oid='values', extra={'values_of': (_v, j)})]))}))]
        return [(st, V('func', py=('spec', pitems)))]
    if obj.k == 'obj' and obj.oid == 'the-name-map' and name == 'keys':
        return [(st, V('func', py=('spec', lambda eng, a, kw, st, node: [(st, V('obj', oid='the-name-map-keys'))])))]
    if obj.k == 'obj' and obj.oid == 'the-name-map-keys' and name == 'isdisjoint':
        def dis(eng, a, kw, st, node):
            lst = a[0]
            cname = lst.items[0] if lst.k == 'list' and lst.items and len(lst.items) == 1 else None
            if cname is None or cname.k != 'any':
                raise Unsupported(node, 'isdisjoint argument')
            return [(st, vbool(z3.Not(KNOWN(cname.z))))]
        return [(st, V('func', py=('spec', dis)))]
    return None


def h_len(eng, v, st, node):
    if v.k == 'obj' and v.oid == 'self._variants':
        st.pc.append(NVAR >= 0)
        return [(st, vint(NVAR))]
    if v.k == 'obj' and v.extra and 'as_list_of' in v.extra:
        src = v.extra['as_list_of']
        if src.k == 'obj' and src.extra and 'values_of' in src.extra:
            vv, j = src.extra['values_of']
            st.pc.append(NVALS(vv, j) >= 0)
            return [(st, vint(NVALS(vv, j)))]
        if src.k == 'obj' and src.extra and 'default_of' in src.extra:
            cn = src.extra['default_of']
            w = CN_WIDTH(cn.extra['named'])
            st.pc.append(w >= 1)
            return [(st, vint(w))]
    return None


def as_list_pol(eng, selfv, args, kwargs, st, node):
    src = args[0]
    r = V('obj', oid='as_list!%d' % next(eng.counter), extra={'as_list_of': src})
    if src.k == 'obj' and src.extra and 'values_of' in src.extra:
        vv, j = src.extra['values_of']
        st.pc.append(NVALS(vv, j) >= 0)
        return [(st, V('seq', extra={'len': NVALS(vv, j), 'as_list_of': src, 'values_of': (vv, j),
                                     'get': (lambda e_, i, s_, _v=vv, _j=j: V('any', PVAL(_v, _j, i)))}))]
    return [(st, r)]


def h_getitem(eng, obj, idx, st, node):
    if obj.k == 'obj' and obj.oid == 'the-name-map' and idx.k == 'any':
        return [(st, V('ref', cls='ControlName', oid='named-control', extra={'named': idx.z}))]
    return None


def h_setitem(eng, obj, idx, v, st, node):
    if obj.k == 'obj' and obj.oid == 'the-name-map':
        st.trace.append(('map-entry', idx, v))
        return [('next', st)]
    if obj.k == 'seq' and obj.extra.get('copy_no') is not None and idx.k == 'int':
        st.trace.append(('override', obj.extra['copy_no'], idx.z, v))
        return [('next', st)]
    return None


VC = z3.Function('variant_control_value', I, I, VV.Any)


def h_slice(eng, obj, sl, st, node):
    if obj.k == 'seq' and obj.extra.get('the_controls') and sl.lower is None and sl.upper is None and sl.step is None:
        n = next(eng.counter)
        st.trace.append(('controls-copied', n))
        return [(st, V('seq', extra={'len': NCTL, 'copy_no': n, 'get': (lambda e_, i, s_, _n=n: V('any', VC(_n, i), extra={'vc': (_n, i)}))}))]
    return None


def h_binop(eng, op, a, b, st, node):
    # self._name + '.' + varname
    if isinstance(op, ast.Add) and a.k == 'str' and b.k == 'str' and b.py == '.':
        return [(st, V('obj', oid='name-dot', extra={'prefix': a}))]
    if isinstance(op, ast.Add) and a.k == 'obj' and a.oid == 'name-dot' and b.k == 'any' and b.extra and 'variant' in b.extra:
        return [(st, V('obj', oid='full-variant-name', extra={'variant_full_name': b.extra['variant'], 'prefix': a.extra['prefix']}))]
    return None


def same_str(a, b):
    return a is b or (a.k == 'str' and b.k == 'str' and ((a.py is not None and a.py == b.py) or (
        a.py is None and b.py is None and a.extra and b.extra and z3.eq(a.extra['chars'], b.extra['chars']))))


def constants_pol(eng, selfv, args, kwargs, st, node):
    st.trace.append(('constants-written', args[0]))
    return [(st, NONE)]


def since(trace, ordinal):
    idx = -1
    for i, e in enumerate(trace):
        if e[0] == 'loop-head' and e[1] == ordinal:
            idx = i
    return trace[idx + 1:] if idx >= 0 else []


FILE = lambda c, v: v is c._params['file']
EV = ('write', 'unit-writes-itself', 'constants-written', 'controls-copied', 'override', 'map-entry')


def one_write(ordinal, kind, value_ok):
    def inv(c, L):
        if L.phase != 'after':
            return z3.BoolVal(True)
        ev = [e for e in since(c.trace, ordinal) if e[0] in EV]
        if len(ev) != 1 or ev[0][0] != 'write' or ev[0][1] != kind or not FILE(c, ev[0][2]):
            return z3.BoolVal(False)
        return value_ok(c, L.i - 1, ev[0][3])
    return inv


def names_pass(c, L):
    if L.phase != 'after':
        return z3.BoolVal(True)
    ev = [e for e in since(c.trace, 1) if e[0] in EV]
    k = L.i - 1
    if [e[0:2] for e in ev] != [('write', 'pascal_str'), ('write', 'i32')] or not all(FILE(c, e[2]) for e in ev):
        return z3.BoolVal(False)
    nm, ix = ev[0][3], ev[1][3]
    if nm.k != 'any' or ix.k != 'int':
        return z3.BoolVal(False)
    return z3.And(nm.z == NAME(k), ix.z == NINDEX(k))                      # name k, then ITS first slot


def children_pass(c, L):
    if L.phase != 'after':
        return z3.BoolVal(True)
    ev = [e for e in since(c.trace, 2) if e[0] in EV]
    if len(ev) != 1 or ev[0][0] != 'unit-writes-itself' or not FILE(c, ev[0][2]):
        return z3.BoolVal(False)
    return ev[0][1].extra['unit'] == L.i - 1


def map_pass(c, L):
    if L.phase != 'after':
        return z3.BoolVal(True)
    ev = [e for e in since(c.trace, 3) if e[0] in EV]
    k = L.i - 1
    if len(ev) != 1 or ev[0][0] != 'map-entry' or ev[0][1].k != 'any' or ev[0][2].k != 'ref':
        return z3.BoolVal(False)
    return z3.And(ev[0][1].z == NAME(k), ev[0][2].extra['pos'] == k)       # name k -> control name k


def over_seq(length, elem_ok):
    def over(c, sq, k, elem):
        return sq.extra['len'] == length(c), elem_ok(c, k, elem)
    return over


def variant_pass(c, L):
    """one variant: a FRESH copy of the defaults made in this pass, the full name, then every value of THAT copy"""
    if L.phase != 'after':
        return z3.BoolVal(True)
    ev = [e for e in since(c.trace, 4) if e[0] in ('write', 'controls-copied')]
    copies = [e for e in ev if e[0] == 'controls-copied']
    writes = [e for e in ev if e[0] == 'write']
    if len(copies) != 1 or ev[0] is not copies[0] or len(writes) != 1:
        return z3.BoolVal(False)                                          # (the value writes happen in loop 7)
    w = writes[0]
    nm = w[3]
    ok = (w[1] == 'pascal_str' and FILE(c, w[2]) and nm.k == 'obj' and nm.extra and 'variant_full_name' in nm.extra
          and same_str(nm.extra['prefix'], c.pre.self.v('_name')))
    if not ok:
        return z3.BoolVal(False)
    n7 = c.st.env.get('__i7')
    if n7 is None or n7.k != 'int':
        return z3.BoolVal(False)
    cur = c.st.ghost.get('copy_in_hand')
    n5 = c.st.env.get('__i5')
    if n5 is None or n5.k != 'int':
        return z3.BoolVal(False)
    return z3.And(nm.extra['variant_full_name'] == L.i - 1, n7.z == NCTL,  # this variant's name; ALL its values written
                  n5.z == NPAIRS(L.i - 1),                                 # after ALL its (control, values) pairs were applied
                  z3.BoolVal(cur == copies[0][1]))                        # ... of the copy made in THIS pass


def values_pass(c, L):
    if L.phase != 'after':
        return z3.BoolVal(True)
    ev = [e for e in since(c.trace, 7) if e[0] in EV]
    if len(ev) != 1 or ev[0][0] != 'write' or ev[0][1] != 'f32' or not FILE(c, ev[0][2]):
        return z3.BoolVal(False)
    v = ev[0][3]
    vc = v.extra.get('vc') if v.k == 'any' and v.extra else None
    if vc is None:
        return z3.BoolVal(False)
    return vc[1] == L.i - 1


def values_over(c, sq, k, elem):
    n = sq.extra.get('copy_no')
    c.st.ghost = dict(c.st.ghost)
    c.st.ghost['copy_in_hand'] = n
    vc = elem.extra.get('vc') if elem.k == 'any' and elem.extra else None
    return z3.And(z3.BoolVal(n is not None), sq.extra['len'] == NCTL), (vc[1] == k if vc is not None else z3.BoolVal(False))


def pairs_pass(c, L):
    """one (control name, values) pair of a variant: only through the map; all its values stored (loop 6)"""
    if L.phase != 'after':
        return z3.BoolVal(True)
    n6 = c.st.env.get('__i6')
    vals = c.st.env.get('values')
    if n6 is None or n6.k != 'int' or vals is None or vals.k != 'seq' or 'values_of' not in vals.extra:
        return z3.BoolVal(False)
    vv, j = vals.extra['values_of']
    return z3.And(j == L.i - 1, n6.z == NVALS(vv, j))


def store_pass(c, L):
    if L.phase != 'after':
        return z3.BoolVal(True)
    ev = [e for e in since(c.trace, 6) if e[0] in EV]
    k = L.i - 1
    if len(ev) != 1 or ev[0][0] != 'override' or ev[0][3].k != 'any':
        return z3.BoolVal(False)
    cn = c.st.env['cn']
    vals = c.st.env['values']
    if cn.k != 'ref' or 'named' not in cn.extra or vals.k != 'seq' or 'values_of' not in vals.extra:
        return z3.BoolVal(False)
    vv, j = vals.extra['values_of']
    copies = [e for e in c.trace if e[0] == 'controls-copied']
    return z3.And(z3.BoolVal(bool(copies) and ev[0][1] == copies[-1][1]),               # into the copy of THIS variant
                  ev[0][2] == CN_OF(cn.extra['named']) + k,                              # first slot of the named control + position
                  ev[0][3].z == PVAL(vv, j, k))                                          # value k of the pair


def header_post(c):
    t = c.trace
    h0 = [i for i, e in enumerate(t) if e[0] == 'loop-head' and e[1] == 0]
    h1 = [i for i, e in enumerate(t) if e[0] == 'loop-head' and e[1] == 1]
    h2 = [i for i, e in enumerate(t) if e[0] == 'loop-head' and e[1] == 2]
    if not (h0 and h1 and h2):
        return z3.BoolVal(False)
    pre = [e for e in t[:h0[0]] if e[0] in EV]
    mid1 = [e for e in t[h0[-1]:h1[0]] if e[0] in EV]
    mid2 = [e for e in t[h1[-1]:h2[0]] if e[0] in EV]
    after = [e for e in t[h2[-1]:] if e[0] in EV]
    ok = ([e[0:2] for e in pre] == [('write', 'pascal_str'), ('constants-written', c._params['file']), ('write', 'i32')]
          if False else len(pre) == 3 and pre[0][0] == 'write' and pre[0][1] == 'pascal_str' and same_str(pre[0][3], c.pre.self.v('_name'))
          and pre[1][0] == 'constants-written' and pre[2][0] == 'write' and pre[2][1] == 'i32' and pre[2][3].k == 'int'
          and len(mid1) == 1 and mid1[0][0] == 'write' and mid1[0][1] == 'i32' and mid1[0][3].k == 'int'
          and len(mid2) == 1 and mid2[0][0] == 'write' and mid2[0][1] == 'i32' and mid2[0][3].k == 'int'
          and after and after[0][0] == 'write' and after[0][1] == 'i16' and after[0][3].k == 'int')
    if not ok:
        return z3.BoolVal(False)
    cl = [pre[2][3].z == NCTL, mid1[0][3].z == NNAMES, mid2[0][3].z == NCH, after[0][3].z == NVAR]
    r = c.resultv
    if r.k == 'bool' and z3.is_true(z3.simplify(r.z)) and [e for e in t if e[0] == 'loop-head' and e[1] == 4]:
        n4 = c.st.env.get('__i4')
        cl.append(n4.z == NVAR if n4 is not None and n4.k == 'int' else z3.BoolVal(False))   # True only after EVERY variant
    return z3.And(*cl)


K = lambda e, n: V('obj', oid='havoc')
contract(F, 'SynthDef._write_def', props=('C02', 'C04'), params={'self': 'self', 'file': 'obj'},
         raises={'Exception': None},
         ensures=[('name,constants,count+defaults,count+names,count+units,variant-count-in-this-order', header_post)],
         loops={0: Loop(inv=one_write(0, 'f32', lambda c, k, v: v.z == CTL(k) if v.k == 'any' else z3.BoolVal(False)),
                        over=over_seq(lambda c: NCTL, lambda c, k, e: e.z == CTL(k) if e.k == 'any' else z3.BoolVal(False)),
                        kinds={'item': K}),
                1: Loop(inv=names_pass, over=over_seq(lambda c: NNAMES, lambda c, k, e: e.extra['pos'] == k if e.k == 'ref' else z3.BoolVal(False)),
                        kinds={'item': K}),
                2: Loop(inv=children_pass, over=over_seq(lambda c: NCH, lambda c, k, e: e.extra['unit'] == k if e.k == 'obj' and e.extra else z3.BoolVal(False)),
                        kinds={'item': K}),
                3: Loop(inv=map_pass, over=over_seq(lambda c: NNAMES, lambda c, k, e: e.extra['pos'] == k if e.k == 'ref' else z3.BoolVal(False)),
                        kinds={'cn': K}),
                4: Loop(early_exit=True, inv=variant_pass,
                        over=over_seq(lambda c: NVAR, lambda c, k, e: z3.BoolVal(e.k == 'tuple' and e.items[0].k == 'any') if e.k != 'tuple'
                                      else e.items[0].z == VNAME(k)),
                        kinds={'varname': K, 'pairs': K, 'varcontrols': K, 'cname': K, 'values': K, 'cn': K, 'index': 'int',
                               'i': 'int', 'val': K, 'item': K}),
                5: Loop(early_exit=True, inv=pairs_pass, over=over_seq(lambda c: None, lambda c, k, e: z3.BoolVal(True)) if False else None,
                        kinds={'cname': K, 'values': K, 'cn': K, 'index': 'int', 'i': 'int', 'val': K}),
                6: Loop(inv=store_pass, kinds={'i': 'int', 'val': K}),
                7: Loop(inv=values_pass, over=values_over, kinds={'item': K})},
         fields={'SynthDef': {'_name': 'str', '_controls': controls_kind, '_all_control_names': 'obj', '_children': children_kind,
                              '_variants': 'obj'}, 'ControlName': {}},
         class_modules={'SynthDef': F, 'ControlName': 'sc3/synth/ugens/inout.py'},
         hooks={'listcomp': h_listcomp, 'builtin_first': h_builtin, 'getattr': h_getattr, 'len': h_len, 'getitem': h_getitem,
                'setitem': h_setitem, 'slice': h_slice, 'binop': h_binop},
         policies=dict(WRITERS, **{'SynthDef._write_constants': constants_pol, U + '::as_list': as_list_pol}),
         native=False,
         note='control names, units, variants and their pairs are uninterpreted sequences; the map from names to control '
              'names is a ghost dictionary (known / slot / width per name)')
