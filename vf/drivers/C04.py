"""C04 - function parameters become correctly laid-out, correctly wired controls.

Bounded run-time contract driver.  A *signature description* (see
vf/specs/ctl_layout.py) is turned into real Python graph functions (generated
source, `exec`), built with the real `SynthDef(name, func, rates, prepend,
variants, metadata)`, and the resulting definition *bytes* are read back with
the independent SCgf reader and compared with the reference layout:

  defaults       the control array holds the float32 defaults at the slots the
                 reference assigns (rate groups ir | tr | ar | kr, declaration
                 order inside a group, wrapped functions after their wrapper)
  name-table     every name-table entry points at the first slot of its
                 parameter
  control-units  the Control-family units tile the control array exactly
  wiring         the graph function body received, for every parameter, exactly
                 the Control-family outputs at that parameter's slots (each
                 parameter is routed by the generated body to an `Out` with a
                 distinct constant bus tag; prepended parameters arrive as the
                 prepended values)
  lags           a lagged control-rate parameter is served by a LagControl unit
                 whose lag inputs are its lag times
  variants       every 'name.key' block is the full array with the overrides
  call-mapping   `sdef(*args, **kwargs)` pairs positional values with the
                 control names of the outer function after the prepended ones
                 (observed by replacing sc3.synth.node.Synth; no server)

Sub-checks (``--only``): layout, prepend, wrap, specs, variants, call-mapping,
random.
"""
import itertools
import multiprocessing
import random
from concurrent.futures import ProcessPoolExecutor

from vf.common import driver_main, wants, silence_sc3_logging
from vf.specs import scgf
from vf.specs import ctl_layout as L

_S = {}


def _sc3():
    if _S:
        return _S
    import sys
    import warnings
    warnings.simplefilter('ignore')
    silence_sc3_logging()
    _hook = sys.unraisablehook

    def quiet(u):
        # SynthDef.as_bytes keeps a memoryview of a BytesIO; CPython may print
        # "deallocated BytesIO object has exported buffers" at collection.
        if isinstance(u.exc_value, SystemError) and 'BytesIO' in str(u.exc_value):
            return
        _hook(u)
    sys.unraisablehook = quiet
    import sc3
    sc3.init('nrt')
    from sc3.synth.synthdef import SynthDef
    from sc3.synth import node
    from sc3.synth.ugens import Out
    from sc3.synth.spec import ControlSpec
    _S.update(SynthDef=SynthDef, node=node, Out=Out, ControlSpec=ControlSpec)
    return _S


# --------------------------------------------------------------------------
# description -> real functions -> real SynthDef
# --------------------------------------------------------------------------

TAG0 = 1000


def _param_src(p):
    s = p['name']
    if p.get('annot'):
        s += ': %r' % p['annot']
    d = p.get('default')
    if d is not None:
        if isinstance(d, list):
            d = tuple(d)
        s += (' = %r' if p.get('annot') else '=%r') % (d,)
    return s


def _compile(func, lay):
    """Generate and exec the graph functions of a description.  Function
    indices follow creation order (outer = 0, then wrapped functions depth
    first), as vf.specs.ctl_layout.layout numbers them.  -> (F0, source)."""
    S = _sc3()
    g = {'Out': S['Out'], 'SynthDef': S['SynthDef']}
    sources = []
    counter = [0]

    def go(f):
        idx = counter[0]
        counter[0] += 1
        recs = [r for r in lay['records'] if r['func'] == idx]
        lines = ['def F%d(%s):' % (idx, ', '.join(_param_src(p)
                                                for p in f['params']))]
        for r in recs:
            out = 'Out.ar' if (not r['prepended'] and r['rate'] == 'ar') \
                else 'Out.kr'
            lines.append('    %s(%d, %s)' % (out, TAG0 + r['tag'], r['name']))
        for w in f.get('wraps') or []:
            j = go(w)
            g['RATES%d' % j] = None if w.get('rates') is None \
                else _thaw(w['rates'])
            g['PREPEND%d' % j] = _thaw(w.get('prepend') or []) or None
            lines.append('    SynthDef.wrap(F%d, RATES%d, PREPEND%d)' % (j, j, j))
        if len(lines) == 1:
            lines.append('    pass')
        sources.append('\n'.join(lines))
        return idx
    go(func)
    src = '\n\n'.join(reversed(sources))
    exec(compile(src, '<c04>', 'exec'), g)
    return g['F0'], src


def _thaw(x):
    """Fresh, mutable copy of a JSON-ish value (sc3 pads the rates list in
    place)."""
    if isinstance(x, (list, tuple)):
        return [_thaw(i) for i in x]
    return x


def _build(desc, lay):
    """-> (sdef, source) ; raises whatever sc3 raises."""
    S = _sc3()
    func = desc['func']
    specs = desc.get('specs') or {}
    f0, src = _compile(func, lay)
    kw = {}
    if desc.get('variants'):
        kw['variants'] = {k: {c: _thaw(v) for c, v in pairs.items()}
                          for k, pairs in desc['variants'].items()}
    if specs:
        kw['metadata'] = {'specs': {n: S['ControlSpec'](-1e6, 1e6, default=v)
                                    for n, v in specs.items()}}
    rates = None if func.get('rates') is None else _thaw(func['rates'])
    prepend = _thaw(func.get('prepend') or []) or None
    sd = S['SynthDef'](desc.get('name', 'c04'), f0, rates, prepend, **kw)
    return sd, src


FAMILY = {'ir': (('Control',), 0), 'tr': (('TrigControl',), 1),
          'ar': (('AudioControl',), 2), 'kr': (('Control', 'LagControl'), 1)}
CTL_NAMES = ('Control', 'TrigControl', 'AudioControl', 'LagControl')


def _flat_nums(v):
    if isinstance(v, (list, tuple)):
        out = []
        for i in v:
            out.extend(_flat_nums(i))
        return out
    return [v]


def check_desc(desc):
    """Build one description on the real code and compare the bytes with the
    reference.  -> list of (clause, what, observed, expected)."""
    fails = []
    # the reference layout (a ValueError here is a harness error: the
    # generators must not produce descriptions the reference leaves open)
    lay = L.layout(desc['func'], desc.get('specs') or {})
    try:
        sd, src = _build(desc, lay)
        mv = sd.as_bytes()
        data = bytes(mv)
        if isinstance(mv, memoryview):
            mv.release()    # else CPython may print a SystemError at gc time
    except Exception as e:
        return [('build', 'building/serialising raises %s: %s'
                 % (type(e).__name__, e), repr(e), 'a definition')]
    try:
        d = scgf.parse(data)[0]
    except scgf.ScgfError as e:
        return [('build', 'bytes are not a well-formed SCgf-2 file: %s' % e,
                 str(e), 'well-formed file')]
    want = lay['values']
    # defaults
    if len(d.params) != len(want) or any(a != b for a, b in zip(d.params, want)):
        fails.append(('defaults', 'control array differs from the reference '
                      'layout', list(d.params), want))
    # name table
    if sorted(d.param_names) != sorted(lay['names']):
        fails.append(('name-table', 'name table differs',
                      sorted(d.param_names), sorted(lay['names'])))
    # control units tile the array
    ctl = [u for u in d.ugens if u.name in CTL_NAMES]
    spans = sorted((u.special, u.special + len(u.outputs)) for u in ctl)
    cursor, ok = 0, True
    for a, b in spans:
        if a != cursor or b <= a:
            ok = False
            break
        cursor = b
    if not ok or cursor != len(d.params):
        fails.append(('control-units', 'Control-family units do not tile the '
                      'control array 0..%d' % len(d.params), spans,
                      'contiguous spans covering 0..%d' % len(want)))
    # wiring and lags
    outs = {}
    for u in d.ugens:
        if u.name == 'Out' and u.inputs and u.inputs[0][0] == -1:
            tag = d.constants[u.inputs[0][1]]
            outs[int(tag)] = u
    for r in lay['records']:
        u = outs.get(TAG0 + r['tag'])
        if u is None:
            fails.append(('wiring', 'no Out unit tagged %d for parameter %s'
                          % (TAG0 + r['tag'], r['name']), None, r['name']))
            continue
        wires = u.inputs[1:]
        if r['prepended']:
            exp = [L.f32(x) for x in _flat_nums(r['value'])]
            got = [d.constants[b] if a == -1 else ('unit', d.ugens[a].name, b)
                   for (a, b) in wires]
            if got != exp:
                fails.append(('wiring', 'prepended parameter %s did not arrive '
                              'as the prepended value' % r['name'], got, exp))
            continue
        names, rate_no = FAMILY[r['rate']]
        got_slots, problems, lagp = [], [], []
        for k, (a, b) in enumerate(wires):
            if a < 0:
                got_slots.append(('const', d.constants[b]))
                continue
            cu = d.ugens[a]
            if cu.name not in CTL_NAMES:
                got_slots.append(('unit', cu.name, b))
                continue
            got_slots.append(cu.special + b)
            if cu.name not in names or cu.rate != rate_no \
                    or b >= len(cu.outputs) or cu.outputs[b] != rate_no:
                problems.append('slot %d is served by %s (rate %d), a %s '
                                'parameter needs %s at rate %d'
                                % (cu.special + b, cu.name, cu.rate, r['rate'],
                                   '/'.join(names), rate_no))
            if r['rate'] == 'kr' and k < r['n']:
                lag = r['lags'][k]
                if cu.name == 'LagControl':
                    if len(cu.inputs) != len(cu.outputs):
                        lagp.append('LagControl with %d lag inputs for %d '
                                    'outputs' % (len(cu.inputs), len(cu.outputs)))
                    else:
                        la, lb = cu.inputs[b]
                        lv = d.constants[lb] if la == -1 else ('unit', la, lb)
                        if lv != lag:
                            lagp.append('lag of slot %d is %r, expected %r'
                                        % (cu.special + b, lv, lag))
                elif lag != 0:
                    lagp.append('slot %d (lag %r) is served by %s, not a '
                                'LagControl' % (cu.special + b, lag, cu.name))
        exp_slots = list(range(r['slot'], r['slot'] + r['n']))
        if got_slots != exp_slots:
            fails.append(('wiring', 'the body received for parameter %s (%s) '
                          'the outputs of slots %s, its slots are %s'
                          % (r['name'], r['rate'], got_slots, exp_slots),
                          got_slots, exp_slots))
        elif problems:
            fails.append(('wiring', '; '.join(problems), problems, r['rate']))
        if lagp:
            fails.append(('lags', 'parameter %s: %s' % (r['name'],
                                                        '; '.join(lagp)),
                          lagp, r['lags']))
    # variants
    if desc.get('variants') is not None:
        exp = L.variant_blocks(desc.get('name', 'c04'), lay, desc['variants'])
        got = [(n, list(v)) for (n, v) in d.variants]
        if sorted(got) != sorted(exp):
            fails.append(('variants', 'variant blocks differ', got, exp))
    # call mapping
    if desc.get('call') is not None:
        fails.extend(_check_call(sd, desc))
    return fails


def _check_call(sd, desc):
    S = _sc3()
    node = S['node']
    seen = []

    def fake(name, args=None, *a, **k):
        seen.append((name, list(args or [])))
        return None
    real = node.Synth
    node.Synth = fake
    try:
        args = _thaw(desc['call'].get('args') or [])
        kwargs = dict(desc['call'].get('kwargs') or {})
        try:
            sd(*args, **kwargs)
        except Exception as e:
            return [('call-mapping', 'calling the definition raises %s: %s'
                     % (type(e).__name__, e), repr(e), 'a Synth')]
    finally:
        node.Synth = real
    if len(seen) != 1:
        return [('call-mapping', 'no Synth was created', seen, 1)]
    name, arg_list = seen[0]
    exp = L.call_pairs(desc['func'], args, kwargs)
    got = [(arg_list[i], arg_list[i + 1]) for i in range(0, len(arg_list) - 1, 2)]
    if name != desc.get('name', 'c04') or len(arg_list) % 2 \
            or sorted(map(repr, got)) != sorted(map(repr, exp)):
        return [('call-mapping', 'sdef(*%r, **%r) sends %r, the control names '
                 'of the outer function give %r' % (args, kwargs, arg_list, exp),
                 arg_list, [x for p in exp for x in p])]
    return []


# --------------------------------------------------------------------------
# description generators
# --------------------------------------------------------------------------

ANNOTS = (None, 'ir', 'tr', 'ar', 'kr')
DKINDS = ('m', 's', 't')
ENTRIES = (None, 0, 0.1, 'L2', 'L1', 'L3', 'ir', 'tr', 'ar', 'kr')
LISTS = {'L1': [0.3], 'L2': [0.1, 0.25], 'L3': [0.2, 0.0, 0.4, 0.5]}


def _valid(annot, dk, ent):
    if ent in (0.1,):
        return annot in (None, 'kr')
    if ent in LISTS:
        return annot in (None, 'kr') and dk == 't'
    return True


def _default_value(dk, i):
    if dk == 'm':
        return None
    if dk == 's':
        return round(1.1 + 1.7 * i, 3)
    return [round(20.2 + 1.3 * i, 3), round(-3.3 - 0.7 * i, 3),
            round(0.05 + 0.01 * i, 3)]


def _func_from(choices, base=0, prepend=None, wraps=None, trim=False):
    """choices: [(annot, dk, ent)] per parameter."""
    params, rates = [], []
    k = len(prepend or [])
    for i, (annot, dk, ent) in enumerate(choices):
        params.append({'name': 'p%d' % (base + i), 'annot': annot,
                       'default': _default_value(dk, base + i)})
        if i >= k:
            rates.append(LISTS.get(ent, ent) if isinstance(ent, str) else ent)
    if all(e is None for e in rates):
        rates = None if trim or not rates else rates
    elif trim:
        while rates and rates[-1] is None:
            rates.pop()
    return {'params': params, 'rates': rates, 'prepend': list(prepend or []),
            'wraps': list(wraps or [])}


def _prefix_ok(choices):
    seen_default = False
    for (_, dk, _) in choices:
        if dk == 'm':
            if seen_default:
                return False
        else:
            seen_default = True
    return True


def gen_layout(tier):
    """Exhaustive signatures.  E1 annotations only, E2 rates only, E3 both."""
    descs = []
    kmax1 = 4 if tier == 'thorough' else 3
    kmax2 = 3
    kmax3 = 3 if tier == 'thorough' else 2
    n = 0
    descs.append({'func': _func_from([])})
    e1 = [(a, dk, None) for a in ANNOTS for dk in DKINDS]
    for k in range(1, kmax1 + 1):
        for c in itertools.product(e1, repeat=k):
            if _prefix_ok(c):
                descs.append({'func': _func_from(list(c), trim=True)})
    e2 = [(None, dk, e) for dk in DKINDS for e in ENTRIES if _valid(None, dk, e)]
    for k in range(1, kmax2 + 1):
        for c in itertools.product(e2, repeat=k):
            if _prefix_ok(c) and any(x[2] is not None for x in c):
                n += 1
                descs.append({'func': _func_from(list(c), trim=bool(n % 2))})
    e3 = [(a, dk, e) for a in ANNOTS[1:] for dk in DKINDS for e in ENTRIES
          if _valid(a, dk, e)]
    e3all = e3 + e2
    for k in range(1, kmax3 + 1):
        for c in itertools.product(e3all, repeat=k):
            if _prefix_ok(c) and any(x[0] is not None for x in c) \
                    and any(x[2] is not None for x in c):
                n += 1
                descs.append({'func': _func_from(list(c), trim=bool(n % 2))})
    return descs


class _Gen:
    """Seeded random descriptions."""

    def __init__(self, rng):
        self.rng = rng
        self.n = 0

    def choices(self, k, tuple_sizes=(2,)):
        rng = self.rng
        out = []
        m = rng.randint(0, k) if rng.random() < 0.4 else 0
        for i in range(k):
            dk = 'm' if i < m else rng.choice(('s', 's', 't'))
            annot = rng.choice(ANNOTS + (None, None))
            ents = [e for e in ENTRIES if _valid(annot, dk, e)]
            ent = rng.choice(ents + [None] * 3)
            out.append((annot, dk, ent))
        return out

    def func(self, kmax, depth, prepend_p=0.3, wrap_p=0.5, big=False):
        rng = self.rng
        k = rng.randint(0, kmax)
        ch = self.choices(k)
        base = self.n
        self.n += k
        npre = 0
        if k and rng.random() < prepend_p:
            npre = rng.randint(1, min(k, 3))
        prepend = []
        for i in range(npre):
            prepend.append(rng.choice([7, 0.5, -2.25, [3, 4.5]]))
        wraps = []
        if depth > 0 and rng.random() < wrap_p:
            for _ in range(rng.randint(1, 2)):
                wraps.append(self.func(max(1, kmax // 2), depth - 1,
                                       prepend_p, wrap_p * 0.6))
        f = _func_from(ch, base=base, prepend=prepend, wraps=wraps,
                       trim=rng.random() < 0.5)
        if big:
            # array defaults of other sizes, more than 16 lagged slots
            for p in f['params'][npre:]:
                if isinstance(p['default'], list) and rng.random() < 0.5:
                    j = f['params'].index(p) - npre
                    has_list = f['rates'] is not None and j < len(f['rates']) \
                        and isinstance(f['rates'][j], list)
                    n = rng.choice((3, 5, 9) if has_list else (1, 3, 5, 9))
                    p['default'] = [round(rng.uniform(-500, 500), 3)
                                    for _ in range(n)]
                elif p['default'] is not None and not isinstance(p['default'], list):
                    p['default'] = rng.choice(
                        [0, 1, -1, 440, 0.1, 1e-3, 16777217, -3.3e7,
                         round(rng.uniform(-1e4, 1e4), 4)])
        return f

    def controls(self, f):
        """[(name, channels)] of every control of f and its wraps."""
        out = []
        k = len(f['prepend'])
        for p in f['params'][k:]:
            out.append((p['name'], L.channels(p['default'])))
        for w in f['wraps']:
            out.extend(self.controls(w))
        return out


def gen_prepend(rng, count):
    g = _Gen(rng)
    descs = []
    e1 = [(a, dk, None) for a in ANNOTS for dk in DKINDS]
    vals = [7, -2.25, [3, 4.5]]
    # exhaustive: up to 2 parameters x every prepend count
    for k in (1, 2):
        for c in itertools.product(e1, repeat=k):
            if not _prefix_ok(c):
                continue
            for npre in range(1, k + 1):
                descs.append({'func': _func_from(list(c), prepend=vals[:npre],
                                                 trim=True)})
    while len(descs) < count:
        g.n = 0
        f = g.func(5, 0, prepend_p=1.0)
        if f['prepend']:
            descs.append({'func': f})
    return descs


def gen_wrap(rng, count):
    g = _Gen(rng)
    descs = []
    while len(descs) < count:
        g.n = 0
        f = g.func(3, 2, prepend_p=0.25, wrap_p=1.0)
        if f['wraps']:
            descs.append({'func': f})
    descs.sort(key=lambda d: len(repr(d)))
    return descs


def gen_specs(rng, count):
    g = _Gen(rng)
    descs = []
    while len(descs) < count:
        g.n = 0
        f = g.func(4, 1, prepend_p=0.15, wrap_p=0.4)
        names = [n for n, _ in g.controls(f)]
        if not names:
            continue
        specs = {}
        for n in names:
            if rng.random() < 0.6:
                specs[n] = round(rng.uniform(-100, 100), 3)
        # a spec for a name that does not exist is harmless
        if rng.random() < 0.3:
            specs['zz'] = 1.0
        descs.append({'func': f, 'specs': specs})
    descs.sort(key=lambda d: len(repr(d)))
    return descs


def gen_variants(rng, count):
    g = _Gen(rng)
    descs = []
    while len(descs) < count:
        g.n = 0
        f = g.func(4, 1, prepend_p=0.15, wrap_p=0.4)
        ctl = g.controls(f)
        if not ctl:
            continue
        variants = {}
        for v in range(rng.randint(1, 3)):
            pairs = {}
            for (n, ch) in ctl:
                if rng.random() < 0.5:
                    if ch == 1:
                        pairs[n] = round(rng.uniform(-50, 50), 3)
                    else:
                        m = rng.randint(1, ch)
                        pairs[n] = [round(rng.uniform(-50, 50), 3)
                                    for _ in range(m)]
            variants['v%d' % v] = pairs
        descs.append({'func': f, 'variants': variants})
    descs.sort(key=lambda d: len(repr(d)))
    return descs


def gen_calls(rng, count):
    """Call-mapping scenarios, smallest first."""
    descs = []
    one = [(None, 's', None)]

    def fn(k, base, prepend=None, wraps=None):
        return _func_from(one * k, base=base, prepend=prepend, wraps=wraps,
                          trim=True)
    # plain / wrap / prepend, enumerated
    for k in (1, 2, 3):
        for nargs in range(0, k + 1):
            descs.append({'func': fn(k, 0), 'call': {
                'args': [440 + i for i in range(nargs)], 'kwargs': {}}})
        descs.append({'func': fn(k, 0), 'call': {
            'args': [], 'kwargs': {'p%d' % (k - 1): 0.25}}})
    for k in (1, 2):
        for ki in (1, 2):
            inner = fn(ki, 10)
            for nargs in range(1, k + 1):
                descs.append({'func': fn(k, 0, wraps=[inner]), 'call': {
                    'args': [440 + i for i in range(nargs)],
                    'kwargs': {'p10': 0.5}}})
    for k in (2, 3):
        for npre in range(1, k):
            for nargs in range(1, k - npre + 1):
                descs.append({'func': fn(k, 0, prepend=[7, 8][:npre]), 'call': {
                    'args': [440 + i for i in range(nargs)], 'kwargs': {}}})
    g = _Gen(rng)
    while len(descs) < count:
        g.n = 0
        f = g.func(4, 1, prepend_p=0.4, wrap_p=0.5)
        own = [p['name'] for p in f['params'][len(f['prepend']):]]
        allc = [n for n, _ in g.controls(f)]
        if not own:
            continue
        nargs = rng.randint(0, len(own))
        rest = [n for n in allc if n not in own[:nargs]]
        kwargs = {n: round(rng.uniform(0, 9), 2)
                  for n in rest if rng.random() < 0.3}
        descs.append({'func': f, 'call': {
            'args': [round(rng.uniform(100, 900), 1) for _ in range(nargs)],
            'kwargs': kwargs}})
    return descs


def gen_random(rng, count, kmax):
    g = _Gen(rng)
    descs = []
    while len(descs) < count:
        g.n = 0
        f = g.func(kmax, 2, prepend_p=0.3, wrap_p=0.4, big=True)
        d = {'func': f}
        ctl = g.controls(f)
        if ctl and rng.random() < 0.4:
            pairs = {}
            for (n, ch) in ctl:
                if rng.random() < 0.3:
                    pairs[n] = round(rng.uniform(-50, 50), 3) if ch == 1 else \
                        [round(rng.uniform(-50, 50), 3)
                         for _ in range(rng.randint(1, ch))]
            d['variants'] = {'a': pairs}
        if ctl and rng.random() < 0.4:
            d['specs'] = {n: round(rng.uniform(-9, 9), 3)
                          for n, _ in ctl if rng.random() < 0.5}
        descs.append(d)
    # a lagged array parameter larger than one LagControl clump (16)
    for n in (16, 17, 33):
        descs.append({'func': {
            'params': [{'name': 'a', 'annot': None, 'default': 1.5},
                       {'name': 'big', 'annot': None,
                        'default': [round(0.5 + i, 2) for i in range(n)]},
                       {'name': 'z', 'annot': 'kr', 'default': 2.5}],
            'rates': [None, [0.1, 0.2, 0.3], 0.4], 'prepend': [], 'wraps': []}})
    return descs


# --------------------------------------------------------------------------
# running
# --------------------------------------------------------------------------

def _size(desc):
    def nparams(f):
        return len(f['params']) + sum(nparams(w) for w in f['wraps'])
    return nparams(desc['func'])


def _worker(chunk):
    _sc3()
    out = []
    for i, desc in chunk:
        fails = check_desc(desc)
        if fails:
            out.append((i, fails))
    return out


def _run(rep, pool, sub, descs, function, bound, rule, exhaustive,
         fixed_key=None):
    chunks = [list(enumerate(descs))[i::64] for i in range(64)]
    chunks = [c for c in chunks if c]
    results = []
    for r in pool.map(_worker, chunks):
        results.extend(r)
    results.sort(key=lambda t: (_size(descs[t[0]]), t[0]))
    if sub == 'call-mapping':
        # enumerated scenarios first; show one wrapped and one prepended
        # definition among the (at most 3) violations kept per key
        results.sort(key=lambda t: t[0])
        first = []
        for pred in (lambda f: f['wraps'] and not f['prepend'],
                     lambda f: f['prepend'] and not f['wraps']):
            for t in results:
                if pred(descs[t[0]]['func']) and t not in first:
                    first.append(t)
                    break
        results = first + [t for t in results if t not in first]
    for i, fails in results:
        desc = descs[i]
        for (clause, what, obs, exp) in fails:
            key = 'C04.%s:%s' % (clause, sub)
            if clause == 'call-mapping':
                key = 'C04.call-mapping:callable-args'
            rep.violation(
                obligation='C04.' + clause, what=what, input=desc,
                observed=obs, expected=exp, key=key,
                replay={'func': 'desc', 'args': {'desc': desc, 'sub': sub}})
    distinct = len(set(repr(d) for d in descs))
    samples = [descs[j] for j in (len(descs) // 7, len(descs) // 3,
                                  len(descs) // 2, -1) if descs]
    rep.bounded(name=sub, function=function, bound=bound,
                evaluations=len(descs), distinct_nontrivial=distinct,
                rule=rule, samples=samples, exhaustive=exhaustive)


def main(rep):
    _sc3()
    thorough = rep.tier == 'thorough'
    ctx = multiprocessing.get_context('fork')
    pool = ProcessPoolExecutor(max_workers=16, mp_context=ctx)
    fn = 'sc3.synth.synthdef.SynthDef (_args_to_controls/_build_controls/' \
         '_write_def) + sc3.synth.ugens.inout Control family'
    try:
        if wants(rep, 'layout'):
            descs = gen_layout(rep.tier)
            _run(rep, pool, 'layout', descs, fn,
                 'every signature of <=%d parameters with annotations only, '
                 '<=3 with a rates list only, <=%d with both; annotation in '
                 '{none,ir,tr,ar,kr}, default in {missing,scalar,3-tuple}, '
                 'rates entry in {None,0,0.1,[0.3],[0.1,0.25],[0.2,0,0.4,0.5],ir,tr,'
                 'ar,kr}' % ((4, 3) if thorough else (3, 2)),
                 'one build per signature; python syntax forces missing '
                 'defaults to be a prefix; combinations the statement leaves '
                 'open are not generated (see notes)', True)
        if wants(rep, 'prepend'):
            descs = gen_prepend(random.Random(rep.seed * 7 + 1),
                                6000 if thorough else 900)
            _run(rep, pool, 'prepend', descs, fn,
                 'all signatures of <=2 parameters x every prepend count, plus '
                 'seeded random signatures of <=5 parameters with 1..3 '
                 'prepended values', 'one build per signature', False)
        if wants(rep, 'wrap'):
            descs = gen_wrap(random.Random(rep.seed * 7 + 2),
                             8000 if thorough else 1200)
            _run(rep, pool, 'wrap', descs, fn,
                 'seeded random outer functions (<=3 parameters) wrapping 1-2 '
                 'inner functions, nesting depth <=2, inner rates/prepend',
                 'one build per description', False)
        if wants(rep, 'specs'):
            descs = gen_specs(random.Random(rep.seed * 7 + 3),
                              4000 if thorough else 700)
            _run(rep, pool, 'specs', descs, fn,
                 'seeded random signatures (<=4 parameters, optional wrap) x '
                 'random metadata spec defaults for a subset of the names',
                 'one build per description', False)
        if wants(rep, 'variants'):
            descs = gen_variants(random.Random(rep.seed * 7 + 4),
                                 4000 if thorough else 700)
            _run(rep, pool, 'variants', descs, fn,
                 'seeded random signatures x 1-3 variants overriding random '
                 'subsets of the controls (array controls partially)',
                 'one build per description', False)
        if wants(rep, 'call-mapping'):
            descs = gen_calls(random.Random(rep.seed * 7 + 5),
                              3000 if thorough else 500)
            _run(rep, pool, 'call-mapping', descs,
                 'sc3.synth.synthdef.SynthDef.__call__',
                 'enumerated plain / wrapped / prepended definitions of <=3 '
                 'parameters x every positional count, plus seeded random '
                 'definitions with keyword arguments',
                 'one build + one call per description; Synth replaced by a '
                 'recorder', False)
        if wants(rep, 'random'):
            descs = gen_random(random.Random(rep.seed * 7 + 6),
                               5000 if thorough else 300, 40 if thorough else 24)
            _run(rep, pool, 'random', descs, fn,
                 'seeded random definitions of up to %d parameters per '
                 'function with wraps, prepend, variants, specs, array '
                 'defaults of 1..9 values, float32-inexact defaults, and '
                 'lagged arrays of 16/17/33 values (LagControl clumps)'
                 % (40 if thorough else 24),
                 'one build per description', False)
    finally:
        pool.shutdown()
    rep.note('left open on purpose: (1) a lag number/list in `rates` for a '
             'parameter annotated ir/tr/ar (sc3 ignores it with a warning; the '
             'statement does not say) and a lag *list* for a one-slot '
             'parameter are never generated; (2) the order of the name-table '
             'entries is not checked, only the name -> slot mapping; (3) a '
             'control-rate parameter with zero lag may be served by a Control '
             'or by a LagControl with lag 0; (4) `None` as an explicit default '
             'and duplicate control names across wrapped functions are not '
             'generated; (5) more positional call arguments than names.')


def replay(case, rep):
    _sc3()
    a = (case.get('replay') or {}).get('args') or {}
    desc, sub = a.get('desc'), a.get('sub', 'replay')
    if desc is None:
        return None
    for (clause, what, obs, exp) in check_desc(desc):
        key = 'C04.%s:%s' % (clause, sub)
        if clause == 'call-mapping':
            key = 'C04.call-mapping:callable-args'
        rep.violation(obligation='C04.' + clause, what=what, input=desc,
                      observed=obs, expected=exp, key=key)
    return not rep.violations


if __name__ == '__main__':
    driver_main('C04', main, replay)
