"""Per-property registry: which sidecar contract modules are proved (A), which
bounded drivers run (B), what is assumed and what stays unreached."""

FLOATS = ('Python float is treated as a mathematical real in every proved '
          'obligation (no rounding, no NaN/inf unless the code names it)')

PROPS = {}

PROPS['C15'] = dict(
    claimed=True,
    level_text=('Numeric range/inverse laws of mod, div, wrap, fold, clip, round, roundup, trunc and the '
                'midi/cps, ratio/midi, oct/cps, amp/db pairs are postconditions on the real kernels and are '
                'discharged for all int/float arguments (one case per type assignment; floats as reals); the '
                'opcode tables and the selector each operator method passes are exhaustive finite obligations. '
                'Lifting over functions/streams/patterns/lists/operands is decided by a bounded run-time '
                'contract driver (all 127 operator methods x operand kinds x forced samples) — bounded, not proved.'),
    level_note=('Trusted: z3/cvc5; floats treated as reals; decimal literals exact; axioms log2(2^y)=y, '
                '2^(log2 x)=x for x>0 (and base 10); scbuiltin wrappers transparent on plain numbers. '
                'Bounded part: sampled operands, 1e-9/1e-12 tolerances on non-dyadic floats.'),
    technique='contract-based deductive verification (AST->VC, z3/cvc5) of the numeric kernels + exhaustive tables; bounded run-time contracts for lifting',
    level='other',
    contracts=['base_builtins', 'synth_specialindex'],
    drivers=['vf.drivers.C15'],
    assumptions=[FLOATS],
    trusted_base=[],
    unreached=[],
    explanation='',
)

PROPS['C12'] = dict(
    claimed=True,
    level_text=('Every clause of the statement is a discharged obligation over the real TempoClock methods: the '
                'reciprocal/meter class invariants are established by __init__ and preserved by tempo=, etempo, '
                'beats=, beats_per_bar= (so they hold after any history); there-and-back identities, continuity of '
                'the (beats, seconds) pair and advance at the new tempo are two-call theorems stated with API calls '
                'only (ghost lemma functions whose callees are the real bodies inlined from /repo); '
                'next_time_on_grid is proved not-before-reference, below reference+quant and congruent to phase; '
                'play(quant) schedules exactly one task exactly there; bar conversions inverse, next_bar a bar '
                'line not before the beat.'),
    level_note=('Assumes floats are reals (IEEE rounding ignored: the bounded driver measures the float error), '
                'clock running state and rt/nrt mode as ghost booleans, NotificationCenter.notify and _sched_add as '
                'opaque trace events, bi.mod/bi.roundup inlined from builtins.py. Trusted: z3.'),
    technique='contract-based deductive verification: class invariants + two-call lemma functions over the real method bodies, z3',
    level='proof',
    contracts=['base_clock'],
    drivers=[],
    assumptions=[FLOATS],
    trusted_base=[],
    unreached=[],
    explanation='',
)

PROPS['C16'] = dict(
    level='other',
    contracts=['synth_engine'],
    drivers=[],
    assumptions=[FLOATS],
    trusted_base=[],
    unreached=[],
    explanation='',
)

PROPS['C07'] = dict(
    level='other',
    contracts=['base_oscinterface'],
    drivers=[],
    assumptions=[FLOATS],
    trusted_base=[],
    unreached=[],
    explanation='',
)

PROPS['C06'] = dict(
    level='other',
    contracts=['base_osclib'],
    drivers=[],
    assumptions=[FLOATS],
    trusted_base=[],
    unreached=[],
    explanation='',
)

PROPS['C01'] = dict(
    level='other',
    contracts=['synth_specialindex'],
    drivers=[],
    assumptions=[FLOATS],
    trusted_base=[],
    unreached=[],
    explanation='',
)

PROPS['C19'] = dict(
    claimed=True,
    level_text=('Shape-name table and curve values are exhaustive finite obligations on the real '
                'Env._shape_number/_curve_value; the array layout, the eleven constructors, client-side '
                'evaluation (breakpoints, betweenness, hold) and the EnvGen inputs in definition bytes are decided '
                'by a bounded run-time contract driver against an independent Env reference.'),
    level_note=('Env._envgen_format/_env_at go through dynamic graph-parameter dispatch and are outside the '
                'provable subset: bounded only (20k formats, 2.5k envelopes x dense time grids in quick). '
                'Betweenness tolerance 1e-9 (1e-5 with cubed segments).'),
    technique='exhaustive table obligations on the real functions + bounded run-time contracts against an independent Env reference',
    level='other',
    contracts=['synth_envelope'],
    drivers=['vf.drivers.C19'],
    assumptions=[FLOATS],
    trusted_base=[],
    unreached=[],
    explanation='',
)

PROPS['C09'] = dict(
    level='proof',
    contracts=['base_taskq'],
    drivers=[],
    assumptions=[FLOATS],
    trusted_base=[],
    unreached=[],
    explanation='',
)
