"""Contract for the bind() context manager in sc3/base/netaddr.py (C17):
the collected bundle is sent iff the block did not raise — whatever was raised
(exceptions outside the Exception hierarchy included) — and the server's
address is restored on every exit."""
import z3
from vf.pyvc.spec import contract
from vf.pyvc.values import *

F = 'sc3/base/netaddr.py'
FIELDS = {'BundleNetAddr': {'_server': ['none', 'ref:Server'], '_save_addr': 'obj', '_send': 'bool'},
          'Server': {'_addr': 'obj'}}


def exc_kind(eng, name):
    # an exception instance of an arbitrary class (BaseException subclasses included)
    return V('exc', cls='BaseException', extra={'line': None})


def sent(c):
    return any(e[0] == 'call' and e[1] == 'BundleNetAddr._send_last_bundle' for e in c.trace)


def exit_post(c):
    raised = c.kinds['exc_type'] != 'none'
    want = z3.And(z3.BoolVal(not raised), c.pre.self._send)
    return z3.BoolVal(sent(c)) == want


for srv in ('none', 'ref:Server'):
    contract(F, 'BundleNetAddr.__exit__', props=('C17',),
             params={'self': 'self', 'exc_type': ['none', 'class:BaseException', 'class:GeneratorExit',
                                                  'class:KeyboardInterrupt', 'class:ValueError'],
                     'exc_val': ['none', exc_kind], 'exc_tb': ['none', 'obj']},
             requires=None,
             ensures=[('sends-iff-the-block-did-not-raise', exit_post)],
             fields={'BundleNetAddr': {'_server': srv, '_save_addr': 'obj', '_send': 'bool'},
                     'Server': {'_addr': 'obj'}},
             policies={'BundleNetAddr._send_last_bundle': 'opaque'},
             class_modules={'BundleNetAddr': F}, native=False, max_cases=40)
    from vf.pyvc.spec import REGISTRY
    key = '%s::BundleNetAddr.__exit__#%s' % (F, 'server' if srv != 'none' else 'noserver')
    REGISTRY[key] = REGISTRY.pop('%s::BundleNetAddr.__exit__' % F)
    REGISTRY[key].key = key
