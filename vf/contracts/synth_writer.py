"""Contracts for the unit-level binary writer (C02): what a unit generator writes into
an SCgf definition, in which order, and where its wire indices come from.

The primitive writers (write_i8/i16/i32/f32/pascal_str, proved in synth_fmtrw) are
replaced here by ghost trace events ('write', kind, value): the obligations are about
the SEQUENCE of fields, which is the part of the format the statement of C02 speaks
about ("every unit-generator input refers either to an existing constant or to an
existing output of a unit", "all counts, names, rates and output lists are mutually
consistent").

Virtual methods (name, _rate_number, _num_inputs, _num_outputs, _write_output_specs,
the parameter's _write_input_spec) are opaque calls recorded in the trace, so the
contract of UGen._write_def holds for every subclass that overrides them; the base
implementations have their own contracts below.
"""
import z3
from vf.pyvc.spec import contract, Loop
from vf.pyvc.values import *
from vf.pyvc import values as VV
from vf.pyvc.engine import Raised, Unsupported

F = 'sc3/synth/ugen.py'
G = 'sc3/synth/_graphparam.py'
W = 'sc3/synth/_fmtrw.py'


def writer(kind):
    def f(eng, selfv, args, kwargs, st, node):
        st.trace.append(('write', kind, args[0], args[1]))
        return [(st, NONE)]
    return f


WRITERS = {'%s::write_%s' % (W, k): writer(k) for k in ('i8', 'i16', 'i32', 'f32', 'pascal_str')}


def inputs_kind(eng, name):
    n = z3.Int(name + '.len')
    return V('seq', extra={'len': n, 'facts': [n >= 0],
                           'get': (lambda eng_, i, st_, _n=name: V('any', z3.Const('%s[%s]' % (_n, z3.simplify(i)), VV.Any)))})


def virtual(name, kind):
    """opaque virtual method: one trace event, a symbolic result of the given kind"""
    def f(eng, selfv, args, kwargs, st, node):
        n = next(eng.counter)
        if kind == 'int':
            r = vint(z3.Int('%s!%d' % (name, n)))
        elif kind == 'str':
            r = eng.sym_of_kind('str', '%s!%d' % (name, n))
        else:
            r = NONE
        st.trace.append(('virtual', name, r, tuple(args)))
        return [(st, r)]
    return f


def ugen_param(eng, selfv, args, kwargs, st, node):
    # gpp.ugen_param(x): the parameter object of x (x itself for unit generators)
    return [(st, V('obj', oid='param!%d' % next(eng.counter), extra={'of': args[0]}))]


def h_getattr(eng, obj, name, st, node):
    if obj.k == 'obj' and obj.extra and 'of' in obj.extra and name == '_write_input_spec':
        def spec(eng, args, kwargs, st, node, _o=obj):
            st.trace.append(('input-spec', _o.extra['of'], tuple(args)))
            return [(st, NONE)]
        return [(st, V('func', py=('spec', spec)))]
    return None


UG = {'inputs': inputs_kind, '_special_index': 'int', '_synthdef': 'obj', '_synth_index': 'int',
      '_output_index': 'int', '_channels': inputs_kind}


def since_head(trace, ordinal=0):
    idx = -1
    for i, e in enumerate(trace):
        if e[0] == 'loop-head' and e[1] == ordinal:
            idx = i
    return trace[idx + 1:] if idx >= 0 else None


def same(a, b):
    """the very value (same symbolic object / same term)"""
    if a is b:
        return True
    if isinstance(a, V) and isinstance(b, V) and a.k == b.k:
        if a.k in ('int', 'real', 'bool', 'any') and a.z is not None and b.z is not None:
            return z3.eq(z3.simplify(a.z), z3.simplify(b.z))
        if a.k in ('obj', 'ref'):
            return a.oid == b.oid
        if a.k == 'str':
            return a.extra is b.extra if a.py is None else a.py == b.py
    return False


def per_input(c, L):
    ev = since_head(c.trace)
    if not ev:
        return z3.BoolVal(True)
    specs = [e for e in ev if e[0] == 'input-spec']
    other = [e for e in ev if e[0] in ('write', 'virtual')]
    if len(specs) != 1 or other:
        return z3.BoolVal(False)
    inputs = c.pre.self.v('inputs')
    item = inputs.extra['get'](c._eng, L.i - 1, c.st)
    src, args = specs[0][1], specs[0][2]
    sd = c.pre.self.v('_synthdef')
    ok = (len(args) == 2 and same(args[0], c._params['file']) and same(args[1], sd))
    return z3.And(z3.BoolVal(bool(ok)), src.z == item.z)      # input i-1, in order, to this file, for this definition


def write_def_post(c):
    t = [e for e in c.trace if e[0] in ('write', 'virtual', 'input-spec', 'loop-head')]
    heads = [i for i, e in enumerate(t) if e[0] == 'loop-head']
    if not heads:
        return z3.BoolVal(False)
    before, after = t[:heads[0]], [e for e in t[heads[-1] + 1:]]
    writes = [e for e in before if e[0] == 'write']
    if [e[1] for e in writes] != ['pascal_str', 'i8', 'i32', 'i32', 'i16']:      # the header fields, in file order
        return z3.BoolVal(False)
    f = c._params['file']
    files_ok = all(same(e[2], f) for e in writes)

    def result_of(name, v):
        """v is what a call of that virtual method returned (whenever it was made)"""
        return any(e[0] == 'virtual' and e[1] == name and same(e[2], v) for e in before)
    vals_ok = (result_of('name', writes[0][3]) and result_of('_rate_number', writes[1][3])
               and result_of('_num_inputs', writes[2][3]) and result_of('_num_outputs', writes[3][3]))
    spidx = writes[4][3]
    after = [e for e in after if e[0] in ('write', 'input-spec') or (e[0] == 'virtual' and e[1] == '_write_output_specs')]
    outs_ok = (len(after) == 1 and after[0][0] == 'virtual' and after[0][1] == '_write_output_specs'
               and len(after[0][3]) == 1 and same(after[0][3][0], f))
    return z3.And(z3.BoolVal(bool(files_ok and vals_ok and outs_ok)),
                  spidx.z == c.pre.self._special_index)


VIRT = {'SynthObject.name': virtual('name', 'str'), 'SynthObject._rate_number': virtual('_rate_number', 'int'),
        'SynthObject._num_inputs': virtual('_num_inputs', 'int'), 'SynthObject._num_outputs': virtual('_num_outputs', 'int'),
        'SynthObject._write_output_specs': virtual('_write_output_specs', 'none'),
        G + '::ugen_param': ugen_param}

contract(F, 'SynthObject._write_def', props=('C02',),
         params={'self': 'self', 'file': 'obj'},
         raises={'Exception': None},
         ensures=[('name,rate,counts,special-index,then-one-spec-per-input-in-order,then-output-specs',
                   write_def_post)],
         loops={0: Loop(inv=per_input)},
         fields={'SynthObject': UG}, hooks={'getattr': h_getattr}, class_modules={'SynthObject': F},
         policies=dict(WRITERS, **VIRT), native=False)


# ---- base implementations of the virtual methods ---------------------------------------
def two_i32(first, second):
    def post(c):
        w = [e for e in c.trace if e[0] == 'write']
        if [e[1] for e in w] != ['i32', 'i32'] or not all(same(e[2], c._params['file']) for e in w):
            return z3.BoolVal(False)
        return z3.And(w[0][3].z == first(c), w[1][3].z == second(c))
    return post


contract(F, 'SynthObject._write_input_spec', props=('C02',),
         params={'self': 'self', 'file': 'obj', 'synthdef': 'obj'},
         ensures=[('unit-index-then-output-index', two_i32(lambda c: c.pre.self._synth_index,
                                                           lambda c: c.pre.self._output_index))],
         fields={'SynthObject': UG}, class_modules={'SynthObject': F}, policies=WRITERS, native=False)

for rate, num in (('audio', 2), ('control', 1), ('demand', 3), ('scalar', 0), (None, 0)):
    contract(F, 'SynthObject._rate_number', props=('C02',), params={'self': 'self'},
             ensures=[('rate-number', lambda c, _n=num: c.result == _n)],
             fields={'SynthObject': dict(UG, rate=('const:%r' % rate if rate is not None else 'none'))},
             class_modules={'SynthObject': F}, native=False)
    from vf.pyvc.spec import REGISTRY
    key = '%s::SynthObject._rate_number#%s' % (F, rate)
    REGISTRY[key] = REGISTRY.pop('%s::SynthObject._rate_number' % F)
    REGISTRY[key].key = key


def one_i8_rate(c):
    w = [e for e in c.trace if e[0] in ('write', 'virtual')]
    return z3.BoolVal(len(w) == 2 and w[0][:2] == ('virtual', '_rate_number') and w[1][:2] == ('write', 'i8')
                      and same(w[1][2], c._params['file']) and same(w[1][3], w[0][2]))


contract(F, 'SynthObject._write_output_spec', props=('C02',), params={'self': 'self', 'file': 'obj'},
         ensures=[('one-byte:the-rate-number', one_i8_rate)],
         fields={'SynthObject': UG}, class_modules={'SynthObject': F},
         policies=dict(WRITERS, **{'SynthObject._rate_number': virtual('_rate_number', 'int')}), native=False)


def single_output(c):
    v = [e for e in c.trace if e[0] in ('write', 'virtual')]
    return z3.BoolVal(len(v) == 1 and v[0][:2] == ('virtual', '_write_output_spec')
                      and len(v[0][3]) == 1 and same(v[0][3][0], c._params['file']))


contract(F, 'SynthObject._write_output_specs', props=('C02',), params={'self': 'self', 'file': 'obj'},
         ensures=[('exactly-one-output-spec', single_output)],
         fields={'SynthObject': UG}, class_modules={'SynthObject': F},
         policies=dict(WRITERS, **{'SynthObject._write_output_spec': virtual('_write_output_spec', 'none')}),
         native=False)


# MultiOutUGen: one output spec per channel, in order
def h_channel_getattr(eng, obj, name, st, node):
    if obj.k == 'any' and name == '_write_output_spec':
        def spec(eng, args, kwargs, st, node, _o=obj):
            st.trace.append(('output-spec', _o, tuple(args)))
            return [(st, NONE)]
        return [(st, V('func', py=('spec', spec)))]
    return None


def per_channel(c, L):
    ev = since_head(c.trace)
    if not ev:
        return z3.BoolVal(True)
    specs = [e for e in ev if e[0] == 'output-spec']
    if len(specs) != 1 or any(e[0] in ('write', 'virtual') for e in ev):
        return z3.BoolVal(False)
    ch = c.pre.self.v('_channels').extra['get'](c._eng, L.i - 1, c.st)
    ok = len(specs[0][2]) == 1 and same(specs[0][2][0], c._params['file'])
    return z3.And(z3.BoolVal(bool(ok)), specs[0][1].z == ch.z)


contract(F, 'MultiOutUGen._write_output_specs', props=('C02',), params={'self': 'self', 'file': 'obj'},
         ensures=[('nothing-but-the-channel-specs',
                   lambda c: z3.BoolVal(not [e for e in c.trace if e[0] in ('write', 'virtual')]))],
         loops={0: Loop(inv=per_channel)},
         fields={'MultiOutUGen': UG}, hooks={'getattr': h_channel_getattr},
         class_modules={'MultiOutUGen': F}, policies=WRITERS, native=False)


# OutputProxy: wire coordinates = (index of the source unit, own channel number)
contract(F, 'OutputProxy._init_ugen', props=('C02',),
         params={'self': 'self', 'source_ugen': 'ref:UGen', 'index': 'int'},
         ensures=[('wire=(source-unit-index,channel)', lambda c: z3.And(
             c.post.self._output_index == c.index,
             c.post.self._synth_index == c.pre.source_ugen._synth_index)),
             ('remembers-its-source-unit', lambda c: z3.BoolVal(
                 c.post.self.v('source_ugen') is c._params['source_ugen']
                 or (c.post.self.v('source_ugen').k == 'ref' and c.post.self.v('source_ugen').oid == 'source_ugen'))),
             ('returns-itself', lambda c: z3.BoolVal(c.resultv.k == 'ref' and c.resultv.oid == 'self'))],
         modifies=[('self', 'source_ugen'), ('self', '_output_index'), ('self', '_synth_index')],
         fields={'OutputProxy': dict(UG, source_ugen='obj'), 'UGen': UG},
         class_modules={'OutputProxy': F, 'UGen': F}, native=False)


# ---- constants and sequences as inputs ---------------------------------------------------
CONST_INDEX = z3.Function('constant_slot', z3.RealSort(), z3.IntSort())
HAS_CONST = z3.Function('constant_known', z3.RealSort(), z3.BoolSort())


def h_const_getattr(eng, obj, name, st, node):
    if obj.k == 'obj' and obj.oid == 'synthdef' and name == '_constants':
        return [(st, V('obj', oid='constants'))]
    return None


def h_const_getitem(eng, obj, idx, st, node):
    if obj.k == 'obj' and obj.oid == 'constants':
        key = to_real(idx)
        outs = []
        for st1, ok in eng.branch(st, HAS_CONST(key), node):
            if ok:
                outs.append((st1, vint(CONST_INDEX(key))))
            else:
                outs.append((st1, Raised(eng.make_exc('KeyError', node=node))))
        return outs
    return None


def const_post(c):
    w = [e for e in c.trace if e[0] == 'write']
    if [e[1] for e in w] != ['i32', 'i32'] or not all(same(e[2], c._params['file']) for e in w):
        return z3.BoolVal(False)
    v = c.pre.self._param_value
    v = z3.ToReal(v) if z3.is_int(v) else v
    return z3.And(HAS_CONST(v), w[0][3].z == -1, w[1][3].z == CONST_INDEX(v))     # (-1, slot of float(value))


for vk in ('int', 'real'):
    contract(G, 'UGenScalar._write_input_spec', props=('C02',),
             params={'self': 'self', 'file': 'obj', 'synthdef': 'obj'},
             raises={'Exception': lambda c: z3.Not(HAS_CONST(z3.ToReal(c.pre.self._param_value)
                                                             if z3.is_int(c.pre.self._param_value)
                                                             else c.pre.self._param_value))},
             ensures=[('minus-one-then-the-slot-of-the-constant', const_post)],
             on_raise=[('nothing-written', lambda c: z3.BoolVal(not [e for e in c.trace if e[0] == 'write']))],
             fields={'UGenScalar': {'_param_value': vk}},
             hooks={'getattr': h_const_getattr, 'getitem': h_const_getitem},
             class_modules={'UGenScalar': G}, policies=WRITERS, native=False)
    from vf.pyvc.spec import REGISTRY
    key = '%s::UGenScalar._write_input_spec#%s' % (G, vk)
    REGISTRY[key] = REGISTRY.pop('%s::UGenScalar._write_input_spec' % G)
    REGISTRY[key].key = key


def per_item(c, L):
    ev = since_head(c.trace)
    if not ev:
        return z3.BoolVal(True)
    specs = [e for e in ev if e[0] == 'input-spec']
    if len(specs) != 1 or any(e[0] in ('write', 'virtual') for e in ev):
        return z3.BoolVal(False)
    item = c.pre.self.v('_param_value').extra['get'](c._eng, L.i - 1, c.st)
    args = specs[0][2]
    ok = len(args) == 2 and same(args[0], c._params['file']) and same(args[1], c._params['synthdef'])
    return z3.And(z3.BoolVal(bool(ok)), specs[0][1].z == item.z)


contract(G, 'UGenSequence._write_input_spec', props=('C02',),
         params={'self': 'self', 'file': 'obj', 'synthdef': 'obj'},
         ensures=[('nothing-but-the-item-specs',
                   lambda c: z3.BoolVal(not [e for e in c.trace if e[0] in ('write', 'virtual')]))],
         loops={0: Loop(inv=per_item)},
         fields={'UGenSequence': {'_param_value': inputs_kind}}, hooks={'getattr': h_getattr},
         class_modules={'UGenSequence': G}, policies=dict(WRITERS, **{G + '::ugen_param': ugen_param}),
         native=False)


# ---- the file header ---------------------------------------------------------------------
FS = 'sc3/synth/synthdef.py'


def h_list_getattr(eng, obj, name, st, node):
    if obj.k == 'obj' and obj.oid == 'file' and name == 'write':
        def raw(eng, args, kwargs, st, node, _o=obj):
            st.trace.append(('write', 'raw', _o, args[0]))
            return [(st, NONE)]
        return [(st, V('func', py=('spec', raw)))]
    if obj.k == 'any' and name == '_write_def':
        def wd(eng, args, kwargs, st, node, _o=obj):
            st.trace.append(('def', _o, tuple(args)))
            return [(st, NONE)]
        return [(st, V('func', py=('spec', wd)))]
    return None


def per_def(c, L):
    ev = since_head(c.trace)
    if not ev:
        return z3.BoolVal(True)
    defs = [e for e in ev if e[0] == 'def']
    if len(defs) != 1 or any(e[0] == 'write' for e in ev):
        return z3.BoolVal(False)
    item = c._params['lst'].extra['get'](c._eng, L.i - 1, c.st)
    ok = len(defs[0][2]) == 1 and same(defs[0][2][0], c._params['file'])
    return z3.And(z3.BoolVal(bool(ok)), defs[0][1].z == item.z)


def header_post(c):
    w = [e for e in c.trace if e[0] == 'write']
    if [e[1] for e in w] != ['raw', 'i32', 'i16'] or not all(same(e[2], c._params['file']) for e in w):
        return z3.BoolVal(False)
    magic = w[0][3]
    return z3.And(z3.BoolVal(magic.k == 'bytes' and magic.py == b'SCgf'),
                  w[1][3].z == 2, w[2][3].z == c._params['lst'].extra['len'])


contract(FS, 'SynthDef._write_def_list', props=('C02',),
         params={'lst': inputs_kind, 'file': 'obj'},
         ensures=[('magic,version-2,definition-count', header_post)],
         loops={0: Loop(inv=per_def)},
         hooks={'getattr': h_list_getattr}, class_modules={'SynthDef': FS}, policies=WRITERS, native=False)
