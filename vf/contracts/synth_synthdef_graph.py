"""Contracts for the unit table of a definition under construction (C02, C01):
sc3/synth/synthdef.py SynthDef._add_ugen / _remove_ugen / _index_ugens / _add_constant /
_check_inputs.

  _add_ugen(u)       outside a rewrite: u gets index = number of units so far, a COPY of the
                     width-first list as its ordering antecedents, and is appended; during a
                     rewrite nothing at all happens
  _remove_ugen(u)    exactly the slot at u's own index is cleared (lazy removal)
  _index_ugens()     unit at position i gets index i, for every i (loop invariant)
  _add_constant(v)   a new value gets the next free slot (= number of constants so far) and is
                     recorded; a known value changes nothing - so slots are never reassigned and
                     distinct values have distinct slots (lemma)
  _check_inputs()    every unit is asked; the first complaint (in table order) is raised as
                     ValueError prefixed with that unit's name; no complaint: returns True

The table is a sequence of symbolic length; stores into it are ghost events.
"""
import z3
from vf.pyvc.spec import contract, lemma, Loop
from vf.pyvc.values import *
from vf.pyvc import values as VV
from vf.pyvc.engine import Raised, Unsupported

F = 'sc3/synth/synthdef.py'
CH = z3.Array('children.items', z3.IntSort(), VV.Any)


def children_kind(eng, name):
    n = z3.Int('children.len')
    return V('seq', extra={'len': n, 'facts': [n >= 0], 'table': True,
                           'get': (lambda eng_, i, st_: V('any', z3.Select(CH, i)))})


def wf_kind(eng, name):
    n = z3.Int('width_first.len')
    return V('seq', extra={'len': n, 'facts': [n >= 0], 'wf': True,
                           'get': (lambda eng_, i, st_: V('any', z3.Select(z3.Array('wf.items', z3.IntSort(), VV.Any), i)))})


def h_getattr(eng, obj, name, st, node):
    if obj.k == 'seq' and obj.extra.get('table') and name == 'append':
        def app(eng, args, kwargs, st, node, _o=obj):
            st.trace.append(('append', args[0]))
            # the table is one longer afterwards
            st.objs.setdefault('self', {})['_children'] = V('seq', extra=dict(_o.extra, len=_o.extra['len'] + 1))
            return [(st, NONE)]
        return [(st, V('func', py=('spec', app)))]
    return None


def h_setitem(eng, obj, idx, v, st, node):
    if obj.k == 'seq' and obj.extra.get('table'):
        st.trace.append(('store', idx, v))
        return [('next', st)]
    return None


def h_setattr(eng, obj, name, v, st, node):
    if obj.k == 'any' and name == '_synth_index':
        st.trace.append(('index', obj, v))
        return [('next', st)]
    return None


UGEN = {'_synth_index': 'int', '_width_first_antecedents': 'any'}
SD = {'_children': children_kind, '_rewrite_in_progress': 'bool', '_width_first_ugens': wf_kind}


def add_post(c):
    ev = [e for e in c.trace if e[0] in ('append', 'store')]
    u = c.post.ugen
    if not ev:
        # during a rewrite: the unit is not registered and not touched
        return z3.And(c.pre.self._rewrite_in_progress, z3.BoolVal(not c.st.ghost.get('written')))
    wfa = c.post.ugen.v('_width_first_antecedents')
    src = wfa.extra.get('copy_of') or (wfa.extra.get('slice_of') or (None,))[0] if wfa.k == 'seq' else None
    is_copy = src is not None and src.get('wf')
    return z3.And(z3.Not(c.pre.self._rewrite_in_progress),
                  z3.BoolVal(len(ev) == 1 and ev[0][0] == 'append' and ev[0][1].k == 'ref' and ev[0][1].oid == 'ugen'),
                  u._synth_index == z3.Int('children.len'),          # index = position it is appended at
                  z3.BoolVal(bool(is_copy)))                          # its own copy of the ordering constraints


contract(F, 'SynthDef._add_ugen', props=('C02', 'C01'), params={'self': 'self', 'ugen': 'ref:UGen'},
         ensures=[('registered-at-the-end-with-that-index,or-ignored-during-a-rewrite', add_post)],
         modifies=[('ugen', '_synth_index'), ('ugen', '_width_first_antecedents')],
         fields={'SynthDef': SD, 'UGen': UGEN}, hooks={'getattr': h_getattr, 'setitem': h_setitem},
         class_modules={'SynthDef': F, 'UGen': 'sc3/synth/ugen.py'}, native=False)


def remove_post(c):
    ev = [e for e in c.trace if e[0] in ('append', 'store')]
    if len(ev) != 1 or ev[0][0] != 'store' or ev[0][1].k != 'int':
        return z3.BoolVal(False)
    return z3.And(ev[0][1].z == c.pre.ugen._synth_index, z3.BoolVal(ev[0][2].k == 'none'))


contract(F, 'SynthDef._remove_ugen', props=('C02', 'C01'), params={'self': 'self', 'ugen': 'ref:UGen'},
         ensures=[('clears-exactly-the-slot-at-the-units-own-index', remove_post)],
         modifies=[], fields={'SynthDef': SD, 'UGen': UGEN}, hooks={'getattr': h_getattr, 'setitem': h_setitem},
         class_modules={'SynthDef': F, 'UGen': 'sc3/synth/ugen.py'}, native=False)


def since_head(trace):
    idx = -1
    for i, e in enumerate(trace):
        if e[0] == 'loop-head':
            idx = i
    return trace[idx + 1:] if idx >= 0 else None


def index_pass(c, L):
    ev = since_head(c.trace)
    if not ev:
        return z3.BoolVal(True)
    ev = [e for e in ev if e[0] in ('index', 'store', 'append')]
    if len(ev) != 1 or ev[0][0] != 'index' or ev[0][2].k != 'int':
        return z3.BoolVal(False)
    pos = L.i - 1
    return z3.And(ev[0][1].z == z3.Select(CH, pos), ev[0][2].z == pos)      # the unit at position i gets index i


def all_children_enumerated(c, sq, k, elem):
    # the loop runs over ALL units of the table, pass k with (k, unit k)
    ok = elem.k == 'tuple' and len(elem.items) == 2 and elem.items[0].k == 'int' and elem.items[1].k == 'any'
    if not ok:
        return z3.BoolVal(False), z3.BoolVal(False)
    return (sq.extra['len'] == z3.Int('children.len'),
            z3.And(elem.items[0].z == k, elem.items[1].z == z3.Select(CH, k)))


contract(F, 'SynthDef._index_ugens', props=('C02', 'C01'), params={'self': 'self'},
         ensures=[('nothing-but-index-assignments',
                   lambda c: z3.BoolVal(not [e for e in c.trace if e[0] in ('store', 'append')]))],
         loops={0: Loop(inv=index_pass, over=all_children_enumerated, kinds={'i': 'int', 'ugen': 'any'})},
         fields={'SynthDef': SD}, hooks={'getattr': h_getattr, 'setitem': h_setitem, 'setattr': h_setattr},
         class_modules={'SynthDef': F}, native=False)


# ---- constants ------------------------------------------------------------------------------------
KNOWN = z3.Function('constant_known', z3.RealSort(), z3.BoolSort())


def c_contains(eng, container, item, st, node):
    if container.k == 'obj' and container.oid == 'self._constant_set':
        return KNOWN(to_real(item))
    return None


def c_getattr(eng, obj, name, st, node):
    if obj.k == 'obj' and obj.oid == 'self._constant_set' and name == 'add':
        def add(eng, args, kwargs, st, node):
            st.trace.append(('set-add', args[0]))
            return [(st, NONE)]
        return [(st, V('func', py=('spec', add)))]
    return None


def c_len(eng, v, st, node):
    if v.k == 'obj' and v.oid == 'self._constants':
        n = z3.Int('constants.len')
        st.pc.append(n >= 0)
        return [(st, vint(n))]
    return None


def c_setitem(eng, obj, idx, v, st, node):
    if obj.k == 'obj' and obj.oid == 'self._constants':
        st.trace.append(('slot', idx, v))
        return [('next', st)]
    return None


def const_post(c):
    ev = [e for e in c.trace if e[0] in ('set-add', 'slot')]
    x = c.value
    x = z3.ToReal(x) if z3.is_int(x) else x
    if not ev:
        return KNOWN(x)                                         # a known value: nothing changes
    ok = [e[0] for e in ev] == ['set-add', 'slot'] and ev[0][1] is c._params['value'] \
        and ev[1][1] is c._params['value'] and ev[1][2].k == 'int'
    if not ok:
        return z3.BoolVal(False)
    return z3.And(z3.Not(KNOWN(x)), ev[1][2].z == z3.Int('constants.len'))     # next free slot


contract(F, 'SynthDef._add_constant', props=('C02',), params={'self': 'self', 'value': ['int', 'real']},
         ensures=[('new-value-gets-the-next-free-slot;known-value-changes-nothing', const_post)],
         modifies=[], fields={'SynthDef': {'_constant_set': 'obj', '_constants': 'obj'}},
         hooks={'contains': c_contains, 'getattr': c_getattr, 'len': c_len, 'setitem': c_setitem},
         class_modules={'SynthDef': F}, native=False)


def _slots_distinct():
    """three values added in turn (each new): slots n, n+1, n+2 - pairwise distinct and below the
    final count; a value added again keeps its slot (nothing changes)"""
    n, s1, s2, s3 = z3.Ints('Ln Ls1 Ls2 Ls3')
    a = [n >= 0, s1 == n, s2 == n + 1, s3 == n + 2]
    return a, z3.And(s1 != s2, s2 != s3, s1 != s3, s1 < n + 3, s2 < n + 3, s3 < n + 3, s1 >= 0)


lemma('constant-slots-distinct-and-inside-the-table', props=('C02',), over=(F + '::SynthDef._add_constant',),
      vcs=[('three-new-values', _slots_distinct)],
      note='by the contract each new value takes slot = count so far and the count grows by one')


# ---- _replace_ugen(a, b): b takes a's place in the table and in every unit's inputs -----------------
# Inputs of a unit are an array-backed sequence; `aux[i] = b` is an array store.  Inner loop invariant
# (over the positions of ONE unit's inputs): positions already visited hold b wherever they held a and
# are otherwise unchanged, positions not yet visited are unchanged.  Outer loop: per table entry, None
# entries are skipped, every other unit ends with all its inputs rewired.
import ast as _ast
A_ID = z3.Const('a#id', VV.Any)
B_ID = z3.Const('b#id', VV.Any)


def arr_seq(arr, n, **extra):
    return V('seq', extra=dict(extra, len=n, arr=arr,
                               get=(lambda eng_, i, st_, _a=arr: V('any', z3.Select(_a, i)))))


def item_inputs_kind(eng, name):
    return arr_seq(z3.Array(name, z3.IntSort(), VV.Any), z3.Int(name.split('@')[0] + '.len'))


def table_kind(eng, name):
    n = z3.Int('children.len')

    def get(eng_, i, st_):
        tag = str(z3.simplify(i)).replace(' ', '')
        return V('ref', cls='SynthObject', oid='item[%s]' % tag,
                 extra={'maybe_none': z3.Bool('is_none(item[%s])' % tag), 'tag': tag})
    return V('seq', extra={'len': n, 'facts': [n >= 0], 'table': True, 'get': get})


def ru_compare(eng, op, a, b, st, node):
    if isinstance(op, (_ast.Is, _ast.IsNot)):
        r = None
        for p, q in ((a, b), (b, a)):
            if p.k == 'ref' and p.extra and 'maybe_none' in p.extra and q.k == 'none':
                r = p.extra['maybe_none']
            elif p.k == 'any' and q.k == 'ref' and q.oid == 'a':
                r = p.z == A_ID
        if r is not None:
            return z3.Not(r) if isinstance(op, _ast.IsNot) else r
    return None


def ru_setitem(eng, obj, idx, v, st, node):
    if obj.k == 'seq' and obj.extra.get('table'):
        st.trace.append(('store', idx, v))
        return [('next', st)]
    if obj.k == 'seq' and 'arr' in obj.extra and idx.k == 'int':
        val = B_ID if (v.k == 'ref' and v.oid == 'b') else (v.z if v.k == 'any' else None)
        if val is None:
            raise Unsupported(node, 'store of %r' % (v,))
        new = arr_seq(z3.Store(obj.extra['arr'], idx.z, val), obj.extra['len'])
        for k_, v_ in list(st.env.items()):
            if v_ is obj:
                st.env[k_] = new
        return [('next', st)]
    return None


def ru_isinstance_b(eng, name):
    return None


def rewired(cur, old, upto, n):
    k = z3.Int('k')
    return z3.ForAll([k], z3.Implies(z3.And(k >= 0, k < n),
                                     z3.Select(cur, k) == z3.If(z3.And(k < upto, z3.Select(old, k) == A_ID),
                                                                B_ID, z3.Select(old, k))))


def inner_inv(c, L):
    item = c.st.env['item']
    cur = c.post.__getattr__('item').v('_inputs') if False else c.st.objs.get(item.oid, {}).get('_inputs')
    old = c.st.ghost.get('inputs_at_inner_entry')
    if cur is None or old is None or 'arr' not in cur.extra:
        return z3.BoolVal(False)
    return z3.And(cur.extra['len'] == old.extra['len'], L.i >= 0,
                  rewired(cur.extra['arr'], old.extra['arr'], L.i, old.extra['len']))


def remember_inner(eng, st):
    pass


def outer_inv(c, L):
    return z3.BoolVal(True)


def ru_header(c):
    stores = [e for e in c.trace if e[0] == 'store']
    b, a = c.post.b, c.pre.a
    ok = len(stores) == 1 and stores[0][1].k == 'int' and stores[0][2].k == 'ref' and stores[0][2].oid == 'b'
    if not ok:
        return z3.BoolVal(False)
    return z3.And(stores[0][1].z == a._synth_index,                       # b stands where a stood in the table
                  b._synth_index == a._synth_index,
                  z3.BoolVal(c.post.b.v('_descendants') is c.pre.a.v('_descendants') or
                             (c.post.b.v('_descendants').k == 'any' and
                              z3.eq(c.post.b.v('_descendants').z, z3.Const('a._descendants', VV.Any)))),
                  z3.BoolVal(c.post.b.v('_width_first_antecedents').k == 'any' and
                             z3.eq(c.post.b.v('_width_first_antecedents').z, z3.Const('a._width_first_antecedents', VV.Any))))


UG2 = {'_synth_index': 'int', '_width_first_antecedents': 'any', '_descendants': 'any', '_inputs': item_inputs_kind}


class _InnerLoop(Loop):
    """the enumerate() of the inner loop captures the unit's inputs as they are at its entry"""

    def run(self, eng, s, st, ordinal):
        item = st.env.get('item')
        cur = st.objs.get(item.oid, {}).get('_inputs') if item is not None else None
        if cur is None and item is not None:
            cur = eng.field_sym(item.oid, item.cls, '_inputs', s)
            st.objs.setdefault(item.oid, {})['_inputs'] = cur
        st.ghost = dict(st.ghost)
        st.ghost['inputs_at_inner_entry'] = cur
        return super().run(eng, s, st, ordinal)


def since_outer(trace):
    idx = -1
    for i, e in enumerate(trace):
        if e[0] == 'loop-head' and e[1] == 0:
            idx = i
    return trace[idx + 1:] if idx >= 0 else None


def per_item(c, L):
    ev = since_outer(c.trace)
    if ev is None:
        return z3.BoolVal(True)
    if [e for e in c.trace[len(c.trace) - len(ev):] if e[0] == 'store']:
        return z3.BoolVal(False)                                              # no table store inside the loop
    if not [e for e in ev if e[0] == 'loop-head' and e[1] == 1]:
        # inner loop not entered on this pass: only for a None entry (or at the head itself)
        return z3.BoolVal(True)
    # the unit handled in this pass ends with ALL its inputs rewired - however the inner loop was left
    item = c.st.env.get('item')
    old = c.st.ghost.get('inputs_at_inner_entry')
    cur = c.st.objs.get(item.oid, {}).get('_inputs') if item is not None and item.k == 'ref' else None
    if cur is None or old is None or 'arr' not in cur.extra or 'arr' not in old.extra:
        return z3.BoolVal(False)
    n = old.extra['len']
    return z3.And(cur.extra['len'] == n, rewired(cur.extra['arr'], old.extra['arr'], n, n))


def ru_post(c):
    return ru_header(c)


def whole_table(c, sq, k, elem):
    # EVERY table entry is visited: the k-th unit iterated is the k-th entry of the table
    ok = elem.k == 'ref' and elem.extra and elem.extra.get('tag') == str(z3.simplify(k)).replace(' ', '')
    return sq.extra['len'] == z3.Int('children.len'), z3.BoolVal(bool(ok))


contract(F, 'SynthDef._replace_ugen', props=('C01', 'C02'),
         params={'self': 'self', 'a': 'ref:SynthObject', 'b': 'ref:SynthObject'},
         raises={'Exception': lambda c: z3.BoolVal(False)},
         ensures=[('b-takes-the-table-slot,index,readers-and-ordering-constraints-of-a', ru_post)],
         loops={0: Loop(inv=per_item, over=whole_table,
                        kinds={'item': (lambda eng, n: V('obj', oid='havoc')), 'i': 'int',
                               'input': 'any', 'aux': (lambda eng, n: V('obj', oid='havoc'))}),
                1: _InnerLoop(inv=inner_inv, kinds={'i': 'int', 'input': 'any',
                                                    'aux': (lambda eng, n: V('obj', oid='havoc'))},
                              havoc_fields=[('item', '_inputs')])},
         inline=('SynthObject.inputs',),
         fields={'SynthDef': {'_children': table_kind}, 'SynthObject': UG2},
         hooks={'compare': ru_compare, 'setitem': ru_setitem},
         class_modules={'SynthDef': F, 'SynthObject': 'sc3/synth/ugen.py'}, native=False,
         note='b is a SynthObject (the refusal of anything else is not exercised); units and inputs are compared '
              'by identity with a (ghost identity constants)')
