"""Per-property registry: which sidecar contract modules are proved (A), which
bounded drivers run (B), what is assumed and what stays unreached."""

FLOATS = ('Python float is treated as a mathematical real in every proved '
          'obligation (no rounding, no NaN/inf unless the code names it)')

PROPS = {}

PROPS['C15'] = dict(
    level='other',
    contracts=['base_builtins'],
    drivers=[],
    assumptions=[FLOATS],
    trusted_base=[],
    unreached=[],
    explanation='',
)

PROPS['C12'] = dict(
    level='proof',
    contracts=['base_clock'],
    drivers=[],
    assumptions=[FLOATS],
    trusted_base=[],
    unreached=[],
    explanation='',
)

PROPS['C16'] = dict(
    level='other',
    contracts=['synth_engine'],
    drivers=[],
    assumptions=[FLOATS],
    trusted_base=[],
    unreached=[],
    explanation='',
)

PROPS['C07'] = dict(
    level='other',
    contracts=['base_oscinterface'],
    drivers=[],
    assumptions=[FLOATS],
    trusted_base=[],
    unreached=[],
    explanation='',
)

PROPS['C06'] = dict(
    level='other',
    contracts=['base_osclib'],
    drivers=[],
    assumptions=[FLOATS],
    trusted_base=[],
    unreached=[],
    explanation='',
)

PROPS['C01'] = dict(
    level='other',
    contracts=['synth_specialindex'],
    drivers=[],
    assumptions=[FLOATS],
    trusted_base=[],
    unreached=[],
    explanation='',
)

PROPS['C19'] = dict(
    level='other',
    contracts=['synth_envelope'],
    drivers=[],
    assumptions=[FLOATS],
    trusted_base=[],
    unreached=[],
    explanation='',
)
