"""Contracts for the dispatch of the scbuiltin wrappers in sc3/base/builtins.py
(C15 lifting): a composing left operand composes with the WRAPPER as selector
(so that list operands keep being dispatched), else a composing right operand
composes reflected, else the numeric kernel is applied."""
import z3
from vf.pyvc.spec import contract
from vf.pyvc.values import *

F = 'sc3/base/builtins.py'
HAS = {'_compose_unop': True, '_compose_binop': True, '_rcompose_binop': True, '_compose_narop': True}


def composer(eng, name):
    return V('obj', oid=name, extra={'hasattr': dict(HAS)})


def h_global(eng, name, node, st):
    if name == 'func':
        def kernel(eng, args, kwargs, st, node):
            st.trace.append(('kernel', tuple(args)))
            return [(st, V('obj', oid='kernel-result'))]
        return V('func', py=('spec', kernel))
    if name == 'scbuiltin_':
        return V('obj', oid='wrapper')
    return None


def h_getattr(eng, obj, name, st, node):
    if obj.k == 'obj' and name in HAS:
        def comp(eng, args, kwargs, st, node, _n=name, _o=obj):
            st.trace.append(('compose', _o.oid, _n, tuple(args)))
            return [(st, V('obj', oid='composed'))]
        return [(st, V('func', py=('spec', comp)))]
    return None


HOOKS = {'global': h_global, 'getattr': h_getattr}
NUM = ['int', 'real']


def is_wrapper(v):
    return isinstance(v, V) and v.k == 'obj' and v.oid == 'wrapper'


def same(a, b):
    if a.k != b.k:
        return False
    if a.k == 'obj':
        return a.oid == b.oid
    if a.k in ('int', 'real', 'bool'):
        return a.z.eq(b.z)
    if a.k == 'tuple':
        return len(a.items) == len(b.items) and all(same(x, y) for x, y in zip(a.items, b.items))
    return a is b


def unop_post(c):
    x = c._params['x']
    ev = [e for e in c.trace if e[0] in ('kernel', 'compose')]
    if len(ev) != 1:
        return z3.BoolVal(False)
    e = ev[0]
    if x.k == 'obj':
        return z3.BoolVal(e[0] == 'compose' and e[1] == x.oid and e[2] == '_compose_unop'
                          and len(e[3]) == 1 and is_wrapper(e[3][0]) and c.resultv.oid == 'composed')
    return z3.BoolVal(e[0] == 'kernel' and len(e[1]) == 1 and same(e[1][0], x)
                      and c.resultv.oid == 'kernel-result')


contract(F, 'scbuiltin.unop.scbuiltin_', props=('C15',),
         params={'x': NUM + [composer]},
         ensures=[('composes-with-the-wrapper-else-applies-the-kernel', unop_post)],
         hooks=HOOKS, native=False)


def binop_post(c):
    a, b = c._params['a'], c._params['b']
    ev = [e for e in c.trace if e[0] in ('kernel', 'compose')]
    if len(ev) != 1:
        return z3.BoolVal(False)
    e = ev[0]
    if a.k == 'obj':
        return z3.BoolVal(e[0] == 'compose' and e[1] == a.oid and e[2] == '_compose_binop'
                          and len(e[3]) == 2 and is_wrapper(e[3][0]) and same(e[3][1], b))
    if b.k == 'obj':
        return z3.BoolVal(e[0] == 'compose' and e[1] == b.oid and e[2] == '_rcompose_binop'
                          and len(e[3]) == 2 and is_wrapper(e[3][0]) and same(e[3][1], a))
    return z3.BoolVal(e[0] == 'kernel' and len(e[1]) == 2 and same(e[1][0], a) and same(e[1][1], b))


contract(F, 'scbuiltin.binop.scbuiltin_', props=('C15',),
         params={'a': NUM + [composer], 'b': NUM + [composer]},
         ensures=[('left-composes-else-right-reflects-else-kernel', binop_post)],
         hooks=HOOKS, native=False)


def narop_post(c):
    x = c._params['x']
    rest = c._params['args'].items
    ev = [e for e in c.trace if e[0] in ('kernel', 'compose')]
    if len(ev) != 1:
        return z3.BoolVal(False)
    e = ev[0]
    if x.k == 'obj':
        return z3.BoolVal(e[0] == 'compose' and e[2] == '_compose_narop' and is_wrapper(e[3][0])
                          and len(e[3]) == 1 + len(rest) and all(same(p, q) for p, q in zip(e[3][1:], rest)))
    return z3.BoolVal(e[0] == 'kernel' and len(e[1]) == 1 + len(rest) and same(e[1][0], x)
                      and all(same(p, q) for p, q in zip(e[1][1:], rest)))


def two_args(eng, name):
    return vtuple([vreal(z3.Real(name + '#0')), vint(z3.Int(name + '#1'))])


contract(F, 'scbuiltin.narop.scbuiltin_', props=('C15',),
         params={'x': NUM + [composer], 'args': two_args},
         ensures=[('composes-with-the-wrapper-else-applies-the-kernel', narop_post)],
         hooks=HOOKS, native=False)
