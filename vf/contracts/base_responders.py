"""Contracts for the responder filters and dispatchers (C18: "incoming messages reach exactly the
responders that should fire"): sc3/base/responders.py.

  OscFuncAddrMessageMatcher      fires iff the sender's host equals the expected one and the expected port is
                                 None (any port) or equal
  OscFuncRecvPortMessageMatcher  fires iff the receiving port equals the expected one
  OscFuncBothMessageMatcher      the conjunction of the two
  OscArgsMatcher                 fires iff the message has at least as many arguments as the template and every
                                 template item accepts the argument at its position: None accepts anything, a
                                 callable decides by its truth value, anything else must be equal
  OscMessageDispatcher.wrap_func the filters are stacked: argument template innermost, then the sender/port
                                 filter that corresponds to what the proxy specifies, nothing when it specifies
                                 neither
  OscMessageDispatcher.__call__  every function registered under the message's address is called exactly once,
                                 in order; no other; nobody for an unknown address

"Fires" = exactly one call of fn.value(func, msg, time, addr, recv_port) with the four values unchanged; "does
not fire" = no call at all.  Equality of dynamic values is z3 equality of the abstract values.
"""
import ast
import z3
from vf.pyvc.spec import contract, Loop
from vf.pyvc.values import *
from vf.pyvc import values as VV
from vf.pyvc.engine import Raised, Unsupported

F = 'sc3/base/responders.py'
FN = 'sc3/base/functions.py'


def value_pol(eng, selfv, args, kwargs, st, node):
    st.trace.append(('fire', tuple(args)))
    return [(st, NONE)]


def any_eq(eng, op, a, b, st, node):
    # == / != between two dynamic values: equality of the abstract values
    if isinstance(op, (ast.Eq, ast.NotEq)) and a.k == 'any' and b.k == 'any':
        r = a.z == b.z
        return z3.Not(r) if isinstance(op, ast.NotEq) else r
    return None


def fired(c):
    return [e for e in c.trace if e[0] == 'fire']


def fires_with(c, func_oid):
    f = fired(c)
    if len(f) != 1 or len(f[0][1]) != 5:
        return False
    a = f[0][1]
    return (a[0].k == 'obj' and a[0].oid == func_oid and a[1] is c._params['msg'] and a[2] is c._params['time']
            and a[3] is c._params['addr'] and a[4] is c._params['recv_port'])


def exact(c, cond, func_oid='self.func'):
    """fires exactly once with the unchanged values iff cond, else not at all"""
    f = fired(c)
    if not f:
        return z3.Not(cond)
    return z3.And(cond, z3.BoolVal(bool(fires_with(c, func_oid))))


NA = {'addr': 'any', 'port': 'int'}
PARAMS = {'self': 'self', 'msg': 'obj', 'time': 'any', 'addr': 'ref:Sender', 'recv_port': 'any'}


def host_ok(c, portk):
    same_host = z3.Const('self.addr.addr', VV.Any) == z3.Const('addr.addr', VV.Any)
    if portk == 'none':
        return same_host
    return z3.And(same_host, z3.Int('self.addr.port') == z3.Int('addr.port'))


def port_ok(c):
    return z3.Const('self.recv_port', VV.Any) == c._params['recv_port'].z


from vf.pyvc.spec import REGISTRY
for portk in ('none', 'int'):
    flds = {'Expected': {'addr': 'any', 'port': portk}, 'Sender': NA}
    contract(F, 'OscFuncAddrMessageMatcher.__call__', props=('C18',), params=PARAMS,
             ensures=[('fires-iff-same-host-and-(any-port-or-same-port)',
                       lambda c, _p=portk: exact(c, host_ok(c, _p)))],
             modifies=[], fields=dict(flds, OscFuncAddrMessageMatcher={'addr': 'ref:Expected', 'func': 'obj'}),
             policies={FN + '::value': value_pol}, hooks={'compare': any_eq},
             class_modules={'OscFuncAddrMessageMatcher': F}, native=False)
    key = '%s::OscFuncAddrMessageMatcher.__call__#expected-port-%s' % (F, portk)
    REGISTRY[key] = REGISTRY.pop('%s::OscFuncAddrMessageMatcher.__call__' % F)
    REGISTRY[key].key = key
    contract(F, 'OscFuncBothMessageMatcher.__call__', props=('C18',), params=PARAMS,
             ensures=[('fires-iff-sender-and-receiving-port-both-match',
                       lambda c, _p=portk: exact(c, z3.And(host_ok(c, _p), port_ok(c))))],
             modifies=[], fields=dict(flds, OscFuncBothMessageMatcher={'addr': 'ref:Expected', 'func': 'obj',
                                                                      'recv_port': 'any'}),
             policies={FN + '::value': value_pol}, hooks={'compare': any_eq},
             class_modules={'OscFuncBothMessageMatcher': F}, native=False)
    key = '%s::OscFuncBothMessageMatcher.__call__#expected-port-%s' % (F, portk)
    REGISTRY[key] = REGISTRY.pop('%s::OscFuncBothMessageMatcher.__call__' % F)
    REGISTRY[key].key = key

contract(F, 'OscFuncRecvPortMessageMatcher.__call__', props=('C18',), params=PARAMS,
         ensures=[('fires-iff-the-receiving-port-matches', lambda c: exact(c, port_ok(c)))],
         modifies=[], fields={'OscFuncRecvPortMessageMatcher': {'recv_port': 'any', 'func': 'obj'}, 'Sender': NA},
         policies={FN + '::value': value_pol}, hooks={'compare': any_eq},
         class_modules={'OscFuncRecvPortMessageMatcher': F}, native=False)


# ---- argument templates --------------------------------------------------------------------------------------
TPL = z3.Array('template.items', z3.IntSort(), VV.Any)
ARG = z3.Array('msg.items', z3.IntSort(), VV.Any)
IS_CALLABLE = z3.Function('template_item_is_callable', VV.Any, z3.BoolSort())
ACCEPTS = z3.Function('template_callable_accepts', VV.Any, VV.Any, z3.BoolSort())
NT = z3.Int('template.len')
NM = z3.Int('msg.len')


def tpl_kind(eng, name):
    return V('seq', extra={'len': NT, 'facts': [NT >= 0],
                           'get': (lambda eng_, i, st_: V('any', z3.Select(TPL, i), extra={'tpl': True}))})


def msg_kind(eng, name):
    return V('seq', extra={'len': NM, 'facts': [NM >= 1], 'themsg': True,
                           'get': (lambda eng_, i, st_: V('any', z3.Select(ARG, i)))})


def am_builtin(eng, name, args, kwargs, st, node):
    if name == 'callable' and args and args[0].k == 'any':
        return [(st, vbool(IS_CALLABLE(args[0].z)))]
    return None


def am_call(eng, f, args, kwargs, st, node):
    if f.k == 'any' and len(args) == 1 and args[0].k == 'any':
        st.trace.append(('predicate', f.z, args[0].z))
        return [(st, vbool(ACCEPTS(f.z, args[0].z)))]
    return None


def item_accepts(i):
    t, a = z3.Select(TPL, i), z3.Select(ARG, i + 1)             # args = msg[1:]
    return z3.If(IS_CALLABLE(t), ACCEPTS(t, a), z3.Or(VV.tag_of(t) == TAGS['none'], t == a))


def tpl_inv(c, L):
    k = z3.Int('k')
    return z3.And(NM - 1 >= NT, z3.ForAll([k], z3.Implies(z3.And(k >= 0, k < L.i), item_accepts(k))))


def args_post(c):
    k = z3.Int('k')
    all_ok = z3.And(NM - 1 >= NT, z3.ForAll([k], z3.Implies(z3.And(k >= 0, k < NT), item_accepts(k))))
    f = fired(c)
    if not f:
        if [e for e in c.trace if e[0] == 'loop-head']:
            i = c.st.env['i'].z                                   # the position that refused
            return z3.And(i >= 0, i < NT, z3.Not(item_accepts(i)))
        return NM - 1 < NT                                        # too few arguments
    a = f[0][1]
    ok = (len(f) == 1 and len(a) == 5 and a[0].k == 'obj' and a[0].oid == 'self.func' and a[1] is c._params['msg']
          and a[2] is c._params['time'] and a[3] is c._params['addr'] and a[4] is c._params['recv_port'])
    return z3.And(all_ok, z3.BoolVal(bool(ok)))


contract(F, 'OscArgsMatcher.__call__', props=('C18',),
         params={'self': 'self', 'msg': msg_kind, 'time': 'any', 'addr': 'obj', 'recv_port': 'any'},
         requires=lambda c: z3.And(NM >= 1, NT >= 0),
         ensures=[('fires-iff-enough-arguments-and-every-template-item-accepts', args_post)],
         loops={0: Loop(inv=tpl_inv, kinds={'i': 'int', 'item': 'any'})},
         modifies=[], fields={'OscArgsMatcher': {'arg_template': tpl_kind, 'func': 'obj'}},
         hooks={'builtin_first': am_builtin, 'call': am_call, 'compare': any_eq}, policies={FN + '::value': value_pol},
         class_modules={'OscArgsMatcher': F}, native=False,
         note='equality of a template value and an argument is equality of the abstract values (Python == on '
              'numbers of different types, e.g. 1 == 1.0, is exercised by the bounded driver)')


# ---- the exact-address dispatcher ------------------------------------------------------------------------------
FUNCS = z3.Array('registered.items', z3.IntSort(), VV.Any)
NF = z3.Int('registered.len')
HAS_ADDR = z3.Bool('address_is_registered')


def d_contains(eng, container, item, st, node):
    if container.k == 'obj' and container.oid == 'self.active':
        st.trace.append(('lookup', item))
        return HAS_ADDR
    return None


def d_getitem(eng, obj, idx, st, node):
    if obj.k == 'obj' and obj.oid == 'self.active':
        return [(st, V('seq', extra={'len': NF, 'facts': [NF >= 0], 'registered': True, 'key': idx,
                                     'get': (lambda eng_, i, st_: V('any', z3.Select(FUNCS, i)))}))]
    if obj.k == 'obj' and obj.oid == 'msg' and idx.k == 'int':
        return [(st, V('obj', oid='msg[0]'))]
    return None


def d_value(eng, selfv, args, kwargs, st, node):
    st.trace.append(('fire', tuple(args)))
    return [(st, NONE)]


def d_since(trace):
    idx = -1
    for i, e in enumerate(trace):
        if e[0] == 'loop-head':
            idx = i
    return trace[idx + 1:] if idx >= 0 else None


def d_pass(c, L):
    ev = d_since(c.trace)
    if not ev:
        return z3.BoolVal(True)
    ev = [e for e in ev if e[0] == 'fire']
    if len(ev) != 1 or len(ev[0][1]) != 5 or ev[0][1][0].k != 'any':
        return z3.BoolVal(False)
    a = ev[0][1]
    ok = a[1] is c._params['msg'] and a[2] is c._params['time'] and a[3] is c._params['addr'] and a[4] is c._params['recv_port']
    return z3.And(z3.BoolVal(bool(ok)), a[0].z == z3.Select(FUNCS, L.i - 1))       # function i-1 of the list, once


def d_post(c):
    heads = [e for e in c.trace if e[0] == 'loop-head']
    if not heads:
        return z3.And(z3.Not(HAS_ADDR), z3.BoolVal(not fired(c)))                  # unknown address: nobody fires
    return HAS_ADDR


contract(F, 'OscMessageDispatcher.__call__', props=('C18',),
         params={'self': 'self', 'msg': 'obj', 'time': 'any', 'addr': 'obj', 'recv_port': 'any'},
         ensures=[('only-the-functions-registered-for-this-address', d_post)],
         loops={0: Loop(inv=d_pass, kinds={'func': 'any'})},
         modifies=[], fields={'OscMessageDispatcher': {'active': 'obj'}},
         hooks={'contains': d_contains, 'getitem': d_getitem}, policies={FN + '::value': d_value},
         class_modules={'OscMessageDispatcher': F}, native=False,
         note='that the loop runs over a COPY of the registered list (so that a responder removing itself or others '
              'during delivery does not change who is called) is not visible in this model, where lists are values: '
              'it is checked by the bounded driver (dispatch histories with self-removal)')


# ---- how a proxy's filters are stacked: OscMessageDispatcher.wrap_func ------------------------------------
import itertools as _it


def wf_construct(eng, f, args, kwargs, st, node):
    if f.k == 'class' and f.py in ('OscArgsMatcher', 'OscFuncBothMessageMatcher', 'OscFuncAddrMessageMatcher',
                                   'OscFuncRecvPortMessageMatcher'):
        return [(st, V('obj', oid='new-' + f.py, extra={'cls': f.py, 'args': tuple(args)}))]
    return None


def wf_builtin(eng, name, args, kwargs, st, node):
    # getattr(func_proxy, 'recv_port' | 'arg_template', None)
    if name == 'getattr' and len(args) == 3 and args[0].k == 'ref' and args[1].k == 'str':
        return eng.get_attr(args[0], args[1].py, st, node)
    return None


def wrap_post(src, port, tpl):
    def post(c):
        r = c.resultv
        proxy = c.post.func_proxy

        def is_field(v, name):
            f = c.st.objs.get('func_proxy', {}).get(name)
            return f is not None and v is f
        # innermost: the template filter around the proxy's function, or the function itself
        def inner_ok(v):
            if tpl:
                return (v.k == 'obj' and v.extra and v.extra.get('cls') == 'OscArgsMatcher' and len(v.extra['args']) == 2
                        and is_field(v.extra['args'][0], 'arg_template') and is_field(v.extra['args'][1], 'func'))
            return is_field(v, 'func')
        if src and port:
            ok = (r.k == 'obj' and r.extra and r.extra.get('cls') == 'OscFuncBothMessageMatcher' and len(r.extra['args']) == 3
                  and is_field(r.extra['args'][0], 'src_id') and is_field(r.extra['args'][1], 'recv_port')
                  and inner_ok(r.extra['args'][2]))
        elif src:
            ok = (r.k == 'obj' and r.extra and r.extra.get('cls') == 'OscFuncAddrMessageMatcher' and len(r.extra['args']) == 2
                  and is_field(r.extra['args'][0], 'src_id') and inner_ok(r.extra['args'][1]))
        elif port:
            ok = (r.k == 'obj' and r.extra and r.extra.get('cls') == 'OscFuncRecvPortMessageMatcher' and len(r.extra['args']) == 2
                  and is_field(r.extra['args'][0], 'recv_port') and inner_ok(r.extra['args'][1]))
        else:
            ok = inner_ok(r)
        return z3.BoolVal(bool(ok))
    return post


for src, port, tpl in _it.product((False, True), repeat=3):
    contract(F, 'OscMessageDispatcher.wrap_func', props=('C18',), params={'self': 'self', 'func_proxy': 'ref:Proxy'},
             ensures=[('template-filter-innermost,then-the-sender/port-filter-the-proxy-asks-for', wrap_post(src, port, tpl))],
             modifies=[], fields={'OscMessageDispatcher': {},
                                  'Proxy': {'func': 'obj', 'src_id': 'obj' if src else 'none',
                                            'recv_port': 'obj' if port else 'none',
                                            'arg_template': 'obj' if tpl else 'none'}},
             hooks={'construct': wf_construct, 'builtin_first': wf_builtin},
             class_modules={'OscMessageDispatcher': F, 'Proxy': F}, native=False)
    key = '%s::OscMessageDispatcher.wrap_func#src-%s-port-%s-template-%s' % (F, src, port, tpl)
    REGISTRY[key] = REGISTRY.pop('%s::OscMessageDispatcher.wrap_func' % F)
    REGISTRY[key].key = key


# ---- registry: AbstractWrappingDispatcher.add / remove ---------------------------------------------------
# add(proxy): the proxy's wrapped function (wrap_func, above) is remembered under the proxy and entered under
# the proxy's key - appended to the list that is there, or as a new one-element list - and the dispatcher
# registers itself with the OSC interface iff it was not registered.  remove(proxy): that same wrapped
# function leaves the key's list, the key disappears when its list becomes empty, the proxy's entry is
# deleted, and the dispatcher unregisters iff nothing is active any more.
KEY_KNOWN = z3.Bool('key_is_active')


def reg_getattr(eng, obj, name, st, node):
    if obj.k == 'module' and name == 'NotificationCenter':
        return [(st, V('obj', oid='NotificationCenter'))]
    if obj.k == 'obj' and obj.oid == 'NotificationCenter' and name in ('register', 'unregister'):
        def nc(eng, args, kwargs, st, node, _n=name):
            st.trace.append(('notif-' + _n, tuple(args)))
            return [(st, NONE)]
        return [(st, V('func', py=('spec', nc)))]
    if obj.k == 'obj' and obj.oid == 'active-list' and name in ('append', 'remove'):
        def lst(eng, args, kwargs, st, node, _n=name):
            st.trace.append(('list-' + _n, args[0]))
            return [(st, NONE)]
        return [(st, V('func', py=('spec', lst)))]
    return None


def reg_getitem(eng, obj, idx, st, node):
    if obj.k == 'obj' and obj.oid == 'self.active':
        outs = []
        for st1, known in eng.branch(st, KEY_KNOWN, node):
            if known:
                after = st1.ghost.get('list_after_remove')
                outs.append((st1, V('ref', cls='KeyList', oid='active-list', extra={
                    'truth': z3.Bool('list_nonempty_after') if after else z3.BoolVal(True)})
                    if False else V('obj', oid='active-list')))
            else:
                outs.append((st1, Raised(eng.make_exc('KeyError', node=node))))
        return outs
    if obj.k == 'obj' and obj.oid == 'self.wrapped_funcs':
        return [(st, V('obj', oid='the-wrapped-func'))]
    return None


def reg_setitem(eng, obj, idx, v, st, node):
    if obj.k == 'obj' and obj.oid in ('self.active', 'self.wrapped_funcs'):
        st.trace.append(('store', obj.oid, idx, v))
        return [('next', st)]
    return None


def reg_delitem(eng, obj, idx, st, node):
    if obj.k == 'obj' and obj.oid in ('self.active', 'self.wrapped_funcs'):
        st.trace.append(('delete', obj.oid, idx))
        return [('next', st)]
    return None


def keys_pol(eng, selfv, args, kwargs, st, node):
    return [(st, vlist([V('obj', oid='the-key')]))]


def wrap_pol(eng, selfv, args, kwargs, st, node):
    st.trace.append(('wrap', tuple(args)))
    return [(st, V('obj', oid='the-wrapped-func'))]


def traced_pol(name):
    def pol(eng, selfv, args, kwargs, st, node):
        st.trace.append((name,))
        return [(st, NONE)]
    return pol


def add_post(c):
    t = c.trace
    stores = [e for e in t if e[0] == 'store']
    apps = [e for e in t if e[0] == 'list-append']
    regs = [e for e in t if e[0] == 'register']
    proxy = c._params['func_proxy']
    remembered = [e for e in stores if e[1] == 'self.wrapped_funcs']
    ok = (len(remembered) == 1 and remembered[0][2] is proxy and remembered[0][3].k == 'obj'
          and remembered[0][3].oid == 'the-wrapped-func' and len([e for e in t if e[0] == 'wrap']) == 1)
    if not ok:
        return z3.BoolVal(False)
    new_lists = [e for e in stores if e[1] == 'self.active']
    cl = [z3.BoolVal(len(regs) == 1) == z3.Not(c.pre.self.registered), z3.BoolVal(len(regs) <= 1)]
    if apps:
        ok2 = len(apps) == 1 and not new_lists and apps[0][1].k == 'obj' and apps[0][1].oid == 'the-wrapped-func'
        cl += [KEY_KNOWN, z3.BoolVal(bool(ok2))]
    else:
        ok2 = (len(new_lists) == 1 and new_lists[0][2].k == 'obj' and new_lists[0][2].oid == 'the-key'
               and new_lists[0][3].k == 'list' and new_lists[0][3].items is not None and len(new_lists[0][3].items) == 1
               and new_lists[0][3].items[0].oid == 'the-wrapped-func')
        cl += [z3.Not(KEY_KNOWN), z3.BoolVal(bool(ok2))]
    return z3.And(*cl)


REG_FIELDS = {'AbstractWrappingDispatcher': {'registered': 'bool', 'active': 'obj', 'wrapped_funcs': 'obj'}}
REG_POL = {'AbstractWrappingDispatcher.wrap_func': wrap_pol,
           'AbstractWrappingDispatcher.get_keys_for_func_proxy': keys_pol,
           'AbstractWrappingDispatcher.register': traced_pol('register'),
           'AbstractDispatcher.register': traced_pol('register'),
           'AbstractWrappingDispatcher.unregister': traced_pol('unregister'),
           'AbstractDispatcher.unregister': traced_pol('unregister')}

contract(F, 'AbstractWrappingDispatcher.add', props=('C18',), params={'self': 'self', 'func_proxy': 'obj'},
         ensures=[('wrapped-function-remembered-and-entered-under-the-key;registers-iff-needed', add_post)],
         modifies=[], fields=REG_FIELDS,
         hooks={'getattr': reg_getattr, 'getitem': reg_getitem, 'setitem': reg_setitem},
         policies=REG_POL, class_modules={'AbstractWrappingDispatcher': F}, native=False,
         note='one key per proxy (what both OSC dispatchers return); the registries are dictionaries: ghost events')
