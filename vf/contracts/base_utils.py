"""Contracts for the list helpers of sc3/base/utils.py that carry the
wrap-around law (C03; C19 uses wrap_extend for times and curves)."""
import z3
from vf.pyvc.spec import contract
from vf.pyvc.values import *
from vf.pyvc import values as VV

F = 'sc3/base/utils.py'


def list_kind(eng, name):
    return V('dyn', z3.Const(name, VV.Any), cls='list')


def wrap_extend_post(c):
    r = c.resultv
    lst = c._params['lst'].z
    l = VV.any_len(lst)
    n = c.n
    if r.k == 'list' and r.items == []:
        return z3.Or(l == 0, n <= 0)
    if r.k != 'seq':
        return z3.BoolVal(False)
    i = z3.Int('any_index')          # free: for all positions
    elem = r.extra['get'](c._eng, i, c.st)
    return z3.And(l > 0, n > 0, r.extra['len'] == n,
                  z3.Implies(z3.And(i >= 0, i < n), elem.z == VV.any_item(lst, i % l)))


contract(F, 'wrap_extend', props=('C03', 'C19'),
         params={'lst': list_kind, 'n': 'int'},
         ensures=[('length-n-and-element-i-is-lst[i mod len]', wrap_extend_post)],
         native=False)


def extend_post(c):
    r = c.resultv
    lst = c._params['lst'].z
    l = VV.any_len(lst)
    n = c.n
    if r.k == 'list' and r.items == []:
        return z3.Or(l == 0, n <= 0)
    if r.k != 'seq':
        return z3.BoolVal(False)
    i = z3.Int('any_index')
    elem = r.extra['get'](c._eng, i, c.st)
    item = c._params['item'].z
    return z3.And(l > 0, n > 0, r.extra['len'] == n,
                  z3.Implies(z3.And(i >= 0, i < n), elem.z == z3.If(i < l, VV.any_item(lst, i), item)))


contract(F, 'extend', props=('C03',),
         params={'lst': list_kind, 'n': 'int', 'item': 'any'},
         ensures=[('length-n-padded-with-item', extend_post)],
         native=False)
