"""Graph-function programs as data, for the SynthDef compilation contracts
(C01, C02, C20).

A program is a JSON-able dict

    {'params': [[name, default], ...],      # function parameters -> kr controls
     'nodes':  [node, ...],                 # SSA: operands are indices of earlier nodes
     'outs':   [{'chans': [node index, ...]}, ...]}

node kinds

    ['const', v]                 a Python number (int or float)
    ['ctl', i]                   the i-th function parameter
    ['osc', cls, rate, tag]      a stateful unit, rate 'ar'|'kr'|'ir', tagged by a
                                 unique number: SinOsc.ar(tag, 0), LFNoise0.kr(tag),
                                 Rand(tag, tag+1) ...
    ['add'|'sub'|'mul'|'div', a, b]          a+b, a-b, a*b, a/b
    ['neg', a]                               -a
    ['madd', a, m, d]                        a.madd(m, d)      (a*m+d for a number a)
    ['sum', [a, b, ...]]                     ChannelList([a, b, ...]).sum()
    ['mod'|'pow', a, b], ['abs', a]          a % b, a ** b, abs(a)   (opaque operators)

The same index may be used any number of times (sharing, `x op x`).  Nodes no
output reaches are dead code.  Every entry of 'outs' becomes output unit(s):
`Out.ar(bus, chans)` when every channel is an audio-rate unit (or the number 0,
which Out.ar documents as silence) and at least one is a unit, `Out.kr(bus,
chans)` when no channel is audio rate, otherwise one Out per channel at the
channel's own rate.  Bus numbers are unique per output unit (100+10*i+j), so
each Out can be found again in the emitted definition.

`make_func(prog, log)` turns a program into a Python function for
`SynthDef(name, func)`; `vf.specs.den.den_source(prog)` gives its denotation.
"""
import itertools
from fractions import Fraction

# class -> (is it side-effect free (SuperCollider PureUGen)?, constructor rates)
LEAF_CLASSES = {
    'SinOsc':   {'pure': True,  'rates': ('ar', 'kr')},
    'LFSaw':    {'pure': True,  'rates': ('ar', 'kr')},
    'LFNoise0': {'pure': False, 'rates': ('ar', 'kr')},   # draws from the synth's RNG
    'Rand':     {'pure': False, 'rates': ('ir',)},
}

OPAQUE_BIN = ('mod', 'pow')
OPAQUE_UN = ('abs',)
BIN = ('add', 'sub', 'mul', 'div')

OUT_BUS0 = 100


def leaf_inputs(cls, tag):
    """Constant inputs the tagged leaf is created with (all given explicitly)."""
    if cls in ('SinOsc', 'LFSaw'):
        return (tag, 0)
    if cls == 'LFNoise0':
        return (tag,)
    if cls == 'Rand':
        return (tag, tag + 1)
    raise ValueError(cls)


def operands(nd):
    k = nd[0]
    if k in ('const', 'ctl', 'osc'):
        return []
    if k == 'sum':
        return list(nd[1])
    return list(nd[1:])


def live_nodes(prog):
    """Indices of nodes some output reaches."""
    seen = set()
    stack = [j for o in prog['outs'] for j in o['chans']]
    while stack:
        j = stack.pop()
        if j in seen:
            continue
        seen.add(j)
        stack.extend(operands(prog['nodes'][j]))
    return seen


def _exact_small(v):
    """Is the rational v a dyadic number float32 and float64 hold exactly with
    room to spare (so that Python's own folding of constant sub-expressions and
    the float32 constant table introduce no rounding)?"""
    v = Fraction(v)
    d = v.denominator
    return (d & (d - 1)) == 0 and d <= 1 << 10 and abs(v.numerator) < 1 << 20


def wellformed(prog):
    """(ok, reason).  A program is well formed when every node has a
    denotation over the reals (no division or modulo by an identically zero
    denominator), no opaque operator is applied to constants only (Python would
    evaluate it, it is not part of the graph), every constant sub-expression is
    a small dyadic rational (exact in float32), divisions by a constant use a
    power of two, indices refer to earlier nodes and every output has 1+
    channels."""
    from vf.specs import den
    n = len(prog['nodes'])
    for i, nd in enumerate(prog['nodes']):
        for j in operands(nd):
            if not (0 <= j < i):
                return False, 'node %d refers to %d' % (i, j)
        if nd[0] == 'ctl' and not (0 <= nd[1] < len(prog['params'])):
            return False, 'node %d: no parameter %d' % (i, nd[1])
        if nd[0] == 'sum' and len(nd[1]) < 1:
            return False, 'empty sum'
    if not prog['outs']:
        return False, 'no output'
    for o in prog['outs']:
        if not o['chans']:
            return False, 'output without channels'
        for j in o['chans']:
            if not (0 <= j < n):
                return False, 'output refers to %d' % j
    try:
        vals, _ = den.den_source(prog)
    except den.DenError as e:
        return False, str(e)
    for i, nd in enumerate(prog['nodes']):
        v = vals[i]
        if den.is_const(v) and not _exact_small(den.const_value(v)):
            return False, 'constant node %d = %s not exactly representable' % (
                i, den.const_value(v))
        if nd[0] in ('div', 'mod'):
            b = vals[nd[2]]
            if not b:
                return False, 'division by zero at node %d' % i
            if den.is_const(b):
                c = abs(den.const_value(b))
                if c.numerator != 1 and c.denominator != 1:
                    return False, 'division by non power of two'
                m = c.numerator * c.denominator
                if m & (m - 1):
                    return False, 'division by non power of two'
        if den.size(v) > 400:
            return False, 'normal form too large'
    return True, ''


# ---------------------------------------------------------------------------
# execution against sc3

def install_bytesio_guard():
    """Harness-side memory safety: SynthDef.as_bytes() returns
    `BytesIO().getbuffer()` of a stream that is deallocated on return (CPython
    prints "deallocated BytesIO object has exported buffers" and the view
    dangles; hundreds of thousands of builds per process can end in a crash at
    interpreter exit).  Give the synthdef module a BytesIO whose getbuffer() is
    a view on an independent copy; the bytes are the same."""
    import io
    import types
    from sc3.synth import synthdef as sdf
    if getattr(sdf.io, '_vf_guard', False):
        return

    class _SafeBytesIO(io.BytesIO):
        def getbuffer(self):
            return memoryview(self.getvalue())
    ns = types.SimpleNamespace(**{k: getattr(io, k) for k in dir(io)
                                  if not k.startswith('__')})
    ns.BytesIO = _SafeBytesIO
    ns._vf_guard = True
    sdf.io = ns


def make_func(prog, log=None, at_end=None):
    """Python graph function for SynthDef(name, func).  `log` (a dict) receives
    'outs': [{'out': i, 'rate': 'ar'|'kr', 'bus': b, 'chans': [node indices]}]
    (one entry per Out unit created) and 'vals' (the Python objects the nodes
    evaluated to).  `at_end(vals)` is called last inside the function."""
    names = [p[0] for p in prog['params']]
    src = 'def graph_func(%s):\n    return _run([%s])\n' % (
        ', '.join('%s=%r' % (p[0], p[1]) for p in prog['params']),
        ', '.join(names))

    def _run(ctls):
        return run_nodes(prog, ctls, log, at_end)
    ns = {'_run': _run}
    exec(src, ns)
    return ns['graph_func']


def _is_num(v):
    return isinstance(v, (int, float))


def run_nodes(prog, ctls, log=None, at_end=None):
    from sc3.synth import ugens as ug
    from sc3.synth.ugen import ChannelList
    vals = []
    for nd in prog['nodes']:
        k = nd[0]
        if k == 'const':
            v = nd[1]
        elif k == 'ctl':
            v = ctls[nd[1]]
        elif k == 'osc':
            cls = getattr(ug, nd[1])
            args = leaf_inputs(nd[1], nd[3])
            if nd[2] == 'ir':
                v = cls.new(*args) if hasattr(cls, 'new') else cls.ir(*args)
            else:
                v = getattr(cls, nd[2])(*args)
        elif k == 'add':
            v = vals[nd[1]] + vals[nd[2]]
        elif k == 'sub':
            v = vals[nd[1]] - vals[nd[2]]
        elif k == 'mul':
            v = vals[nd[1]] * vals[nd[2]]
        elif k == 'div':
            v = vals[nd[1]] / vals[nd[2]]
        elif k == 'mod':
            v = vals[nd[1]] % vals[nd[2]]
        elif k == 'pow':
            v = vals[nd[1]] ** vals[nd[2]]
        elif k == 'abs':
            v = abs(vals[nd[1]])
        elif k == 'neg':
            v = -vals[nd[1]]
        elif k == 'madd':
            a, m, d = vals[nd[1]], vals[nd[2]], vals[nd[3]]
            if _is_num(a):
                v = a * m + d
            else:
                v = a.madd(m, d)
        elif k == 'sum':
            v = ChannelList([vals[j] for j in nd[1]]).sum()
        else:
            raise ValueError('unknown node kind %r' % (k,))
        vals.append(v)
    outlog = []
    for oi, o in enumerate(prog['outs']):
        chans = [vals[j] for j in o['chans']]
        bus = OUT_BUS0 + 10 * oi
        is_ar = [(not _is_num(v)) and v.rate == 'audio' for v in chans]
        arable = [a or (_is_num(v) and v == 0) for a, v in zip(is_ar, chans)]
        if all(arable) and any(is_ar):
            ug.Out.ar(bus, chans if len(chans) > 1 else chans[0])
            outlog.append({'out': oi, 'rate': 'ar', 'bus': bus,
                           'chans': list(o['chans'])})
        elif not any(is_ar):
            ug.Out.kr(bus, chans if len(chans) > 1 else chans[0])
            outlog.append({'out': oi, 'rate': 'kr', 'bus': bus,
                           'chans': list(o['chans'])})
        else:
            for j, v in enumerate(chans):
                if is_ar[j]:
                    ug.Out.ar(bus + j, v)
                else:
                    ug.Out.kr(bus + j, v)
                outlog.append({'out': oi, 'rate': 'ar' if is_ar[j] else 'kr',
                               'bus': bus + j, 'chans': [o['chans'][j]]})
    if log is not None:
        log['outs'] = outlog
        log['vals'] = vals
    if at_end is not None:
        at_end(vals)
    return None


# ---------------------------------------------------------------------------
# exhaustive small scopes

SYMBOLS = {
    'A': ['osc', 'SinOsc', 'ar', 101],
    'B': ['osc', 'LFNoise0', 'ar', 102],
    'K': ['osc', 'LFNoise0', 'kr', 7],
    'L': ['osc', 'SinOsc', 'kr', 8],
    'R': ['osc', 'Rand', 'ir', 3],
    'a': ['osc', 'SinOsc', 'ar', 109],      # only used as unreferenced leaves
    'k': ['osc', 'LFNoise0', 'kr', 9],
    'P': ['ctl', 0],
    'Q': ['ctl', 1],
    '0': ['const', 0],
    '1': ['const', 1],
    'm': ['const', -1],
    '2': ['const', 2],
    'h': ['const', 0.5],
    'z': ['const', 0.0],
    'f': ['const', -1.0],
}
PARAMS = [['a', 0.25], ['b', 3.0]]


def _op_choices(nops, ops):
    """All op nodes whose operands are positions 0..nops-1 (symbols first, then
    earlier ops).  Yields tuples (kind, operand positions...)."""
    rng = range(nops)
    for k in ops:
        if k in BIN or k in OPAQUE_BIN:
            for a in rng:
                for b in rng:
                    yield (k, a, b)
        elif k in ('neg',) or k in OPAQUE_UN:
            for a in rng:
                yield (k, a)
        elif k == 'madd':
            for a in rng:
                for m in rng:
                    for d in rng:
                        yield ('madd', a, m, d)
        elif k.startswith('sum'):
            n = int(k[3:])
            for t in itertools.product(rng, repeat=n):
                yield ('sum', t)
        else:
            raise ValueError(k)


def scope_count(alphabet, opsets):
    n = 1
    for j, ops in enumerate(opsets):
        n *= sum(1 for _ in _op_choices(len(alphabet) + j, ops))
    return n


def scope_programs(alphabet, opsets, outsets=('last',), stride=None,
                   extra_dead=()):
    """Every program made of len(opsets) operator nodes; node j uses operators
    opsets[j] on operands taken from the symbols of `alphabet` and the earlier
    operator nodes (all combinations: sharing and `x op x` included).  Only the
    symbols actually used are materialised (in alphabet order, before the
    operator nodes), plus the `extra_dead` symbols, which nothing references.
    outsets: 'last' = one output fed by the last node; 'all' = one output per
    operator node; 'second' = one output fed by the second operator node;
    'first+last', 'mid+last' (two outputs), 'pair' = one 2-channel output
    [first, last]; 'pair0' = one 2-channel output [last, last].
    stride=(k, n) yields only programs whose running number is k modulo n.
    Yields (running number, program)."""
    m = len(opsets)
    na = len(alphabet)
    choice_lists = [list(_op_choices(na + j, opsets[j])) for j in range(m)]
    idx = -1
    for combo in itertools.product(*choice_lists):
        for outset in outsets:
            if m == 1 and outset not in ('last', 'pair0'):
                continue
            idx += 1
            if stride is not None and idx % stride[1] != stride[0]:
                continue
            yield idx, build_scope_program(alphabet, combo, outset, extra_dead)


def build_scope_program(alphabet, combo, outset='last', extra_dead=()):
    na = len(alphabet)
    used = set()
    for op in combo:
        ops_ = op[1] if op[0] == 'sum' else op[1:]
        for p in ops_:
            if p < na:
                used.add(p)
    nodes = []
    pos2node = {}
    for p in range(na):
        if p in used:
            pos2node[p] = len(nodes)
            nodes.append(list(SYMBOLS[alphabet[p]]))
    for s in extra_dead:
        nodes.append(list(SYMBOLS[s]))
    opnode = []
    for j, op in enumerate(combo):
        if op[0] == 'sum':
            nd = ['sum', [pos2node[p] for p in op[1]]]
        else:
            nd = [op[0]] + [pos2node[p] for p in op[1:]]
        pos2node[na + j] = len(nodes)
        opnode.append(len(nodes))
        nodes.append(nd)
    last = opnode[-1]
    if outset == 'last':
        outs = [{'chans': [last]}]
    elif outset == 'all':
        outs = [{'chans': [x]} for x in opnode]
    elif outset == 'first+last':
        outs = [{'chans': [opnode[0]]}, {'chans': [last]}]
    elif outset == 'second':
        outs = [{'chans': [opnode[1]]}]
    elif outset == 'mid+last':
        outs = [{'chans': [opnode[len(opnode) // 2]]}, {'chans': [last]}]
    elif outset == 'pair':
        outs = [{'chans': [opnode[0], last]}]
    elif outset == 'pair0':
        outs = [{'chans': [last, last]}]
    else:
        raise ValueError(outset)
    return {'params': [list(p) for p in PARAMS], 'nodes': nodes, 'outs': outs}


# ---------------------------------------------------------------------------
# seeded random deeper programs

def random_program(rng, max_ops=10, p_opaque=0.05, leaf_pool=None):
    """A random program: 1-5 leaves of each sort drawn from the full alphabet,
    up to max_ops operator nodes whose operands prefer recent nodes (deep
    chains) but may be any earlier node (sharing), 1-3 outputs of 1-3 channels;
    whatever no output reaches is dead code (dead pure expressions, dead
    side-effecting leaves)."""
    nodes = []
    params = [list(p) for p in PARAMS]
    tag = [200]

    def new_leaf():
        r = rng.random()
        if r < 0.55:
            cls = rng.choice(['SinOsc', 'LFNoise0', 'LFSaw', 'Rand',
                              'SinOsc', 'LFNoise0'])
            rate = rng.choice(LEAF_CLASSES[cls]['rates'])
            tag[0] += 1
            nodes.append(['osc', cls, rate, tag[0]])
        elif r < 0.7:
            nodes.append(['ctl', rng.randrange(len(params))])
        else:
            nodes.append(['const', rng.choice([0, 1, -1, 2, 0.5, 0.0, 1.0,
                                               -1.0])])
    for _ in range(rng.randint(2, 6)):
        new_leaf()
    nops = rng.randint(1, max_ops)
    for _ in range(nops):
        n = len(nodes)

        def pick():
            if rng.random() < 0.6:
                return rng.randrange(max(0, n - 3), n)
            return rng.randrange(n)
        r = rng.random()
        if r < p_opaque:
            k = rng.choice(['mod', 'pow', 'abs'])
            nd = [k, pick()] if k == 'abs' else [k, pick(), pick()]
        elif r < 0.62:
            k = rng.choice(['add', 'add', 'sub', 'sub', 'mul', 'mul', 'div'])
            a = pick()
            b = a if rng.random() < 0.12 else pick()
            nd = [k, a, b]
        elif r < 0.74:
            nd = ['neg', pick()]
        elif r < 0.87:
            nd = ['madd', pick(), pick(), pick()]
        else:
            nd = ['sum', [pick() for _ in range(rng.randint(2, 5))]]
        nodes.append(nd)
        if rng.random() < 0.08:
            new_leaf()
    n = len(nodes)
    outs = []
    for _ in range(rng.choice([1, 1, 1, 2, 2, 3])):
        ch = []
        for _ in range(rng.choice([1, 1, 1, 2, 3])):
            ch.append(rng.randrange(max(0, n - 4), n) if rng.random() < 0.7
                      else rng.randrange(n))
        outs.append({'chans': ch})
    return {'params': params, 'nodes': nodes, 'outs': outs}


def random_wellformed(rng, **kw):
    """(program, number of rejected draws)."""
    rej = 0
    while True:
        p = random_program(rng, **kw)
        ok, _ = wellformed(p)
        if ok:
            return p, rej
        rej += 1


def prog_size(prog):
    return len(prog['nodes']) + sum(len(o['chans']) for o in prog['outs'])


def prog_key(prog):
    """Canonical hashable key of a program (for distinct counting)."""
    import json
    return json.dumps(prog, sort_keys=True)


def render(prog):
    """The program as Python source (for violation reports)."""
    lines = ['def graph_func(%s):' % ', '.join(
        '%s=%r' % (p[0], p[1]) for p in prog['params'])]
    sym = {'add': '+', 'sub': '-', 'mul': '*', 'div': '/', 'mod': '%',
           'pow': '**'}
    for i, nd in enumerate(prog['nodes']):
        k = nd[0]
        if k == 'const':
            e = repr(nd[1])
        elif k == 'ctl':
            e = prog['params'][nd[1]][0]
        elif k == 'osc':
            ctor = 'new' if nd[2] == 'ir' else nd[2]
            e = '%s.%s(%s)' % (nd[1], ctor, ', '.join(
                repr(x) for x in leaf_inputs(nd[1], nd[3])))
        elif k in sym:
            e = 'n%d %s n%d' % (nd[1], sym[k], nd[2])
        elif k == 'neg':
            e = '-n%d' % nd[1]
        elif k == 'abs':
            e = 'abs(n%d)' % nd[1]
        elif k == 'madd':
            e = 'n%d.madd(n%d, n%d)' % (nd[1], nd[2], nd[3])
        elif k == 'sum':
            e = 'ChannelList([%s]).sum()' % ', '.join('n%d' % j for j in nd[1])
        else:
            e = repr(nd)
        lines.append('    n%d = %s' % (i, e))
    for oi, o in enumerate(prog['outs']):
        lines.append('    Out.<rate>(%d, [%s])' % (
            OUT_BUS0 + 10 * oi, ', '.join('n%d' % j for j in o['chans'])))
    return '\n'.join(lines)
