"""C12 - TempoClock time arithmetic and quantisation are consistent.

Bounded run-time contract driver (B part); everything runs in non-real-time
mode, clocks are created inside the NRT main and time is advanced by routines
playing on the clock under test.  All oracles are exact rational (Fraction)
re-computations from the *inputs and observed logical times*; floats coming out
of sc3 are compared within 1e-9 relative to the magnitudes involved.

  roundtrip   beats2secs(secs2beats(x)) == x and the converse for random
              clocks (tempo log-uniform in (0.01, 1000), arbitrary base beats /
              seconds) and random x.
  history     random histories of tempo=, etempo(), beats=, beats_per_bar=
              issued by a routine running on the clock: against the exact
              affine map  beats(t) = b0 + (t - s0) * tempo  re-based at every
              change at the observed logical time: continuity of the
              (beats, seconds) pair, the tempo getter, slope = new tempo
              afterwards (probes and the next wake-up), round trips; meter
              clauses at every step: beats2bars/bars2beats inverse, next_bar(b)
              >= b, on a bar line counted from the last meter change, minimal;
              bar() integral and consistent, beat_in_bar() in [0, bpb).
  grid        next_time_on_grid(q, phase, ref) on dense rational grids for
              clocks whose meter was changed at several beats: q > 0 and
              -q < phase < q: the earliest beat >= ref congruent to phase
              modulo q counted from the last meter change (so also < ref + q);
              q == 0: ref + phase; q < 0: ValueError.
  play-quant  play(routine, quant) from a routine on the clock, after random
              tempo / beats / meter changes: the first resumption of the
              played routine is at exactly that beat; time_to_next_beat >= 0.
"""
import math
import os
from fractions import Fraction as Fr

from vf.common import Report, driver_main, wants, silence_sc3_logging

REL = 1e-9


def _mods():
    import sc3.base.main as M
    import sc3.base.stream as S
    import sc3.base.clock as C
    return M, S, C


def _init():
    silence_sc3_logging()
    import warnings
    warnings.simplefilter('ignore')
    import sc3
    sc3.init('nrt')


def _drain(main, limit=100000):
    q = main._clock_scheduler.queue
    n = 0
    while not q.empty():
        t, ct = q.pop()
        ct._wakeup(t)
        n += 1
        if n > limit:
            raise RuntimeError('scheduler did not drain')


def fr(x):
    return Fr(x)            # exact value of an int / float


def close(a, b, scale):
    """a: float from sc3, b: exact Fraction"""
    return abs(fr(a) - b) <= fr(REL) * max(1, abs(scale))


def is_num(x):
    return isinstance(x, (int, float)) and not isinstance(x, bool) \
        and x == x and abs(x) != float('inf')


# --------------------------------------------------------------------------
# exact references
# --------------------------------------------------------------------------

class RefMap:
    """beats(t) = b0 + (t - s0) * T, all Fractions"""

    def __init__(self, tempo, beats, seconds):
        self.T, self.b0, self.s0 = fr(tempo), fr(beats), fr(seconds)

    def beats(self, s):
        return self.b0 + (fr(s) - self.s0) * self.T

    def secs(self, b):
        return self.s0 + (fr(b) - self.b0) / self.T

    def set_tempo(self, s, v):
        self.b0, self.s0, self.T = self.beats(s), fr(s), fr(v)

    def set_beats(self, s, v):
        self.b0, self.s0 = fr(v), fr(s)

    def bscale(self, s=0):
        """magnitude of the quantities involved, in beats"""
        return max(1, abs(self.b0), abs(self.s0) * self.T, abs(fr(s)) * self.T)

    def sscale(self, b=0):
        return max(1, abs(self.s0), abs(self.b0) / self.T, abs(fr(b)) / self.T)


def ref_grid(q, phase, ref, origin):
    """Earliest beat >= ref of the form origin + phase + k*q (k integer);
    q > 0.  All arguments Fractions."""
    x = (ref - origin - phase) / q
    k = math.ceil(x)
    return origin + phase + k * q


def grid_ok(r, q, phase, ref, origin):
    """Tolerance-aware acceptance of a float result ``r`` for q > 0:
    the exact answer, or - when ``ref`` is within tolerance of a grid point -
    the answer for a reference beat moved by less than the tolerance."""
    q_, p_, ref_, o_ = fr(q), fr(phase), fr(ref), fr(origin)
    g = ref_grid(q_, p_, ref_, o_)
    scale = max(1, abs(ref_), abs(o_), abs(q_), abs(g))
    tol = fr(REL) * scale
    rr = fr(r)
    if abs(rr - g) <= tol:
        return True, g
    d = g - ref_                      # 0 <= d < q
    if d <= tol and abs(rr - (g + q_)) <= tol:
        return True, g                # ref seen as just after g
    if q_ - d <= tol and abs(rr - (g - q_)) <= tol:
        return True, g                # ref seen as on the previous point
    return False, g


def ref_next_bar(b, origin, bpb):
    b_, o_, v_ = fr(b), fr(origin), fr(bpb)
    return o_ + math.ceil((b_ - o_) / v_) * v_


# --------------------------------------------------------------------------
# (i) round trips
# --------------------------------------------------------------------------

def logu(rng, lo, hi):
    return math.exp(rng.uniform(math.log(lo), math.log(hi)))


def rnd_tempo(rng):
    r = rng.random()
    if r < 0.1:
        return rng.choice([0.0100001, 0.5, 1, 2, 60 / 120, 999.9, 3, 1 / 3])
    return logu(rng, 0.0101, 999.0)


def rnd_real(rng, mag):
    r = rng.random()
    if r < 0.15:
        return float(rng.randint(-int(mag), int(mag)))
    if r < 0.3:
        return rng.uniform(-1, 1)
    return rng.uniform(-mag, mag)


def check_roundtrip(case):
    """case = [tempo, beats, seconds, x] -> None | (clause, observed, expected)"""
    M, S, C = _mods()
    tempo, beats, seconds, x = case
    clk = C.TempoClock(tempo, beats, seconds)
    # the constructor treats 0 as "default" (beats -> 0.0, seconds -> now = 0)
    ref = RefMap(tempo, beats or 0.0, seconds or M.main.current_tt._seconds)
    try:
        b = clk.secs2beats(x)
        s = clk.beats2secs(b)
        s2 = clk.beats2secs(x)
        b2 = clk.secs2beats(s2)
    except Exception as e:
        return ('raises', type(e).__name__, 'a value')
    if not (is_num(b) and is_num(s) and is_num(s2) and is_num(b2)):
        return ('not-a-number', [b, s, s2, b2], 'numbers')
    if not close(b, ref.beats(x), max(ref.bscale(x), abs(ref.beats(x)))):
        return ('secs2beats', b, float(ref.beats(x)))
    if not close(s2, ref.secs(x), max(ref.sscale(x), abs(ref.secs(x)))):
        return ('beats2secs', s2, float(ref.secs(x)))
    if not close(s, fr(x), max(ref.sscale(b), abs(x))):
        return ('beats2secs(secs2beats(x))', s, x)
    if not close(b2, fr(x), max(ref.bscale(s2), abs(x))):
        return ('secs2beats(beats2secs(x))', b2, x)
    return None


def run_roundtrip(rep):
    n = 20000 if rep.tier == 'quick' else 200000
    rng = rep.rng
    cnt = 0
    distinct = set()
    samples = []
    for _ in range(n):
        case = [rnd_tempo(rng), rnd_real(rng, 1e4), rnd_real(rng, 1e4),
                rnd_real(rng, 1e5)]
        cnt += 1
        distinct.add(tuple(case))
        if len(samples) < 4:
            samples.append(case)
        r = check_roundtrip(case)
        if r is not None:
            rep.violation(
                obligation='C12.roundtrip',
                what='TempoClock(tempo=%r, beats=%r, seconds=%r), x=%r: %s is '
                     '%r, expected %r' % (tuple(case) + r),
                input=case, observed=r[1], expected=r[2],
                key='C12.roundtrip:' + r[0],
                replay={'func': 'roundtrip', 'args': case})
    rep.bounded(
        name='roundtrip', function='sc3.base.clock.TempoClock.beats2secs/'
                                   'secs2beats',
        bound='%d random (tempo in (0.01,1000) log-uniform, base beats and '
              'seconds in +-1e4, x in +-1e5)' % n,
        evaluations=cnt, distinct_nontrivial=len(distinct),
        rule='both compositions are the identity and both maps equal the exact '
             'affine map within 1e-9 relative to the magnitudes involved',
        samples=samples, exhaustive=False)


# --------------------------------------------------------------------------
# (ii) + (iv) setter histories from a routine on the clock
# --------------------------------------------------------------------------

BPBS = [1, 2, 3, 4, 5, 7, 2.5, 0.75, 3.5, 12]
DELTAS = [0.25, 0.5, 1, 1.5, 2, 3, 1 / 3, 0.1]
PROBES_S = [0.0, 0.125, 1.0, 2.5, 10.0, -0.75]


def gen_history(rng, nsteps):
    tempo = rnd_tempo(rng)
    if rng.random() < 0.5:
        tempo = logu(rng, 0.2, 8.0)
    beats = rng.choice([0.0, 0.0, 1.0, 16.0, rnd_real(rng, 100)])
    steps = []
    for _ in range(nsteps):
        r = rng.random()
        if r < 0.3:
            st = ['tempo', rnd_tempo(rng) if rng.random() < 0.5
                  else logu(rng, 0.2, 8.0)]
        elif r < 0.4:
            st = ['etempo', logu(rng, 0.05, 50.0)]
        elif r < 0.6:
            st = ['beats', rng.choice(['rel', 'abs']),
                  rng.uniform(-8, 8) if rng.random() < 0.7
                  else rnd_real(rng, 1000)]
        elif r < 0.85:
            st = ['bpb', rng.choice(BPBS)]
        else:
            st = ['none']
        d = rng.choice(DELTAS) if rng.random() < 0.7 else rng.uniform(0.01, 5)
        steps.append([st, d])
    return {'tempo': tempo, 'beats': beats, 'steps': steps}


def check_history(case):
    """Run the history on a fresh clock; -> None | dict(step, clause,
    observed, expected)."""
    M, S, C = _mods()
    main = M.main
    main.reset()
    clk = C.TempoClock(case['tempo'], case['beats'], 0.0)
    ref = RefMap(case['tempo'], case['beats'] or 0.0, 0.0)
    meter = {'origin': fr(0), 'bpb': fr(4)}
    out = {'bad': None, 'nsteps': 0}

    def bad(step, clause, observed, expected):
        if out['bad'] is None:
            out['bad'] = {'step': step, 'clause': clause,
                          'observed': observed,
                          'expected': expected if not isinstance(
                              expected, Fr) else float(expected)}

    def check_map(step, tag):
        s = clk.seconds
        b = clk.beats
        if not (is_num(s) and is_num(b)):
            return bad(step, tag + ':not-a-number', [b, s], 'numbers')
        eb = ref.beats(s)
        sc = max(ref.bscale(s), abs(eb))
        if not close(b, eb, sc):
            return bad(step, tag + ':beats-on-map', b, eb)
        # the pair is on the map in both directions
        s_back = clk.beats2secs(b)
        if not close(s_back, fr(s), max(ref.sscale(b), abs(s))):
            return bad(step, tag + ':pair-consistent', s_back, s)
        # slope: beats advance at the current tempo
        for h in PROBES_S:
            bh = clk.secs2beats(s + h)
            if not close(bh, ref.beats(s + h), max(sc, abs(ref.beats(s + h)))):
                return bad(step, tag + ':advance-at-tempo',
                           [h, bh], ref.beats(s + h))
            sh = clk.beats2secs(b + h)
            if not close(sh, ref.secs(b + h),
                         max(ref.sscale(b + h), abs(ref.secs(b + h)))):
                return bad(step, tag + ':beats2secs-on-map',
                           [h, sh], ref.secs(b + h))
            back = clk.secs2beats(sh)
            if not close(back, fr(b + h), max(sc, abs(b + h))):
                return bad(step, tag + ':roundtrip', [h, back], b + h)

    def check_meter(step, tag):
        b = clk.beats
        bpb = clk.beats_per_bar
        if fr(bpb) != meter['bpb']:
            return bad(step, tag + ':beats_per_bar', bpb, meter['bpb'])
        o, v = meter['origin'], meter['bpb']
        sc = max(1, abs(fr(b)), abs(o), v)
        tol = fr(REL) * sc
        probes = [b, b + 0.3, b - 0.3, float(o), float(o + v), float(o + 3 * v),
                  float(o - 2 * v), float(o) + 1e-7, float(o + v) - 1e-7,
                  b + float(v) * 2.5]
        for x in probes:
            bars = clk.beats2bars(x)
            back = clk.bars2beats(bars)
            if not (is_num(bars) and is_num(back)):
                return bad(step, tag + ':bars-not-a-number', [x, bars, back], '')
            if abs(fr(back) - fr(x)) > fr(REL) * max(sc, abs(fr(x))):
                return bad(step, tag + ':bars2beats(beats2bars(x))',
                           [x, back], x)
            bars2 = clk.beats2bars(clk.bars2beats(x))
            if abs(fr(bars2) - fr(x)) > fr(REL) * max(sc, abs(fr(x))):
                return bad(step, tag + ':beats2bars(bars2beats(x))',
                           [x, bars2], x)
            nb = clk.next_bar(x)
            enb = ref_next_bar(x, o, v)
            t2 = fr(REL) * max(sc, abs(fr(x)))
            okk = abs(fr(nb) - enb) <= t2
            d = enb - fr(x)
            if not okk and d <= t2 and abs(fr(nb) - (enb + v)) <= t2:
                okk = True
            if not okk and v - d <= t2 and abs(fr(nb) - (enb - v)) <= t2:
                okk = True
            if not okk:
                if fr(nb) < fr(x) - t2:
                    return bad(step, tag + ':next_bar-before-beat', [x, nb], enb)
                return bad(step, tag + ':next_bar-not-next-bar-line',
                           [x, nb], enb)
        nb0 = clk.next_bar()
        if fr(nb0) < fr(b) - tol:
            return bad(step, tag + ':next_bar()-before-current-beat',
                       [b, nb0], '>= beats')
        bar = clk.bar()
        bib = clk.beat_in_bar()
        if not (is_num(bar) and is_num(bib)):
            return bad(step, tag + ':bar-not-a-number', [bar, bib], '')
        if fr(bar) != math.floor(fr(bar)):
            return bad(step, tag + ':bar-integral', bar, 'an integer')
        lo = fr(clk.bars2beats(bar))
        hi = fr(clk.bars2beats(bar + 1))
        if not (lo - tol <= fr(b) <= hi + tol):
            return bad(step, tag + ':bar-contains-beat', [bar, float(lo),
                                                          float(hi)], b)
        if not (-tol <= fr(bib) <= v + tol):
            return bad(step, tag + ':beat_in_bar-range', bib,
                       '[0, %s)' % float(v))
        # beat_in_bar is the distance from the last bar line (mod bpb)
        pos = (fr(b) - o) % v
        if min(abs(fr(bib) - pos), abs(abs(fr(bib) - pos) - v)) > tol:
            return bad(step, tag + ':beat_in_bar-value', bib, pos)

    def body(inval):
        _, c = inval
        prev = None
        for i, (st, delta) in enumerate(case['steps']):
            out['nsteps'] = i + 1
            s = c.seconds
            b = c.beats
            if prev is not None:
                # since the last step nothing but time: slope = tempo
                eb = prev['b'] + (fr(s) - fr(prev['s'])) * ref.T
                if not close(b, eb, max(ref.bscale(s), abs(eb))):
                    bad(i, 'wake:advance-at-tempo', b, eb)
            check_map(i, 'wake')
            check_meter(i, 'wake')
            if out['bad']:
                return
            k = st[0]
            try:
                if k == 'tempo':
                    c.tempo = st[1]
                    ref.set_tempo(s, st[1])
                elif k == 'etempo':
                    c.etempo(st[1])
                    ref.set_tempo(s, st[1])
                elif k == 'beats':
                    v = b + st[2] if st[1] == 'rel' else st[2]
                    c.beats = v
                    ref.set_beats(s, v)
                elif k == 'bpb':
                    c.beats_per_bar = st[1]
                    meter['origin'] = ref.beats(s)
                    meter['bpb'] = fr(st[1])
            except Exception as e:
                bad(i, k + ':raises', type(e).__name__, 'accepted')
                return
            s2 = c.seconds
            b2 = c.beats
            if s2 != s:
                bad(i, k + ':seconds-changed', s2, s)
            if k in ('tempo', 'etempo'):
                if c.tempo != st[1]:
                    bad(i, k + ':tempo-getter', c.tempo, st[1])
                if not close(b2, fr(b), max(ref.bscale(s), abs(b))):
                    bad(i, k + ':beats-continuous', b2, b)
            elif k == 'beats':
                if not close(b2, fr(v), max(1, abs(v))):
                    bad(i, k + ':beats-set', b2, v)
            else:
                if not close(b2, fr(b), max(ref.bscale(s), abs(b))):
                    bad(i, k + ':beats-continuous', b2, b)
            if k == 'bpb':
                # the current beat starts a bar of the new meter
                nb = c.next_bar(b2)
                if abs(fr(nb) - fr(b2)) > fr(REL) * max(1, abs(b2)):
                    bad(i, 'bpb:current-beat-is-bar-line', nb, b2)
            check_map(i, k)
            check_meter(i, k)
            if out['bad']:
                return
            prev = {'s': s2, 'b': fr(b2)}
            yield delta
    r = S.Routine(body)
    r.play(clk, 0)          # quant 0: now
    _drain(main)
    if out['bad'] is None and out['nsteps'] != len(case['steps']):
        out['bad'] = {'step': out['nsteps'], 'clause': 'routine-did-not-finish',
                      'observed': out['nsteps'],
                      'expected': len(case['steps'])}
    return out['bad']


def shrink_history(case, clause):
    cur = dict(case)
    steps = list(case['steps'])
    changed = True
    while changed:
        changed = False
        for i in range(len(steps)):
            cand = dict(cur, steps=steps[:i] + steps[i + 1:])
            r = check_history(cand)
            if r is not None and r['clause'] == clause:
                steps = cand['steps'][:r['step'] + 1]
                changed = True
                break
    return dict(cur, steps=steps)


def _hist_worker(arg):
    seed, n, nsteps = arg
    import random
    rng = random.Random(seed)
    silence_sc3_logging()
    res = []
    steps = 0
    for _ in range(n):
        case = gen_history(rng, rng.randint(1, nsteps))
        steps += len(case['steps'])
        r = check_history(case)
        if r is not None and len(res) < 20:
            res.append((case, r))
    return n, steps, res


def run_history(rep):
    import multiprocessing as mp
    quick = rep.tier == 'quick'
    per = 250 if quick else 2500
    seeds = [rep.rng.randrange(1 << 30) for _ in range(16)]
    ctx = mp.get_context('fork')
    total = steps = 0
    found = []
    with ctx.Pool(16) as pool:
        for n, st, res in pool.imap(_hist_worker, [(s, per, 12) for s in seeds]):
            total += n
            steps += st
            found.extend(res)
    found.sort(key=lambda e: len(e[0]['steps']))
    for case, r in found:
        key = 'C12.history:' + r['clause'].split(':', 1)[-1]
        if sum(1 for v in rep.violations if v['key'] == key) >= 3:
            continue
        small = shrink_history(case, r['clause'])
        r2 = check_history(small) or r
        rep.violation(
            obligation='C12.history.' + r2['clause'],
            what='TempoClock(%r, %r, 0.0), steps %r: at step %d clause %s: '
                 'observed %r, expected %r' % (
                     small['tempo'], small['beats'], small['steps'],
                     r2['step'], r2['clause'], r2['observed'], r2['expected']),
            input=small, observed=r2['observed'], expected=r2['expected'],
            key=key, replay={'func': 'history', 'args': small})
    rep.bounded(
        name='history', function='sc3.base.clock.TempoClock.tempo/etempo/beats/'
                                 'beats_per_bar setters, beats2bars, bars2beats, '
                                 'next_bar, bar, beat_in_bar',
        bound='%d seeded histories of 1..12 setter steps (tempo=, etempo(), '
              'beats= relative/absolute, beats_per_bar=, nothing) with random '
              'waits, issued by a routine playing on the clock' % total,
        evaluations=steps, distinct_nontrivial=total,
        rule='exact Fraction re-computation of the affine map re-based at the '
             'observed logical time of every change; meter clauses with the '
             'bar origin = beat of the last beats_per_bar change; tolerance '
             '1e-9 relative; evaluations = setter steps',
        samples=[gen_history(__import__('random').Random(1), 3)],
        exhaustive=False)


# --------------------------------------------------------------------------
# (iii) next_time_on_grid
# --------------------------------------------------------------------------

ORIGINS = [None, 0.5, 1.75, 10 / 3, 7]       # beat of the meter change


def make_clock_with_origin(origin):
    """-> (clock, exact origin as observed).  The meter is changed by a
    routine on the clock at beat ``origin`` (None: never changed -> 0)."""
    M, S, C = _mods()
    main = M.main
    main.reset()
    clk = C.TempoClock(1.5, 0.0, 0.0)
    seen = {'o': 0.0}
    if origin is not None:
        def body(inval):
            yield origin
            seen['o'] = clk.beats
            clk.beats_per_bar = 3
        S.Routine(body).play(clk, 0)
        _drain(main)
    return clk, seen['o']


def grid_cases(tier):
    dens = [1, 2, 3, 4, 5, 8]
    qs = sorted({k / d for d in dens for k in range(1, 9 if tier == 'quick'
                                                   else 13)})
    qs += [1, 2, 3, 4, 8]                       # ints as ints
    refs = [j / 12 for j in range(-24, 61)] + [0, 1, 5, -3, 17] \
        + [1e6 + 0.5, 123456.789, -98765.4321]
    for q in qs:
        phs = sorted({q * k / 6 for k in range(-5, 6)} | {0, q / 7, -q / 7})
        if isinstance(q, int):
            phs += [p for p in range(-q + 1, q)]
        for ph in phs:
            if not (-q < ph < q):
                continue
            for ref in refs:
                yield q, ph, ref


def check_grid(clk, origin, q, ph, ref):
    """-> None | (clause, observed, expected)"""
    try:
        r = clk.next_time_on_grid(q, ph, ref)
    except Exception as e:
        if q < 0 and isinstance(e, ValueError):
            return None
        return ('raises', type(e).__name__, 'a beat')
    if q < 0:
        return ('negative-quant-accepted', r, 'ValueError')
    if not is_num(r):
        return ('not-a-number', r, 'a number')
    if q == 0:
        e = fr(ref) + fr(ph)
        if not close(r, e, max(abs(fr(ref)), abs(fr(ph)))):
            return ('quant-0', r, float(e))
        return None
    ok, g = grid_ok(r, q, ph, ref, origin)
    if ok:
        return None
    tol = fr(REL) * max(1, abs(fr(ref)), abs(g))
    rr = fr(r)
    if rr < fr(ref) - tol:
        return ('before-reference-beat', r, float(g))
    if rr >= fr(ref) + fr(q) + tol:
        return ('not-minimal', r, float(g))
    x = (rr - fr(origin) - fr(ph)) / fr(q)
    if abs(x - round(x)) * fr(q) > tol:
        return ('off-grid', r, float(g))
    return ('not-minimal', r, float(g))


def _grid_worker(arg):
    oi, tier = arg
    silence_sc3_logging()
    clk, origin = make_clock_with_origin(ORIGINS[oi])
    n = 0
    res = []
    for q, ph, ref in grid_cases(tier):
        n += 1
        r = check_grid(clk, origin, q, ph, ref)
        if r is not None and len(res) < 50:
            res.append(([oi, q, ph, ref], r))
    # q == 0 and q < 0
    for ph in (0, 0.5, -1.25, 3):
        for ref in (0, 2.5, -7.25, 1e6):
            for q in (0, 0.0, -1, -0.5, -1e-9):
                n += 1
                r = check_grid(clk, origin, q, ph, ref)
                if r is not None:
                    res.append(([oi, q, ph, ref], r))
    return n, res


def run_grid(rep):
    import multiprocessing as mp
    ctx = mp.get_context('fork')
    total = 0
    found = []
    with ctx.Pool(len(ORIGINS)) as pool:
        for n, res in pool.imap(_grid_worker,
                                [(i, rep.tier) for i in range(len(ORIGINS))]):
            total += n
            found.extend(res)
    # smallest first: origin 0, small numerators
    found.sort(key=lambda e: (e[0][0], abs(e[0][3]), abs(e[0][1]), abs(e[0][2])))
    for args, r in found:
        rep.violation(
            obligation='C12.grid.' + r[0],
            what='meter changed at beat %r: next_time_on_grid(quant=%r, '
                 'phase=%r, refbeat=%r) = %r, the earliest grid beat not '
                 'before the reference is %r (%s)' % (
                     ORIGINS[args[0]], args[1], args[2], args[3], r[1], r[2],
                     r[0]),
            input={'meter_change_at': ORIGINS[args[0]], 'quant': args[1],
                   'phase': args[2], 'refbeat': args[3]},
            observed=r[1], expected=r[2], key='C12.grid:' + r[0],
            replay={'func': 'grid', 'args': args})
    rep.bounded(
        name='grid', function='sc3.base.clock.TempoClock.next_time_on_grid',
        bound='quant in {k/d: d in 1,2,3,4,5,8, k=1..%d} and ints, phase in '
              'multiples of quant/6 and +-quant/7 inside (-quant, quant), '
              'refbeat in {j/12: -24<=j<=60} + large values, meter changed at '
              'beats %r; quant 0 and negative quants' % (
                  8 if rep.tier == 'quick' else 12, ORIGINS),
        evaluations=total, distinct_nontrivial=total,
        rule='exact Fraction reference: earliest origin+phase+k*quant >= '
             'refbeat; within 1e-9 relative; a reference beat within the '
             'tolerance of a grid point may be seen on either side of it',
        samples=[[1, 0, 2.5], [0.75, -0.125, 3.3333333333333335],
                 [3, 2, 7]], exhaustive=True)


# --------------------------------------------------------------------------
# play(routine, quant) lands on the grid
# --------------------------------------------------------------------------

def gen_playq(rng, nsteps):
    steps = []
    for _ in range(nsteps):
        r = rng.random()
        if r < 0.3:
            st = ['tempo', logu(rng, 0.2, 8.0)]
        elif r < 0.45:
            st = ['beats', 'rel', rng.uniform(-4, 8)]
        elif r < 0.75:
            st = ['bpb', rng.choice(BPBS)]
        else:
            st = ['none']
        wait = rng.choice(DELTAS + [0, 0, 1, 2]) if rng.random() < 0.8 \
            else rng.uniform(0, 3)
        q = rng.choice([0, 1, 1, 2, 3, 4, 0.5, 0.25, 1.5, 4 / 3, 'bar', None])
        if q in (0, None):
            ph = rng.choice([0, 0.5, 1.25]) if q == 0 else 0
        elif q == 'bar':
            ph = rng.choice([0, 1, -1, 0.5])
        else:
            ph = rng.choice([0, 0, q / 2, -q / 2, q / 4, -q * 3 / 4,
                             rng.uniform(-q, q) * 0.999])
        form = rng.choice(['Quant', 'tuple', 'number'])
        steps.append([st, wait, q, ph, form])
    return {'tempo': logu(rng, 0.2, 8.0), 'steps': steps}


def check_playq(case):
    M, S, C = _mods()
    main = M.main
    main.reset()
    clk = C.TempoClock(case['tempo'], 0.0, 0.0)
    meter = {'origin': 0.0, 'bpb': 4}
    out = {'bad': None, 'n': 0}

    def bad(step, clause, observed, expected):
        if out['bad'] is None:
            out['bad'] = {'step': step, 'clause': clause, 'observed': observed,
                          'expected': expected}

    def child_body(rec):
        def body(inval):
            rec['beats'] = clk.beats
            rec['n'] = rec.get('n', 0) + 1
            yield 'done'          # not a number: not rescheduled
        return body

    def parent(inval):
        for i, (st, wait, q, ph, form) in enumerate(case['steps']):
            k = st[0]
            b = clk.beats
            if k == 'tempo':
                clk.tempo = st[1]
            elif k == 'beats':
                clk.beats = b + st[2]
            elif k == 'bpb':
                meter['origin'] = clk.beats
                meter['bpb'] = st[1]
                clk.beats_per_bar = st[1]
            if k == 'beats' and not wait:
                # a routine that moved the clock's beats is rescheduled from
                # its old beat (documented; C05's subject): re-synchronise
                # before measuring anything that depends on its wake-up
                wait = 0.5
            if wait:
                yield wait
            ref = clk.beats
            qq = meter['bpb'] if q == 'bar' else q
            if qq and not (-qq < ph < qq):
                ph = 0           # the statement covers phases in (-q, q) only
            if qq is None:
                quant, eq, eph = None, 1, 0        # default Quant()
            elif form == 'Quant':
                quant, eq, eph = C.Quant(qq, ph), qq, ph
            elif form == 'tuple':
                quant, eq, eph = (qq, ph), qq, ph
            else:
                quant, eq, eph = qq, qq, 0
            ttnb = clk.time_to_next_beat(quant if quant is not None else 1)
            if not is_num(ttnb) or fr(ttnb) < -fr(REL) * max(1, abs(ref)):
                bad(i, 'time_to_next_beat-negative', ttnb, '>= 0')
            rec = {}
            S.Routine(child_body(rec)).play(clk, quant)
            out['n'] += 1
            # wait until the child must have started: grid beat < ref + q
            yield (eq + abs(eph) + 0.5)
            if rec.get('n') != 1:
                bad(i, 'played-routine-resumed-%s-times' % rec.get('n', 0),
                    rec.get('n', 0), 1)
                return
            got = rec['beats']
            if eq == 0:
                e = fr(ref) + fr(eph)
                if not close(got, e, max(abs(fr(ref)), 1)):
                    bad(i, 'play-quant-0', [ref, got], float(e))
            else:
                ok, g = grid_ok(got, eq, eph, ref, meter['origin'])
                if not ok:
                    bad(i, 'play-not-on-next-grid-beat',
                        {'refbeat': ref, 'quant': eq, 'phase': eph,
                         'origin': meter['origin'], 'first_beat': got},
                        float(g))
            if out['bad']:
                return
    S.Routine(parent).play(clk, 0)
    _drain(main)
    return out['bad'], out['n']


def run_playq(rep):
    quick = rep.tier == 'quick'
    n = 1500 if quick else 12000
    rng = rep.rng
    plays = 0
    samples = []
    for _ in range(n):
        case = gen_playq(rng, rng.randint(1, 8))
        if len(samples) < 3:
            samples.append(case)
        r, k = check_playq(case)
        plays += k
        if r is not None:
            # shrink: keep the failing step and drop earlier ones greedily
            steps = case['steps'][:r['step'] + 1]
            changed = True
            while changed:
                changed = False
                for i in range(len(steps) - 1):
                    cand = dict(case, steps=steps[:i] + steps[i + 1:])
                    r3, _ = check_playq(cand)
                    if r3 is not None and r3['clause'] == r['clause']:
                        steps = cand['steps'][:r3['step'] + 1]
                        changed = True
                        break
            small = dict(case, steps=steps)
            r2, _ = check_playq(small)
            r2 = r2 or r
            rep.violation(
                obligation='C12.play.' + r2['clause'],
                what='TempoClock(%r), steps %r: step %d %s: observed %r, '
                     'expected %r' % (small['tempo'], small['steps'],
                                      r2['step'], r2['clause'],
                                      r2['observed'], r2['expected']),
                input=small, observed=r2['observed'], expected=r2['expected'],
                key='C12.play:' + r2['clause'],
                replay={'func': 'playq', 'args': small})
    rep.bounded(
        name='play-quant', function='sc3.base.clock.TempoClock.play/'
                                    'time_to_next_beat',
        bound='%d seeded scenarios of 1..8 (change, wait, play(child, quant)) '
              'steps; quant as Quant / tuple / number / None, quant = bar '
              'length, phases in (-quant, quant)' % n,
        evaluations=plays, distinct_nontrivial=plays,
        rule='first resumption beat of the played routine = exact next grid '
             'beat from the beat of the play() call (1e-9 relative), resumed '
             'exactly once by then; evaluations = play() calls',
        samples=samples, exhaustive=False)


# --------------------------------------------------------------------------

def main(rep):
    _init()
    if wants(rep, 'roundtrip'):
        run_roundtrip(rep)
    if wants(rep, 'history'):
        run_history(rep)
    if wants(rep, 'grid'):
        run_grid(rep)
    if wants(rep, 'play-quant'):
        run_playq(rep)
    rep.note('beats=: when the routine that sets beats wakes up next is C05\'s '
             'subject (it is rescheduled from its old beat); here only the map '
             'at the observed logical times is checked.')
    rep.note('several routines on one clock across a tempo change (re-timing '
             'of already queued wake-ups) is not covered: C05/C10.')
    rep.note('negative tempi (etempo) are not exercised: the statement '
             'quantifies over tempos > 0.')
    rep.note('the bar *number* after a beats_per_bar change is not specified '
             'by the statement; only that conversions stay mutually inverse '
             'and the current beat starts a bar.')


def replay(case, rep):
    _init()
    r = case['replay']
    f, args = r['func'], r['args']
    if f == 'roundtrip':
        v = check_roundtrip(args)
        if v is not None:
            rep.violation(obligation='C12.roundtrip',
                          what='%s: %r expected %r' % v, input=args,
                          key='C12.roundtrip:' + v[0])
        return v is None
    if f == 'history':
        v = check_history(args)
        if v is not None:
            rep.violation(obligation='C12.history.' + v['clause'],
                          what='step %d: %s observed %r expected %r' % (
                              v['step'], v['clause'], v['observed'],
                              v['expected']), input=args,
                          key='C12.history:' + v['clause'].split(':', 1)[-1])
        return v is None
    if f == 'grid':
        oi, q, ph, ref = args
        clk, origin = make_clock_with_origin(ORIGINS[oi])
        v = check_grid(clk, origin, q, ph, ref)
        if v is not None:
            rep.violation(obligation='C12.grid.' + v[0],
                          what='next_time_on_grid(%r, %r, %r) = %r expected %r'
                               % (q, ph, ref, v[1], v[2]), input=args,
                          key='C12.grid:' + v[0])
        return v is None
    if f == 'playq':
        v, _ = check_playq(args)
        if v is not None:
            rep.violation(obligation='C12.play.' + v['clause'],
                          what='step %d: %s observed %r expected %r' % (
                              v['step'], v['clause'], v['observed'],
                              v['expected']), input=args,
                          key='C12.play:' + v['clause'])
        return v is None
    raise ValueError(f)


if __name__ == '__main__':
    driver_main('C12', main, replay)
