"""Exhaustive table obligations for envelope shape names (C19)."""
from vf.pyvc.spec import table

# SuperCollider Env help / EnvGen: shape numbers of the server
SHAPES = {'step': 0, 'lin': 1, 'linear': 1, 'exp': 2, 'exponential': 2,
          'sin': 3, 'sine': 3, 'wel': 4, 'welch': 4, 'sqr': 6, 'squared': 6,
          'cub': 7, 'cubed': 7, 'hold': 8}


def _shape_rows(repo):
    import sc3
    sc3.init('nrt')
    from sc3.synth.envelope import Env
    rows = []
    for name, num in SHAPES.items():
        try:
            got = Env._shape_number(name)
        except Exception as e:
            got = repr(e)
        rows.append(('shape_number(%r)' % name, got == num, {'got': got, 'want': num}))
        try:
            cv = Env._curve_value(name)
        except Exception as e:
            cv = repr(e)
        rows.append(('curve_value(%r)' % name, cv == 0, {'got': cv, 'want': 0}))
    for x in (0, -4, 2.5, 8):
        try:
            got = Env._shape_number(x)
        except Exception as e:
            got = repr(e)
        rows.append(('shape_number(%r)' % (x,), got == 5, {'got': got, 'want': 5}))
        try:
            cv = Env._curve_value(x)
        except Exception as e:
            cv = repr(e)
        rows.append(('curve_value(%r)' % (x,), cv == x, {'got': cv, 'want': x}))
    for bad in ('sqrt', 'linn', '', 'Lin'):
        if bad in SHAPES:
            continue
        try:
            Env._shape_number(bad)
            ok = False
            got = 'accepted'
        except ValueError:
            ok, got = True, 'ValueError'
        except Exception as e:
            ok, got = False, repr(e)
        rows.append(('unknown shape %r refused' % bad, ok, {'got': got}))
    rows.append(('mixed list', Env._shape_number(['lin', 3, 'hold']) == [1, 5, 8],
                 {'got': Env._shape_number(['lin', 3, 'hold'])}))
    return rows


table('env-shape-names', props=('C19',), rows=_shape_rows,
      reads=('sc3/synth/envelope.py',))


# ---- client-side evaluation: Env._env_at (lin / step / hold / numeric curve ~ 0) ---------
import z3
from vf.pyvc.spec import contract, Loop
from vf.pyvc.values import *

F = 'sc3/synth/envelope.py'
DATA = z3.Array('env_data', z3.IntSort(), z3.RealSort())
NSTAGES = z3.Int('env_num_stages')
SHAPE = z3.Function('env_shape', z3.IntSort(), z3.IntSort())       # shape number stored at index i


def data_kind(eng, name):
    """one channel of _envgen_format(): (level0, n, rel, loop, [level, dur, shape, curve] * n)"""
    def get(eng_, i, st_):
        si = z3.simplify(i)
        if z3.is_int_value(si) and si.as_long() == 1:
            return vint(NSTAGES)
        # shape numbers live at 6, 10, 14, ...: integers
        return V('real', DATA[i], ival=None, extra={'index': i})
    return V('seq', extra={'len': 4 + 4 * NSTAGES, 'get': get})


def h_compare(eng, op, a, b, st, node):
    import ast
    # shape == <number>: shapes are the integers stored in the data
    for p, q in ((a, b), (b, a)):
        if p.k == 'real' and p.extra and 'index' in p.extra and q.k == 'int' \
                and isinstance(op, (ast.Eq, ast.NotEq)):
            r = SHAPE(p.extra['index']) == q.z
            return z3.Not(r) if isinstance(op, ast.NotEq) else r
    return None


def seg(c):
    """(start level, target level, begin, end) of the segment the result comes from"""
    e = c.st.env
    return (to_real(e['start_level']), to_real(e['target_level']),
            to_real(e['begin_time']), to_real(e['end_time']))


CUM = z3.Function('env_time_of_breakpoint', z3.IntSort(), z3.RealSort())    # CUM(k) = sum of the first k durations
_k = z3.Int('k')
CUM_AXIOMS = [CUM(0) == 0]        # + CUM(k+1) = CUM(k) + duration k, instantiated at every loop head (cum_step)


def cum_step(eng, st):
    k = st.env['__i0'].z
    st.pc.append(CUM(k + 1) == CUM(k) + DATA[5 + 4 * k])


def at_post(c):
    """time in segment p = [CUM(p), CUM(p+1)): the value comes from THAT segment (levels DATA[4p] -> DATA[4p+4]);
    time at or after the last breakpoint: the last level"""
    e = c.st.env
    r = c.result
    if '__i0' not in e:
        return z3.BoolVal(False)
    j = e['__i0'].z                                                        # passes started when the call returns
    in_body = 0 in c.st.ghost.get('in_loops', ())      # returned from inside the loop (known from the engine, not from a local's name)
    if in_body:
        sl, tl, bt, et = seg(c)            # (a renamed local: KeyError -> out of the subset, never a verdict)
    else:
        sl, tl, bt, et = (to_real(e['start_level']),) * 2 + (z3.RealVal(0),) * 2
    inside = c.time < et
    after = z3.Implies(z3.Not(inside), z3.And(j == NSTAGES, c.time >= CUM(NSTAGES),
                                              r == DATA[4 * NSTAGES]))     # holds the LAST level, only after the end
    if not in_body:
        return after
    lo = z3.If(sl <= tl, sl, tl)
    hi = z3.If(sl <= tl, tl, sl)
    sh = SHAPE(e['i'].z + 2)
    between = z3.And(lo <= r, r <= hi)
    return z3.And(after, z3.Implies(inside, z3.And(
        j >= 1, bt == CUM(j - 1), et == CUM(j), bt <= c.time,              # the segment that contains `time`
        sl == DATA[4 * (j - 1)], tl == DATA[4 * j],                        # between ITS two breakpoint levels
        e['i'].z == 4 * j,
        z3.Implies(z3.Or(sh == 1, sh == 0, sh == 8), between),            # lin, step, hold
        z3.Implies(sh == 0, r == tl),                                      # step jumps immediately
        z3.Implies(sh == 8, r == sl),                                      # hold keeps the previous level
        z3.Implies(z3.And(sh == 1, c.time == bt), r == sl))))              # at the breakpoint: its level


def at_inv(c, L):
    # after k passes: begin_time is breakpoint k's time (the sum of the first k durations), never after
    # `time`; start_level is the level of breakpoint k
    return z3.And(L.begin_time == L.end_time, L.begin_time == CUM(L.i), L.begin_time <= c.time,
                  L.start_level == DATA[4 * L.i], L.i >= 0)


contract(F, 'Env._env_at', props=('C19',),
         params={'self': 'self', 'data': data_kind, 'time': 'real'},
         requires=lambda c: z3.And(NSTAGES >= 1, c.time >= 0,
                                   z3.ForAll([z3.Int('k')], z3.Implies(
                                       z3.And(z3.Int('k') >= 0, z3.Int('k') < NSTAGES),
                                       DATA[5 + 4 * z3.Int('k')] > 0))),      # positive durations
         raises={'ValueError': None, 'ZeroDivisionError': None},   # exp(curve) == 1 is possible for the uninterpreted exp
         ensures=[('value-from-the-segment-containing-time;last-level-after-the-end', at_post)],
         axioms=CUM_AXIOMS,
         loops={0: Loop(early_exit=True, inv=at_inv, havoc_hook=cum_step, kinds={
             'target_level': 'real', 'target_dur': 'real', 'end_time': 'real',
             'begin_time': 'real', 'start_level': 'real', 'shape': 'real', 'pos': 'real',
             'curve': 'real'})},
         fields={'Env': {}},
         hooks={'compare': h_compare}, class_modules={'Env': F}, native=False,
         inline=('pow', 'cos', 'sin', 'exp', 'sqrt'),
         note='transcendental shapes (exp, sin, wel, sqr, cub, curve != 0) are bounded only')


# ---- the server encoding: Env._envgen_format (C19) ------------------------------------------
# "initial level, segment count, release node and loop node (-99 when absent) followed by
#  target level, duration, shape number and curvature for each segment, with ... curves
#  wrapped to the number of segments"
from vf.pyvc import values as VV
from vf.pyvc.engine import Unsupported
G = 'sc3/synth/_graphparam.py'
U = 'sc3/base/utils.py'


def conv_seq(name):
    n = z3.Int(name + '.len')
    arr = z3.Array(name + '.items', z3.IntSort(), VV.Any)
    return V('seq', extra={'len': n, 'name': name, 'facts': [n >= 0],
                           'get': (lambda eng_, i, st_, _a=arr: V('any', z3.Select(_a, i)))})


def ef_ugen_param(eng, selfv, args, kwargs, st, node):
    return [(st, V('obj', oid='param', extra={'of': args[0]}))]


def ef_as_list(eng, selfv, args, kwargs, st, node):
    return [(st, V('obj', oid='as_list', extra={'of': args[0]}))]


def ef_getattr(eng, obj, name, st, node):
    if obj.k == 'obj' and obj.oid == 'param' and name == '_as_ugen_input':
        def conv(eng, a, kw, st, node, _o=obj):
            src = _o.extra['of']
            # the four converted attributes: levels / times / curves (sequences), nodes (scalar or None)
            if src.k == 'obj' and src.oid == 'self.levels':
                return [(st, conv_seq('levels'))]
            if src.k == 'seq' and src.extra.get('name') == 'self.times':
                return [(st, conv_seq('times'))]
            if src.k == 'obj' and src.oid == 'as_list':
                return [(st, conv_seq('curves'))]
            if src.k in ('none', 'any', 'int'):
                which = 'node!%d' % next(eng.counter)
                st.trace.append(('node-converted', src, which))
                return [(st, V('any', z3.Const(which, VV.Any), extra={'from': src}))]
            raise Unsupported(node, '_as_ugen_input of %r' % (src,))
        return [(st, V('func', py=('spec', conv)))]
    if obj.k == 'list' and name == 'append':
        def app(eng, a, kw, st, node):
            st.trace.append(('append', a[0]))
            return [(st, NONE)]
        return [(st, V('func', py=('spec', app)))]
    return None


def ef_listcomp(eng, e, it, st, node):
    st.trace.append(('flop-to-tuples', it))
    return [(st, V('obj', oid='channel-arrays'))]


def ef_flop(eng, selfv, args, kwargs, st, node):
    st.trace.append(('flop', args[0]))
    return [(st, V('obj', oid='flopped'))]


SHAPE_OF = z3.Function('shape_number_of', VV.Any, VV.Any)
CURVE_OF = z3.Function('curve_value_of', VV.Any, VV.Any)


def ef_pure(fn):
    """_shape_number / _curve_value are pure functions of their argument: an uninterpreted
    function, so that WHERE they are called (per segment, hoisted, cached) does not matter,
    only which value ends up in the array"""
    def pol(eng, selfv, args, kwargs, st, node):
        if len(args) != 1 or args[0].k != 'any':
            raise Unsupported(node, 'shape/curve of %r' % (args,))
        return [(st, V('any', fn(args[0].z)))]
    return pol


def ef_since(trace, ordinal=0):
    idx = -1
    for i, e in enumerate(trace):
        if e[0] == 'loop-head' and e[1] == ordinal:
            idx = i
    return trace[idx + 1:] if idx >= 0 else None


def sel(name, i):
    return z3.Select(z3.Array(name + '.items', z3.IntSort(), VV.Any), i)


def per_segment(c, L):
    ev = ef_since(c.trace)
    if not ev:
        return z3.BoolVal(True)
    ev = [e for e in ev if e[0] == 'append']
    if len(ev) != 4 or any(e[1].k != 'any' for e in ev):
        return z3.BoolVal(False)
    i = L.i - 1
    lv, tm, sh, cv = [e[1].z for e in ev]
    wrapped = sel('curves', i % z3.Int('curves.len'))
    return z3.And(lv == sel('levels', i + 1),            # target level of segment i
                  tm == sel('times', i),                 # its duration
                  sh == SHAPE_OF(wrapped),               # shape number of curves[i mod len]
                  cv == CURVE_OF(wrapped))               # curvature of curves[i mod len]


def every_segment(c, sq, k, elem):
    # one pass per segment: as many as there are times, pass k for segment k
    if elem.k != 'int':
        return z3.BoolVal(False), z3.BoolVal(False)
    return sq.extra['len'] == z3.Int('self.times.len'), elem.z == k


def format_post(c):
    t = c.trace
    heads = [i for i, e in enumerate(t) if e[0] == 'loop-head']
    if not heads:
        return z3.BoolVal(False)
    head = [e for e in t[:heads[0]] if e[0] == 'append']
    if len(head) != 4:
        return z3.BoolVal(False)
    l0, size, rel, loop = [e[1] for e in head]
    if l0.k != 'any' or size.k != 'int':
        return z3.BoolVal(False)

    convs = [e for e in t if e[0] == 'node-converted']

    def node_ok(v, which, k):
        # the converted node, or -99 when (and only when) the conversion gives None
        if v.k == 'int':
            if len(convs) != 2:
                return z3.BoolVal(False)
            conv = z3.Const(convs[k][2], VV.Any)
            return z3.And(z3.BoolVal(z3.is_int_value(z3.simplify(v.z)) and z3.simplify(v.z).as_long() == -99),
                          VV.tag_of(conv) == TAGS['none'])
        src = v.extra.get('from') if v.k == 'any' and v.extra else None
        same_src = src is not None and src.k == which.k and (src.k == 'none' or z3.eq(src.z, which.z))
        if not same_src:
            return z3.BoolVal(False)
        return VV.tag_of(v.z) != TAGS['none']           # a conversion that gives None is never passed on: -99 stands for it
    relsrc, loopsrc = c.pre.self.v('release_node'), c.pre.self.v('loop_node')
    tail = [e for e in t[heads[-1]:] if e[0] in ('append', 'flop', 'flop-to-tuples')]
    ok_tail = [e[0] for e in tail] == ['flop', 'flop-to-tuples'] and c.resultv.k == 'obj' \
        and c.resultv.oid == 'channel-arrays'
    return z3.And(l0.z == sel('levels', 0), size.z == z3.Int('self.times.len'),
                  node_ok(rel, relsrc, 0), node_ok(loop, loopsrc, 1), z3.BoolVal(bool(ok_tail)))


def times_kind(eng, name):
    n = z3.Int('self.times.len')
    return V('seq', extra={'len': n, 'name': 'self.times', 'facts': [n >= 0],
                           'get': (lambda eng_, i, st_: V('any', z3.Select(z3.Array('self.times.items', z3.IntSort(), VV.Any), i)))})


for relk in ('none', 'int'):
    for loopk in ('none', 'int'):
        contract(F, 'Env._envgen_format', props=('C19',), params={'self': 'self'},
                 requires=lambda c: z3.And(z3.Int('curves.len') >= 1, z3.Int('self.times.len') >= 0,
                                           z3.Int('levels.len') == z3.Int('self.times.len') + 1,
                                           z3.Int('times.len') == z3.Int('self.times.len')),
                 ensures=[('level0,count,release,loop(-99-when-absent);then-per-segment-level,time,shape,curve', format_post)],
                 loops={0: Loop(inv=per_segment, over=every_segment)},
                 fields={'Env': {'__envgen_format': 'none', 'levels': 'obj', 'times': times_kind, 'curves': 'obj',
                                 'release_node': relk, 'loop_node': loopk}},
                 hooks={'getattr': ef_getattr, 'listcomp': ef_listcomp},
                 policies={G + '::ugen_param': ef_ugen_param, U + '::as_list': ef_as_list, U + '::flop': ef_flop,
                           'Env._shape_number': ef_pure(SHAPE_OF), 'Env._curve_value': ef_pure(CURVE_OF)},
                 class_modules={'Env': F}, native=False,
                 note='first call (no cached format); the conversions by ugen_param are opaque: levels/times/'
                      'curves as converted are arbitrary sequences with len(levels) = len(times) + 1 '
                      '(Env.__init__ wraps times to the segment count: wrap_extend contract)')
        from vf.pyvc.spec import REGISTRY
        key = '%s::Env._envgen_format#release-%s-loop-%s' % (F, relk, loopk)
        REGISTRY[key] = REGISTRY.pop('%s::Env._envgen_format' % F)
        REGISTRY[key].key = key


# ---- client-side evaluation entry: Env._at(time) (C19) ---------------------------------------------------
# every channel of the encoded envelope is evaluated at max(0, time - offset): the envelope starts
# `offset` seconds after time zero, and nothing else decides which time is looked up (in particular not a
# comparison of the caller's absolute time with the duration).
def at_listcomp(eng, e, it, st, node):
    # [self._env_at(d, time) for d in data]: the element expression evaluated for an arbitrary element
    if not (len(e.generators) == 1 and isinstance(e.generators[0].target, ast.Name)):
        return None
    st2 = st
    saved = st2.env.get(e.generators[0].target.id)
    st2.env[e.generators[0].target.id] = V('obj', oid='a-channel')
    rs = eng.eval(e.elt, st2)
    if saved is not None:
        st2.env[e.generators[0].target.id] = saved
    if len(rs) != 1 or isinstance(rs[0][1], Raised):
        raise Unsupported(node, 'element expression forks or raises')
    st2.trace.append(('mapped-over', it, rs[0][1]))
    return [(rs[0][0], V('obj', oid='per-channel-values', extra={'elt': rs[0][1]}))]


import ast
from vf.pyvc.engine import Raised


def at_env_at(eng, selfv, args, kwargs, st, node):
    r = V('obj', oid='level-of-channel')
    st.trace.append(('env_at', tuple(args), r))
    return [(st, r)]


def at_format(eng, selfv, args, kwargs, st, node):
    return [(st, V('obj', oid='channel-arrays'))]


def at_unbubble(eng, selfv, args, kwargs, st, node):
    st.trace.append(('unbubble', tuple(args)))
    return [(st, V('obj', oid='unbubbled'))]


def at_post(c):
    ev = [e for e in c.trace if e[0] == 'env_at']
    mp = [e for e in c.trace if e[0] == 'mapped-over']
    ub = [e for e in c.trace if e[0] == 'unbubble']
    if len(ev) != 1 or len(mp) != 1 or len(ub) != 1 or len(ev[0][1]) != 2:
        return z3.BoolVal(False)
    ch, t = ev[0][1]
    ok = (ch.k == 'obj' and ch.oid == 'a-channel' and t.k in ('int', 'real')
          and mp[0][1].k == 'obj' and mp[0][1].oid == 'channel-arrays' and mp[0][2] is ev[0][2]   # over ALL channels
          and len(ub[0][1]) == 1 and ub[0][1][0].k == 'obj' and ub[0][1][0].oid == 'per-channel-values'
          and c.resultv.k == 'obj' and c.resultv.oid == 'unbubbled')
    if not ok:
        return z3.BoolVal(False)
    tz = to_real(t)
    rel = to_real(c._params['time']) - c.pre.self.offset
    return tz == z3.If(rel > 0, rel, 0)                                   # looked up at max(0, time - offset)


def at_some_real(name):
    def pol(eng, selfv, args, kwargs, st, node):
        return [(st, vreal(eng.fresh(name, z3.RealSort())))]
    return pol


contract(F, 'Env._at', props=('C19',), params={'self': 'self', 'time': 'num'},
         ensures=[('every-channel-evaluated-at-max(0,time-offset)', at_post)],
         modifies=[], fields={'Env': {'offset': 'real'}},
         hooks={'listcomp': at_listcomp},
         # durations are some real numbers (not used by the unchanged function; known so that a change
         # that starts comparing the time with them is decided instead of leaving the subset)
         policies={'Env._env_at': at_env_at, 'Env._envgen_format': at_format, U + '::unbubble': at_unbubble,
                   'Env.total_duration': at_some_real('total_duration'), 'Env.duration': at_some_real('duration'),
                   'Env.release_time': at_some_real('release_time')},
         inline=('max',), class_modules={'Env': F}, native=False)
