"""Contracts for sc3/base/_taskq.py — TaskQueue as a data structure against an
abstract view, for all histories (C09).

Heap entries are modelled as an uninterpreted sort with immutable (prio, count)
and a mutable task component (the only component the code mutates); the heap
list is a finite set of entries with heapq under an assumed library contract;
the finder dict is a finite partial map. Everything else is executed from the
real source.

    view(q)   = { (prio e, count e, task e) | e in heap, task e is not REMOVED }
    rep_ok(q) = the representation invariant below
"""
import ast
import z3
from vf.pyvc.spec import contract, Loop, lemma
from vf.pyvc.values import *
from vf.pyvc.engine import Raised, Unsupported

F = 'sc3/base/_taskq.py'

E = z3.DeclareSort('Entry')
T = z3.DeclareSort('Task')
REMOVED = z3.Const('REMOVED', T)
prio = z3.Function('prio', E, z3.RealSort())
cnt = z3.Function('cnt', E, z3.IntSort())
SetE = z3.ArraySort(E, z3.BoolSort())
card = z3.Function('card', SetE, z3.IntSort())


def zv(z):
    return V('z', z=z)


def arr_kind(dom, rng):
    def mk(eng, name):
        return zv(z3.Const(name, z3.ArraySort(dom, rng)))
    return mk


def task_kind(eng, name):
    return V('task', z=z3.Const(name, T))


FIELDS = {'TaskQueue': {
    '_removed_counter': 'int',
    '__inQ': arr_kind(E, z3.BoolSort()),      # entries in the heap list
    '__task': arr_kind(E, T),                 # third component of each entry
    '__finder': arr_kind(T, E),               # _entry_finder
    '__inF': arr_kind(T, z3.BoolSort()),      # keys of _entry_finder
    '__R': arr_kind(E, z3.BoolSort()),        # ghost: heap entries whose task is REMOVED
    '__next': 'int',                          # next value of the itertools.count
}}


class S:
    """snapshot of the abstract state from an ObjView"""

    def __init__(self, v):
        self.inQ = v.v('__inQ').z
        self.task = v.v('__task').z
        self.finder = v.v('__finder').z
        self.inF = v.v('__inF').z
        self.R = v.v('__R').z
        self.next = v.__getattr__('__next')
        self.rc = v._removed_counter


def live(s, e):
    return z3.And(s.inQ[e], s.task[e] != REMOVED)


def key_le(e1, e2):
    """(prio, count) lexicographic <="""
    return z3.Or(prio(e1) < prio(e2), z3.And(prio(e1) == prio(e2), cnt(e1) <= cnt(e2)))


def rep_ok(s):
    e, e2 = z3.Consts('e e2', E)
    t = z3.Const('t', T)
    return z3.And(
        s.next >= 0,
        z3.ForAll([e], z3.Implies(s.inQ[e], z3.And(cnt(e) >= 0, cnt(e) < s.next))),
        z3.ForAll([e, e2], z3.Implies(z3.And(s.inQ[e], s.inQ[e2], e != e2), cnt(e) != cnt(e2))),
        z3.ForAll([t], z3.Implies(s.inF[t], z3.And(
            s.inQ[s.finder[t]], s.task[s.finder[t]] == t, t != REMOVED))),
        z3.ForAll([e], z3.Implies(live(s, e), z3.And(
            s.inF[s.task[e]], s.finder[s.task[e]] == e))),
        z3.ForAll([e], s.R[e] == z3.And(s.inQ[e], s.task[e] == REMOVED)),
        s.rc == card(s.R),
    )


def card_axioms():
    A = z3.Const('A', SetE)
    e = z3.Const('e', E)
    return [
        z3.ForAll([A], card(A) >= 0),
        z3.ForAll([A, e], z3.Implies(A[e], card(A) >= 1)),
        z3.ForAll([A, e], z3.Implies(z3.Not(A[e]), card(z3.Store(A, e, True)) == card(A) + 1)),
        z3.ForAll([A, e], z3.Implies(A[e], card(z3.Store(A, e, False)) == card(A) - 1)),
        card(z3.K(E, False)) == 0,
    ]


TRUSTED = [
    'heapq.heappush adds the entry to the heap; heapq.heappop removes and returns '
    'an entry minimal in list order, which for pairwise distinct counts is the '
    '(prio, count) order (IndexError on an empty heap); heapq.nsmallest/nlargest '
    '(1, heap, key) return an element minimising/maximising the key',
    'finite-set cardinality axioms (card >= 0; member => card >= 1; insert/delete '
    'change card by one; card(empty) = 0; in TaskQueue.empty: subset with equal '
    'cardinality is equal)',
    'itertools.count yields 0, 1, 2, ...',
    'dict: membership, store, pop (KeyError when absent), del (KeyError when absent)',
]


# ---------------------------------------------------------------------------
# hooks: the library model
def G(st, name, eng=None):
    f = st.objs.setdefault('self', {})
    if name not in f:
        f[name] = eng.field_sym('self', 'TaskQueue', name, None)
    return f[name]


def Gz(st, name, eng):
    return G(st, name, eng).z


def setG(st, name, z):
    st.objs.setdefault('self', {})[name] = zv(z) if name != '__next' else vint(z)
    st.ghost = dict(st.ghost)
    st.ghost['written'] = set(st.ghost.get('written', set())) | {('self', name)}


def entry_of(eng, st, v):
    """abstract entry of a value: an entry V, or a fresh 3-element list
    [prio, count, task] (allocated once per list object)"""
    if v.k == 'entry':
        return v.z
    if v.k == 'list' and v.items is not None and len(v.items) == 3:
        memo = st.ghost.setdefault('entries', {})
        if id(v) in memo:
            return memo[id(v)]
        e = eng.fresh('entry', E)
        p, c_, t = v.items
        st.pc.append(z3.Not(Gz(st, '__inQ', eng)[e]))      # a new list object is not in the heap
        st.pc.append(prio(e) == to_real(p))
        st.pc.append(cnt(e) == to_int(c_))
        setG(st, '__task', z3.Store(Gz(st, '__task', eng), e, t.z))
        st.ghost = dict(st.ghost)
        memo = dict(memo)
        memo[id(v)] = e
        st.ghost['entries'] = memo
        st.ghost['fresh'] = list(st.ghost.get('fresh', [])) + [e]
        return e
    raise Unsupported(None, 'not an entry: %r' % (v,))


def h_getattr(eng, obj, name, st, node):
    if obj.k == 'ref' and obj.oid == 'self':
        if name == '_queue':
            return [(st, V('seq', extra={'len': card(Gz(st, '__inQ', eng)), 'tq': 'heap'}))]
        if name == '_entry_finder':
            return [(st, V('tqfinder'))]
        if name == '_counter':
            return [(st, V('tqcounter'))]
        if name == '_REMOVED':
            return [(st, V('task', z=REMOVED))]
    if obj.k == 'class' and name == '_REMOVED':
        return [(st, V('task', z=REMOVED))]
    if obj.k == 'tqfinder' and name == 'get':
        def get(eng, args, kwargs, st, node):
            t = args[0].z
            outs = []
            for st1, has in eng.branch(st, Gz(st, '__inF', eng)[t], node):
                if has:
                    outs.append((st1, V('entry', z=Gz(st1, '__finder', eng)[t])))
                else:
                    outs.append((st1, args[1] if len(args) > 1 else NONE))
            return outs
        return [(st, V('func', py=('spec', get)))]
    if obj.k == 'tqfinder' and name == 'pop':
        def pop(eng, args, kwargs, st, node):
            t = args[0].z
            outs = []
            for st1, has in eng.branch(st, Gz(st, '__inF', eng)[t], node):
                if has:
                    e = Gz(st1, '__finder', eng)[t]
                    setG(st1, '__inF', z3.Store(Gz(st1, '__inF', eng), t, False))
                    outs.append((st1, V('entry', z=e)))
                else:
                    outs.append((st1, Raised(eng.make_exc('KeyError', node=node))))
            return outs
        return [(st, V('func', py=('spec', pop)))]
    return None


def h_setattr(eng, obj, name, v, st, node):
    if obj.k == 'ref' and obj.oid == 'self':
        if name == '_queue':
            if v.k == 'list' and v.items == []:
                setG(st, '__inQ', z3.K(E, False))
                setG(st, '__R', z3.K(E, False))
                return [('next', st)]
            raise Unsupported(node, '_queue assigned a non-empty list')
        if name == '_entry_finder':
            if v.k == 'dict0':
                setG(st, '__inF', z3.K(T, False))
                return [('next', st)]
            raise Unsupported(node, '_entry_finder assignment')
        if name == '_counter':
            if v.k == 'tqcounter0':
                setG(st, '__next', z3.IntVal(0))
                return [('next', st)]
            raise Unsupported(node, '_counter assignment')
    return None


def h_setitem(eng, obj, idx, v, st, node):
    if obj.k == 'tqfinder':
        e = entry_of(eng, st, v)
        t = idx.z
        setG(st, '__finder', z3.Store(Gz(st, '__finder', eng), t, e))
        setG(st, '__inF', z3.Store(Gz(st, '__inF', eng), t, True))
        return [('next', st)]
    if obj.k == 'entry':
        iz = z3.simplify(idx.z)
        if z3.is_int_value(iz) and iz.as_long() in (-1, 2) and v.k == 'task':
            e = obj.z
            setG(st, '__task', z3.Store(Gz(st, '__task', eng), e, v.z))
            # ghost set of removed heap entries follows its definition
            inq = Gz(st, '__inQ', eng)[e]
            setG(st, '__R', z3.Store(Gz(st, '__R', eng), e, z3.And(inq, v.z == REMOVED)))
            return [('next', st)]
        raise Unsupported(node, 'store into entry component %s' % iz)
    return None


def h_delitem(eng, obj, idx, st, node):
    if obj.k == 'tqfinder':
        t = idx.z
        outs = []
        for st1, has in eng.branch(st, Gz(st, '__inF', eng)[t], node):
            if has:
                setG(st1, '__inF', z3.Store(Gz(st1, '__inF', eng), t, False))
                outs.append(('next', st1))
            else:
                outs.append(('raise', st1, eng.make_exc('KeyError', node=node)))
        return outs
    return None


def h_contains(eng, container, item, st, node):
    if container.k == 'tqfinder' and item.k == 'task':
        return Gz(st, '__inF', eng)[item.z]
    return None


def h_compare(eng, op, a, b, st, node):
    if a.k == 'task' and b.k == 'task' and isinstance(op, (ast.Is, ast.IsNot, ast.Eq, ast.NotEq)):
        r = a.z == b.z
        return z3.Not(r) if isinstance(op, (ast.IsNot, ast.NotEq)) else r
    return None


def h_builtin(eng, name, args, kwargs, st, node):
    if name == 'next' and args and args[0].k == 'tqcounter':
        n = G(st, '__next', eng).z
        setG(st, '__next', n + 1)
        return [(st, vint(n))]
    return None


def h_unpack(eng, v, n, node, st):
    if v.k == 'entry' and n == 3:
        e = v.z
        return [vreal(prio(e)), vint(cnt(e)), V('task', z=Gz(st, '__task', eng)[e])]
    return None


def h_getitem(eng, obj, idx, st, node):
    if obj.k == 'entry':
        iz = z3.simplify(idx.z)
        if z3.is_int_value(iz):
            i = iz.as_long()
            e = obj.z
            comp = [vreal(prio(e)), vint(cnt(e)), V('task', z=Gz(st, '__task', eng)[e])]
            if -3 <= i < 3:
                return [(st, comp[i])]
            return [(st, Raised(eng.make_exc('IndexError', node=node)))]
    if obj.k == 'list' and obj.items is not None and obj.extra and obj.extra.get('selected'):
        # result list of nsmallest/nlargest(1, ...)
        return None
    return None


def h_getslice(eng, obj, sl, st, node):
    if obj.k == 'entry' and sl.lower is None and sl.step is None and \
            isinstance(sl.upper, ast.Constant) and sl.upper.value == 2:
        e = obj.z
        return [(st, vlist([vreal(prio(e)), vint(cnt(e))]))]
    return None


def selected_extreme(eng, st, node, smallest):
    """library contract of heapq.nsmallest/nlargest(1, heap, key=_small/_large_key):
    an element of the heap minimising/maximising the key, where the key (by the
    contracts of _small_key/_large_key, proved below) is (prio, count) for live
    entries and (+inf, +inf)/(-inf, -inf) for removed ones."""
    inQ, task = Gz(st, '__inQ', eng), Gz(st, '__task', eng)
    e = eng.fresh('sel', E)
    x = z3.Const('x_sel', E)
    st.pc.append(inQ[e])
    rem = lambda y: task[y] == REMOVED
    if smallest:
        # key(e) <= key(x): removed keys are +inf
        le = z3.Or(rem(x), z3.And(z3.Not(rem(e)), key_le(e, x)))
    else:
        le = z3.Or(rem(x), z3.And(z3.Not(rem(e)), key_le(x, e)))
    st.pc.append(z3.ForAll([x], z3.Implies(inQ[x], le)))
    return V('entry', z=e)


def h_ext(eng, mod, name, args, kwargs, st, node):
    if mod == 'heapq' and name == 'heappush':
        e = entry_of(eng, st, args[1])
        inQ = Gz(st, '__inQ', eng)
        setG(st, '__inQ', z3.Store(inQ, e, True))
        task = Gz(st, '__task', eng)
        setG(st, '__R', z3.Store(Gz(st, '__R', eng), e, task[e] == REMOVED))
        return [(st, NONE)]
    if mod == 'heapq' and name == 'heappop':
        inQ = Gz(st, '__inQ', eng)
        outs = []
        for st1, nonempty in eng.branch(st, card(inQ) > 0, node):
            if not nonempty:
                outs.append((st1, Raised(eng.make_exc('IndexError', node=node))))
                continue
            e = eng.fresh('popped', E)
            x = z3.Const('x_pop', E)
            inQ1 = Gz(st1, '__inQ', eng)
            st1.pc.append(inQ1[e])
            # minimal in list order [prio, count, task]; counts are pairwise
            # distinct (rep invariant, asserted as the precondition of this
            # library contract), so the order is decided by (prio, count)
            eng.oblige(st1, 'heappop-pre[counts distinct]', 'call-pre',
                       z3.ForAll([x], z3.Implies(z3.And(inQ1[x], x != e), cnt(x) != cnt(e))), node)
            st1.pc.append(z3.ForAll([x], z3.Implies(inQ1[x], key_le(e, x))))
            setG(st1, '__inQ', z3.Store(inQ1, e, False))
            setG(st1, '__R', z3.Store(Gz(st1, '__R', eng), e, False))
            outs.append((st1, V('entry', z=e)))
        return outs
    if mod == 'heapq' and name in ('nsmallest', 'nlargest'):
        n = z3.simplify(args[0].z) if args[0].k == 'int' else None
        if n is not None and z3.is_int_value(n) and n.as_long() == 1 and 'key' in kwargs:
            k = kwargs['key']
            want = '_small_key' if name == 'nsmallest' else '_large_key'
            if not (k.k == 'func' and k.py[0] == 'method' and k.py[3] == want):
                raise Unsupported(node, 'key function %r' % (k,))
            inQ = Gz(st, '__inQ', eng)
            outs = []
            for st1, nonempty in eng.branch(st, card(inQ) > 0, node):
                if nonempty:
                    ev = selected_extreme(eng, st1, node, name == 'nsmallest')
                    outs.append((st1, vlist([ev])))
                else:
                    outs.append((st1, vlist([])))
            return outs
    if mod == 'itertools' and name == 'count':
        return [(st, V('tqcounter0'))]
    return None


def h_truth_patch():
    pass


HOOKS = {'getattr': h_getattr, 'setattr': h_setattr, 'setitem': h_setitem,
         'delitem': h_delitem, 'contains': h_contains, 'compare': h_compare,
         'builtin': h_builtin, 'unpack': h_unpack, 'getitem': h_getitem,
         'getslice': h_getslice, 'ext': h_ext}

common = dict(fields=FIELDS, hooks=HOOKS, axioms=[card_axioms], trusted=TRUSTED,
              class_modules={'TaskQueue': F})


def pre(c):
    return S(c.pre.self)


def post(c):
    return S(c.post.self)


def fresh(c):
    return (c.st.ghost.get('fresh') or [None])[-1]


E1 = z3.Const('e1', E)


# ---- add --------------------------------------------------------------------
def add_view(c):
    p, q = pre(c), post(c)
    en = fresh(c)
    if en is None:
        return z3.BoolVal(False)
    t = c.task.z
    e = E1
    return z3.And(
        live(q, en), prio(en) == c.prio, cnt(en) == p.next, q.task[en] == t,
        q.next == p.next + 1,
        z3.ForAll([e], live(q, e) == z3.Or(e == en, z3.And(live(p, e), p.task[e] != t))),
        z3.ForAll([e], z3.Implies(z3.And(live(q, e), e != en), q.task[e] == p.task[e])),
        # most recent entry: every other live entry has a smaller count
        z3.ForAll([e], z3.Implies(z3.And(live(q, e), e != en), cnt(e) < cnt(en))))


contract(F, 'TaskQueue.add', props=('C09',),
         params={'self': 'self', 'prio': 'real', 'task': task_kind},
         requires=lambda c: z3.And(rep_ok(pre(c)), c.task.z != REMOVED),
         ensures=[('rep-invariant', lambda c: rep_ok(post(c))),
                  ('view-gains-new-most-recent-entry-and-loses-old-one', add_view)],
         inline=('TaskQueue.remove',), **common)


# ---- remove ------------------------------------------------------------------
def remove_view(c):
    p, q = pre(c), post(c)
    t = c.task.z
    e = E1
    return z3.And(
        z3.ForAll([e], live(q, e) == z3.And(live(p, e), p.task[e] != t)),
        z3.ForAll([e], z3.Implies(live(q, e), q.task[e] == p.task[e])),
        q.next == p.next)


contract(F, 'TaskQueue.remove', props=('C09',),
         params={'self': 'self', 'task': task_kind},
         requires=lambda c: z3.And(rep_ok(pre(c)), c.task.z != REMOVED),
         ensures=[('rep-invariant', lambda c: rep_ok(post(c))),
                  ('others-undisturbed', remove_view)],
         **common)


# ---- pop ------------------------------------------------------------------------
def pop_result(c):
    p, q = pre(c), post(c)
    r = c.resultv
    if r.k != 'tuple' or len(r.items) != 2:
        return z3.BoolVal(False)
    rp, rt = r.items
    e, x = E1, z3.Const('x1', E)
    # the returned pair is the (prio, count)-minimum of the pre-state view
    return z3.Exists([e], z3.And(
        live(p, e), prio(e) == rp.z, p.task[e] == rt.z,
        z3.ForAll([x], z3.Implies(live(p, x), key_le(e, x))),
        z3.ForAll([x], live(q, x) == z3.And(live(p, x), x != e)),
        z3.ForAll([x], z3.Implies(live(q, x), q.task[x] == p.task[x]))))


def pop_inv(c, L):
    p, q = pre(c), post(c)
    x = z3.Const('x2', E)
    return z3.And(rep_ok(q), q.next == p.next,
                  z3.ForAll([x], live(q, x) == live(p, x)),
                  z3.ForAll([x], z3.Implies(live(q, x), q.task[x] == p.task[x])),
                  z3.ForAll([x], z3.Implies(q.inQ[x], p.inQ[x])))


def no_live(s):
    x = z3.Const('x3', E)
    return z3.ForAll([x], z3.Not(live(s, x)))


contract(F, 'TaskQueue.pop', props=('C09',),
         params={'self': 'self'},
         requires=lambda c: rep_ok(pre(c)),
         raises={'KeyError': lambda c: no_live(pre(c))},
         ensures=[('rep-invariant', lambda c: rep_ok(post(c))),
                  ('returns-and-removes-the-minimum', pop_result)],
         loops={0: Loop(early_exit=True, inv=pop_inv,
                        variant=lambda c, L: card(post(c).inQ),
                        havoc_fields=[('self', '__inQ'), ('self', '__R'), ('self', '__inF'),
                                      ('self', '_removed_counter')],
                        kinds={'prio': 'real', 'count': 'int', 'task': task_kind})},
         **common)


# ---- peek -----------------------------------------------------------------------
def peek_result(smallest):
    def f(c):
        p = pre(c)
        r = c.resultv
        if r.k != 'tuple' or len(r.items) != 2:
            return z3.BoolVal(False)
        rp, rt = r.items
        e, x = E1, z3.Const('x1', E)
        ext = key_le(e, x) if smallest else key_le(x, e)
        return z3.Exists([e], z3.And(live(p, e), prio(e) == rp.z, p.task[e] == rt.z,
                                     z3.ForAll([x], z3.Implies(live(p, x), ext))))
    return f


def unchanged(c):
    p, q = pre(c), post(c)
    return z3.And(p.inQ == q.inQ, p.task == q.task, p.inF == q.inF, p.next == q.next,
                  p.rc == q.rc)


for flag, nm in ((True, 'smallest'), (False, 'largest')):
    contract(F, 'TaskQueue.peek', props=('C09',),
             params={'self': 'self', 'smallest': 'const:%s' % flag},
             requires=lambda c: rep_ok(pre(c)),
             raises={'KeyError': lambda c: no_live(pre(c))},
             ensures=[('returns-the-%s' % nm, peek_result(flag)),
                      ('no-change', unchanged)],
             modifies=[], **common)
    # distinct registry keys for the two flag values
    from vf.pyvc.spec import REGISTRY
    REGISTRY['%s::TaskQueue.peek#%s' % (F, nm)] = REGISTRY.pop('%s::TaskQueue.peek' % F)
    REGISTRY['%s::TaskQueue.peek#%s' % (F, nm)].key = '%s::TaskQueue.peek#%s' % (F, nm)


# ---- key functions ----------------------------------------------------------------
def key_post(sign):
    def f(c):
        r = c.resultv
        e = c.item.z
        task = pre(c).task
        if r.k != 'list' or len(r.items) != 2:
            return z3.BoolVal(False)
        a, b = r.items
        isinf = bool(a.extra and 'inf' in a.extra and a.extra['inf'] == sign and
                     b.extra and 'inf' in b.extra and b.extra['inf'] == sign)
        if isinf:
            return task[e] == REMOVED
        return z3.And(task[e] != REMOVED, to_real(a) == prio(e), to_int(b) == cnt(e))
    return f


def entry_kind(eng, name):
    return V('entry', z=z3.Const(name, E))


contract(F, 'TaskQueue._small_key', props=('C09',),
         params={'self': 'self', 'item': entry_kind},
         ensures=[('removed-sorts-last-else-prio-count', key_post(1))], modifies=[], **common)
contract(F, 'TaskQueue._large_key', props=('C09',),
         params={'self': 'self', 'item': entry_kind},
         ensures=[('removed-sorts-first-else-prio-count', key_post(-1))], modifies=[], **common)


# ---- empty / clear ---------------------------------------------------------------
def subset_lemma(c):
    """finite sets: R ⊆ Q and card R = card Q imply Q ⊆ R (ghost lemma instance)"""
    p = pre(c)
    x = z3.Const('x4', E)
    y = z3.Const('x5', E)
    return z3.And(
        z3.Implies(z3.And(z3.ForAll([x], z3.Implies(p.R[x], p.inQ[x])), card(p.R) == card(p.inQ)),
                   z3.ForAll([x], z3.Implies(p.inQ[x], p.R[x]))),
        # extensionality: equal membership => equal cardinality
        z3.Implies(z3.ForAll([y], p.R[y] == p.inQ[y]), card(p.R) == card(p.inQ)))


contract(F, 'TaskQueue.empty', props=('C09',),
         params={'self': 'self'},
         requires=lambda c: z3.And(rep_ok(pre(c)), subset_lemma(c)),
         returns='bool',
         ensures=[('agrees-with-contents', lambda c: c.result == no_live(pre(c))),
                  ('no-change', unchanged)],
         modifies=[], **common)

contract(F, 'TaskQueue.clear', props=('C09',),
         params={'self': 'self'},
         ensures=[('rep-invariant', lambda c: rep_ok(post(c))),
                  ('view-empty', lambda c: no_live(post(c)))],
         inline=('TaskQueue._init',), **common)

contract(F, 'TaskQueue.__init__', props=('C09',),
         params={'self': 'self'},
         ensures=[('rep-invariant', lambda c: rep_ok(post(c))),
                  ('view-empty', lambda c: no_live(post(c)))],
         inline=('TaskQueue._init',), **common)


# ---- derived lemmas over the contracts ---------------------------------------------
def _pop_order():
    """two consecutive pops (no add in between) come out in (prio, count)
    order: time non-decreasing, FIFO among equal times, each item once."""
    inQ = z3.Const('Lq', SetE)
    task = z3.Const('Lt', z3.ArraySort(E, T))
    e1, e2, x = z3.Consts('Le1 Le2 Lx', E)
    lv = lambda y: z3.And(inQ[y], task[y] != REMOVED)
    lv2 = lambda y: z3.And(lv(y), y != e1)                # view after the first pop
    distinct = z3.ForAll([x, e2], z3.Implies(z3.And(inQ[x], inQ[e2], x != e2), cnt(x) != cnt(e2)))
    a = [distinct, lv(e1), z3.ForAll([x], z3.Implies(lv(x), key_le(e1, x))),
         lv2(e2), z3.ForAll([x], z3.Implies(lv2(x), key_le(e2, x)))]
    goal = z3.And(e2 != e1, prio(e1) <= prio(e2),
                  z3.Implies(prio(e1) == prio(e2), cnt(e1) < cnt(e2)))
    return a, goal


def _insertion_order_is_count_order():
    """counts are handed out increasingly: an entry added later has a larger
    count (postcondition of add: cnt(new) = old next, old entries < old next)"""
    n = z3.Int('Ln')
    e1, e2 = z3.Consts('Le1 Le2', E)
    a = [cnt(e1) < n, cnt(e2) == n]
    return a, cnt(e1) < cnt(e2)


lemma('pop-sequence-is-stable-priority-order', props=('C09',),
      over=(F + '::TaskQueue.pop', F + '::TaskQueue.add'),
      vcs=[('consecutive-pops-ordered-fifo-once', _pop_order),
           ('later-insertion-has-larger-count', _insertion_order_is_count_order)],
      note='history clause: rep_ok is established by __init__ and preserved by every '
           'operation (their rep-invariant obligations), hence holds after any finite history')


# ---- iteration: every live entry once, in stable priority order, the queue untouched ----------------------
# library contract of heapq.nsmallest(len(heap), heap) WITHOUT key: all entries of the heap in list order
# [prio, count, task], which for pairwise distinct counts (rep invariant) is the (prio, count) order:
# SORTED(i), 0 <= i < card, enumerates the heap entries bijectively with strictly increasing key.
SORTED = z3.Function('sorted_entry', z3.IntSort(), E)
RANK = z3.Function('rank_of_entry', E, z3.IntSort())


def key_lt(e1, e2):
    return z3.Or(prio(e1) < prio(e2), z3.And(prio(e1) == prio(e2), cnt(e1) < cnt(e2)))


def sorted_axioms(inQ):
    i, j = z3.Ints('i_s j_s')
    e = z3.Const('e_s', E)
    n = card(inQ)
    return [z3.ForAll([i], z3.Implies(z3.And(i >= 0, i < n), z3.And(inQ[SORTED(i)], RANK(SORTED(i)) == i))),
            z3.ForAll([e], z3.Implies(inQ[e], z3.And(RANK(e) >= 0, RANK(e) < n, SORTED(RANK(e)) == e))),
            z3.ForAll([i, j], z3.Implies(z3.And(i >= 0, i < j, j < n), key_lt(SORTED(i), SORTED(j))))]


def iter_ext(eng, mod, name, args, kwargs, st, node):
    if mod == 'heapq' and name == 'nsmallest' and len(args) == 2 and not kwargs \
            and args[1].k == 'seq' and args[1].extra.get('tq') == 'heap' and args[0].k == 'int':
        inQ = Gz(st, '__inQ', eng)
        n = card(inQ)
        x = z3.Const('x_it', E)
        y = z3.Const('y_it', E)
        eng.oblige(st, 'nsmallest-pre[all entries asked for; counts distinct]', 'call-pre', z3.And(
            args[0].z == n,
            z3.ForAll([x, y], z3.Implies(z3.And(inQ[x], inQ[y], x != y), cnt(x) != cnt(y)))), node)
        st.pc.extend(sorted_axioms(inQ))
        st.trace.append(('sorted-copy',))
        return [(st, V('seq', extra={'len': n, 'get': (lambda eng_, i, st_: V('entry', z=SORTED(i)))}))]
    return h_ext(eng, mod, name, args, kwargs, st, node)


def iter_since(trace):
    idx = -1
    for i, e in enumerate(trace):
        if e[0] == 'loop-head':
            idx = i
    return trace[idx + 1:] if idx >= 0 else None


def iter_pass(c, L):
    ev = iter_since(c.trace)
    if not ev:
        return z3.BoolVal(True)
    ys = [e for e in ev if e[0] == 'yield']
    s = S(c.post.self)
    e = SORTED(L.i - 1)
    if not ys:
        return s.task[e] == REMOVED                                   # a removed entry is skipped
    if len(ys) != 1 or ys[0][1].k != 'tuple' or len(ys[0][1].items) != 2:
        return z3.BoolVal(False)
    p, t = ys[0][1].items
    if p.k != 'real' or t.k != 'task':
        return z3.BoolVal(False)
    return z3.And(s.task[e] != REMOVED, p.z == prio(e), t.z == s.task[e])   # (time, task) of the i-th entry in order


def iter_post(c):
    # nothing of the queue is changed by iterating
    return z3.BoolVal(not c.st.ghost.get('written'))


contract(F, 'TaskQueue.__iter__', props=('C09', 'C07'), params={'self': 'self'},
         requires=lambda c: rep_ok(S(c.pre.self)),
         ensures=[('the-queue-is-not-modified', iter_post)],
         loops={0: Loop(inv=iter_pass, kinds={'prio': 'real', 'count': 'int', 'task': task_kind,
                                               'queue': (lambda eng, n: V('obj', oid='havoc'))})},
         modifies=[], opts={'generator_trace': True},
         **dict(common, hooks=dict(HOOKS, ext=iter_ext)), native=False,
         note='per pass: the i-th entry of the (prio, count) order is yielded as (time, task) iff it is not removed; '
              'with the enumeration axioms every live entry is yielded exactly once in stable priority order')
