"""Contracts for the control-bus commands (C17: "client objects speak the server command protocol and keep ids
consistent"; C16: a freed bus hands out nothing): sc3/synth/bus.py.

  a bus that was freed (no index) refuses every command with BusAlreadyFreed and sends NOTHING;
  setn(values)            /c_setn  index  len(values)  values...
  setn_at(offset, values) /c_setn  index+offset  len(values)  values...
  fill(value, channels)   /c_fill  index  channels  value
  get(action)   one channel: a one-shot responder for /c_set from this bus's server filtered by the bus index is set
                up FIRST, then /c_get index; the handler hands item 2 of the reply to the action;
                several channels: exactly getn(channels, action)
  getn(count, action)     one-shot responder for /c_setn [index] first, then /c_getn index count (count None: all the
                bus's channels); the handler hands items 3.. of the reply to the action

One message, through the bus's own server address; sending is a ghost event (encoding: C06/C07).  set / set_at /
set_pairs build their argument list by comprehension + flat: bounded only (driver C17).
"""
import z3
from vf.pyvc.spec import contract, REGISTRY
from vf.pyvc.values import *
from vf.pyvc import values as VV
from vf.pyvc.engine import Raised, Unsupported

F = 'sc3/synth/bus.py'
OWN = 'addr-of-the-bus-server'
REPLY = z3.Function('bus_reply_item', z3.IntSort(), VV.Any)
NREPLY = z3.Int('bus_reply.len')
NVAL = z3.Int('values.len')


def values_kind(eng, name):
    return V('seq', extra={'len': NVAL, 'facts': [NVAL >= 0], 'the_values': True,
                           'get': (lambda e_, i, s_: V('any', z3.Select(z3.Array('values.items', z3.IntSort(), VV.Any), i)))})


def h_getattr(eng, obj, name, st, node):
    if obj.k == 'obj' and obj.oid == 'self._server' and name == 'addr':
        return [(st, V('obj', oid=OWN))]
    if obj.k == 'obj' and obj.oid == OWN and name == 'send_msg':
        def send(eng, args, kwargs, st, node):
            st.trace.append(('send_msg', tuple(args)))
            return [(st, NONE)]
        return [(st, V('func', py=('spec', send)))]
    if obj.k == 'module' and name == 'OscFunc':
        return [(st, V('class', py='OscFunc'))]
    if obj.k == 'obj' and obj.extra and 'responder' in obj.extra and name == 'one_shot':
        def one_shot(eng, a, kw, st, node, _o=obj):
            st.trace.append(('one-shot', _o))
            return [(st, NONE)]
        return [(st, V('func', py=('spec', one_shot)))]
    return None


def h_construct(eng, f, args, kwargs, st, node):
    if f.k == 'class' and f.py == 'OscFunc':
        r = V('obj', oid='responder!%d' % next(eng.counter), extra={'responder': True})
        handled = None
        if args and args[0].k == 'func' and args[0].py[0] == 'closure':
            probe = st.fork()
            n0 = len(probe.trace)
            msg = V('seq', extra={'len': NREPLY, 'reply': True, 'get': (lambda e_, i, s_: V('any', REPLY(i)))})
            probe.pc.append(NREPLY >= 8)
            handled = []
            for st1, res in eng.call_closure(args[0], [msg, V('obj', oid='t'), V('obj', oid='a'), V('obj', oid='p')], {}, probe, node):
                handled.append(([e for e in st1.trace[n0:] if e[0] == 'action-called'], isinstance(res, Raised)))
        st.trace.append(('responder', tuple(args), dict(kwargs), r, handled))
        return [(st, r)]
    return None


def h_call(eng, f, args, kwargs, st, node):
    if f.k == 'obj' and f.oid == 'action':
        st.trace.append(('action-called', tuple(args)))
        return [(st, NONE)]
    return None


def getn_pol(eng, selfv, args, kwargs, st, node):
    st.trace.append(('delegated-to-getn', tuple(args)))
    return [(st, NONE)]


HOOKS = {'getattr': h_getattr, 'construct': h_construct, 'call': h_call}
BUS = {'_index': 'int', '_channels': 'int', '_server': 'obj'}
FREED = {'_index': 'none', '_channels': 'int', '_server': 'obj'}


def sends(c):
    return [e for e in c.trace if e[0] == 'send_msg']


def one_msg(c, address, *rest):
    s = sends(c)
    if len(s) != 1 or [e for e in c.trace if e[0] in ('delegated-to-getn',)]:
        return None
    a = s[0][1]
    if len(a) != 1 + len(rest) or a[0].k != 'str' or a[0].py != address:
        return None
    return a[1:]


def is_values_star(v, c):
    return v.k == 'star' and v.extra['seq'] is c._params['values']


def variant(qual, tag):
    key = '%s::%s#%s' % (F, qual, tag)
    REGISTRY[key] = REGISTRY.pop('%s::%s' % (F, qual))
    REGISTRY[key].key = key


def freed(qual, params):
    contract(F, qual, props=('C17', 'C16'), params=params,
             raises={'BusAlreadyFreed': lambda c: z3.BoolVal(True)},
             ensures=[('a-freed-bus-never-returns-normally', lambda c: z3.BoolVal(False))],
             on_raise=[('refused-and-nothing-sent', lambda c: z3.BoolVal(
                 not [e for e in c.trace if e[0] in ('send_msg', 'responder', 'delegated-to-getn')]))],
             modifies=[], fields={'ControlBus': FREED}, hooks=HOOKS, class_modules={'ControlBus': F}, native=False,
             policies={'ControlBus.getn': getn_pol})
    variant(qual, 'freed')


def live(qual, params, name, post, extra_post=None, policies=None):
    ens = [(name, post)] + ([extra_post] if extra_post else [])
    contract(F, qual, props=('C17', 'C16'), params=params, ensures=ens,
             modifies=[], fields={'ControlBus': BUS}, hooks=HOOKS, class_modules={'ControlBus': F}, native=False,
             policies=policies or {})
    variant(qual, 'live')


# ---- setn / setn_at / fill -------------------------------------------------------------------------------------
def setn_post(offset):
    def post(c):
        a = one_msg(c, '/c_setn', 1, 2, 3)
        if a is None or a[0].k != 'int' or a[1].k != 'int' or not is_values_star(a[2], c):
            return z3.BoolVal(False)
        base = c.pre.self._index + (c.offset if offset else 0)
        return z3.And(a[0].z == base, a[1].z == NVAL)
    return post


P_SETN = {'self': 'self', 'values': values_kind}
P_SETN_AT = {'self': 'self', 'offset': 'int', 'values': values_kind}
live('ControlBus.setn', P_SETN, 'one-/c_setn:index,count,the-values', setn_post(False))
freed('ControlBus.setn', P_SETN)
live('ControlBus.setn_at', P_SETN_AT, 'one-/c_setn:index+offset,count,the-values', setn_post(True))
freed('ControlBus.setn_at', P_SETN_AT)


def fill_post(c):
    a = one_msg(c, '/c_fill', 1, 2, 3)
    if a is None or a[0].k != 'int' or a[1] is not c._params['channels'] or a[2] is not c._params['value']:
        return z3.BoolVal(False)
    return a[0].z == c.pre.self._index


P_FILL = {'self': 'self', 'value': 'obj', 'channels': 'obj'}
live('ControlBus.fill', P_FILL, 'one-/c_fill:index,channels,value', fill_post)
freed('ControlBus.fill', P_FILL)


# ---- get / getn -------------------------------------------------------------------------------------------------
def asked(c, request, reply, first_item, n_request_args):
    t = [e for e in c.trace if e[0] in ('responder', 'one-shot', 'send_msg', 'delegated-to-getn')]
    if [e[0] for e in t] != ['responder', 'one-shot', 'send_msg']:
        return None
    rsp, one, snd = t
    pos, kw = rsp[1], rsp[2]
    tpl = kw.get('arg_template')
    ok = (len(pos) == 3 and pos[1].k == 'str' and pos[1].py == reply and pos[2].k == 'obj' and pos[2].oid == OWN
          and one[1] is rsp[3] and tpl is not None and tpl.k == 'list' and tpl.items is not None and len(tpl.items) == 1
          and tpl.items[0].k == 'int' and len(snd[1]) == 1 + n_request_args and snd[1][0].k == 'str'
          and snd[1][0].py == request and snd[1][1].k == 'int'
          and rsp[4] is not None and len(rsp[4]) == 1 and not rsp[4][0][1] and len(rsp[4][0][0]) == 1
          and len(rsp[4][0][0][0][1]) == 1)
    if not ok:
        return None
    handed = rsp[4][0][0][0][1][0]
    return tpl.items[0].z, snd[1], handed


def get_post(c):
    one_channel = c.pre.self._channels == 1
    dele = [e for e in c.trace if e[0] == 'delegated-to-getn']
    if dele:
        ok = (len(dele) == 1 and not sends(c) and not [e for e in c.trace if e[0] == 'responder']
              and len(dele[0][1]) == 2 and dele[0][1][0].k == 'int' and dele[0][1][1] is c._params['action'])
        return z3.And(z3.Not(one_channel), dele[0][1][0].z == c.pre.self._channels) if ok else z3.BoolVal(False)
    r = asked(c, '/c_get', '/c_set', 2, 1)
    if r is None:
        return z3.BoolVal(False)
    tpl_index, snd, handed = r
    return z3.And(one_channel, tpl_index == c.pre.self._index, snd[1].z == c.pre.self._index,
                  handed.z == REPLY(2) if handed.k == 'any' else z3.BoolVal(False))


P_GET = {'self': 'self', 'action': 'obj'}
live('ControlBus.get', P_GET, 'one-channel:responder-first-then-/c_get-index;else-exactly-getn(channels,action)', get_post,
     policies={'ControlBus.getn': getn_pol})
freed('ControlBus.get', P_GET)


def getn_post(c):
    r = asked(c, '/c_getn', '/c_setn', 3, 2)
    if r is None:
        return z3.BoolVal(False)
    tpl_index, snd, handed = r
    cnt = snd[2]
    if c.kinds['count'] == 'none':
        count_ok = cnt.z == c.pre.self._channels if cnt.k == 'int' else z3.BoolVal(False)     # all the bus's channels
    else:
        count_ok = cnt.z == c.count if cnt.k == 'int' else z3.BoolVal(False)
    so = handed.extra.get('slice_of') if handed.k == 'seq' and handed.extra else None
    if so is None or not so[0].get('reply'):
        return z3.BoolVal(False)
    return z3.And(tpl_index == c.pre.self._index, snd[1].z == c.pre.self._index, count_ok,
                  z3.Implies(NREPLY >= 8, z3.And(so[1] == 3, handed.extra['len'] == NREPLY - 3)))


P_GETN = {'self': 'self', 'count': ['none', 'int'], 'action': 'obj'}
live('ControlBus.getn', P_GETN, 'responder-first-then-/c_getn-index-count;the-handler-hands-over-the-values', getn_post)
freed('ControlBus.getn', P_GETN)
