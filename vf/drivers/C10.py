"""C10  Real-time and non-real-time modes run the same program identically;
seeded determinism.

Programs are data (vf/specs/timeline.py): routines, nested play on other
clocks, tempo changes, pause/resume, Condition/FlowVar, seeded random draws
through sc3.base.builtins, bundle sends captured at the OSC interface.  Each
program is executed by the SAME interpreter once under NrtMain and once under
RtMain with injected wake-up jitter, each in a fresh subprocess.

Sub-checks
  rt_vs_nrt       per routine: same sequence of (event, value), logical times
                  relative to program start within 2**-32 s; same bundles with
                  timetags relative to start within 2**-31 s (both sides
                  truncate to the 2**-32 timetag grid independently)
  nrt_bytes       two fresh non-real-time processes give byte-identical .raw
                  scores and identical observations
  seed_isolation  the values a seeded routine (and the routines that inherit
                  its generator) draws do not change when other routines draw
                  many numbers in between (both modes)

Only programs whose result is independent of the physical interleaving are
used: either all routines run on one clock (one thread, logical order), or all
accesses of different routines to one shared object (routine being
paused/resumed, condition, flow variable, tempo clock, random generator) are
at least MARGIN logical seconds apart, and a real-time run only counts when
every measured wake-up lateness stayed below MAX_LATE < MARGIN, so that the
physical order of those accesses equals their logical order.  A mismatch is
reported only if it reproduces in two more fresh real-time runs.
"""
import json

from vf.common import Report, driver_main, wants
from vf.specs import timeline as tl
from vf.drivers._rt_child import run_children

MARGIN = 0.15
MAX_LATE = 0.12
T_TOL = 2.0 ** -32
B_TOL = 2.0 ** -31
MAX_DUR = 2.5
KNOWN = {'resume_pending': 'C10.rt-vs-nrt:resume-pending-wakeup',
         'tempo_pending': 'C10.rt-vs-nrt:tempo-change-pending'}
SHARED = {'pause', 'resume', 'cond', 'flow', 'tempo'}


# --------------------------------------------------------------------------
# programs
# --------------------------------------------------------------------------

def dedicated_programs():
    """Minimal programs for the two known RT/NRT divergences (first = smallest)
    and their harmless twins."""
    progs = []
    # resume while the wake-up that was pending at pause() is still pending
    progs.append({'id': 'dA0', 'start_offset': 0, 'clocks': {}, 'root': 'main',
                  'routines': {
                      'main': {'clock': 'sys', 'seed': 1, 'steps': [
                          ['spawn', 'a', None], ['yield', 0.2], ['pause', 'a'],
                          ['yield', 0.3], ['resume', 'a'], ['yield', 1.0]]},
                      'a': {'seed': 2, 'steps': [
                          ['yield', 1.0], ['yield', 0.3], ['yield', 0.3],
                          ['yield', 0.3]]}}})
    progs.append({'id': 'dA1', 'start_offset': 0.05, 'clocks': {'T': 2},
                  'root': 'main',
                  'routines': {
                      'main': {'clock': 'T', 'seed': 1, 'steps': [
                          ['spawn', 'a', None], ['yield', 0.4], ['pause', 'a'],
                          ['yield', 0.4], ['resume', 'a'], ['yield', 1.0]]},
                      'a': {'seed': 2, 'steps': [
                          ['rand', 'rrand', 0, 99], ['yield', 1.6],
                          ['rand', 'rrand', 0, 99], ['yield', 0.5],
                          ['rand', 'rrand', 0, 99], ['yield', 0.5],
                          ['rand', 'rrand', 0, 99]]}}})
    # twin: resume after the pending wake-up was dropped
    progs.append({'id': 'dA2', 'start_offset': 0, 'clocks': {}, 'root': 'main',
                  'routines': {
                      'main': {'clock': 'sys', 'seed': 1, 'steps': [
                          ['spawn', 'a', None], ['yield', 0.2], ['pause', 'a'],
                          ['yield', 0.6], ['resume', 'a'], ['yield', 0.5]]},
                      'a': {'seed': 2, 'steps': [
                          ['yield', 0.5], ['yield', 0.25], ['yield', 0.25]]}}})
    # tempo change while a task of the clock is pending
    progs.append({'id': 'dB0', 'start_offset': 0, 'clocks': {'T': 1},
                  'root': 'main',
                  'routines': {
                      'main': {'clock': 'sys', 'seed': 1, 'steps': [
                          ['spawn', 'a', 'T'], ['yield', 0.3],
                          ['tempo', 'T', 2]]},
                      'a': {'seed': 2, 'steps': [['yield', 1.0], ['yield', 0.5]]}}})
    progs.append({'id': 'dB1', 'start_offset': 0.05, 'clocks': {'T': 2},
                  'root': 'main',
                  'routines': {
                      'main': {'clock': 'sys', 'seed': 1, 'steps': [
                          ['spawn', 'a', 'T'], ['yield', 0.3],
                          ['tempo', 'T', 0.5], ['send', 0.2, 1]]},
                      'a': {'seed': 2, 'steps': [
                          ['yield', 1.2], ['send', 0.2, 1], ['yield', 0.1]]}}})
    # twin: the routine changes the tempo of its own clock, nothing pending
    progs.append({'id': 'dB2', 'start_offset': 0, 'clocks': {'T': 1},
                  'root': 'main',
                  'routines': {
                      'main': {'clock': 'T', 'seed': 1, 'steps': [
                          ['yield', 0.3], ['tempo', 'T', 2], ['yield', 0.6],
                          ['send', 0.0, 1], ['tempo', 'T', 0.5], ['yield', 0.2]]}}})
    # two routines due at the same logical time on one clock, one of them yielding 0: it goes
    # BEHIND the other one (they draw from the generator they both inherit, so the order shows
    # in the values)
    progs.append({'id': 'dZ0', 'start_offset': 0, 'clocks': {}, 'root': 'main',
                  'routines': {
                      'main': {'clock': 'sys', 'seed': 5, 'steps': [
                          ['spawn', 'a', None], ['spawn', 'b', None], ['yield', 1.0]]},
                      'a': {'seed': None, 'steps': [
                          ['rand', 'rrand', 0, 999], ['yield', 0], ['rand', 'rrand', 0, 999],
                          ['yield', 0.5], ['rand', 'rrand', 0, 999], ['yield', 0],
                          ['rand', 'rrand', 0, 999]]},
                      'b': {'seed': None, 'steps': [
                          ['rand', 'rrand', 0, 999], ['yield', 0.5], ['rand', 'rrand', 0, 999],
                          ['send', 0.1, 1]]}}})
    # seeds that are not numbers: str and bytes seeds are valid seeds of a generator
    progs.append({'id': 'dS0', 'start_offset': 0, 'clocks': {}, 'root': 'main',
                  'routines': {
                      'main': {'clock': 'sys', 'seed': 'melody-A', 'steps': [
                          ['rand', 'rrand', 0, 999], ['spawn', 'a', None], ['yield', 0.25],
                          ['rand', 'rand', 1.0], ['send', 0.1, 1], ['yield', 0.25]]},
                      'a': {'seed': 'bass line', 'steps': [
                          ['rand', 'rrand', 0, 999], ['yield', 0.125], ['rand', 'rand', 1.0]]}}})
    return progs


def usable(prog):
    """(ok, ref): the program is inside the fragment, deterministic and short."""
    try:
        ref = tl.reference(prog)
    except tl.ProgramError:
        return False, None
    if float(ref['last']) > MAX_DUR:
        return False, ref
    f = ref['features']
    if 'resume_pending' in f and 'tempo_pending' in f:
        return False, ref
    if not tl.confluent(prog):
        return False, ref
    if tl.races(prog, MARGIN, ref):
        return False, ref
    return True, ref


def make_programs(rng, n, max_known):
    """n usable programs, the interaction kinds in rotation."""
    progs = []
    known = 0
    seen = set()
    kinds = ['pause', 'cond', 'flow', 'tempo', 'plain']
    for i in range(n):
        want = kinds[i % len(kinds)]
        for tries in range(3000):
            multi = rng.random() < 0.65
            p = tl.gen_interacting(rng, 'g%d' % len(progs), multi=multi,
                                   want=want, app_leaf=(rng.random() < 0.1))
            ok, ref = usable(p)
            if not ok:
                continue
            f = ref['features']
            if want == 'pause' and not {'pause', 'resume'} <= f:
                continue
            if want in ('cond', 'flow', 'tempo') and want not in f:
                continue
            if f & set(KNOWN):
                if known >= max_known:
                    continue
            c = json.dumps({k: v for k, v in p.items() if k != 'id'},
                           sort_keys=True)
            if c in seen:
                continue
            if f & set(KNOWN):
                known += 1
            seen.add(c)
            progs.append(p)
            break
    return progs


def isolation_programs(rng, n):
    """Pairs (P, P') : P' = P plus noise routines that draw many numbers."""
    pairs = []
    for i in range(n):
        sa = rng.randint(1, 10 ** 6)
        s0 = rng.randint(1, 10 ** 6)
        clock = rng.choice(['sys', 'T'])
        t = rng.choice([1, 2, 0.5])
        u = 0.05 * (t if clock == 'T' else 1)
        draws = [tl._draw(rng) for _ in range(6)]
        a_steps = [draws[0], draws[1], ['spawn', 'c', None], ['yield', 2 * u],
                   draws[2], ['yield', 2 * u], draws[3], ['yield', u], draws[4]]
        c_steps = [draws[5], ['yield', 3 * u], draws[0], ['yield', 3 * u],
                   draws[1]]
        base = {'start_offset': 0, 'clocks': {'T': t} if clock == 'T' else {},
                'root': 'main'}
        main_p = [['spawn', 'a', None], ['yield', 8 * u]]
        main_q = [['rand', 'rrand', 0, 9], ['spawn', 'n1', None],
                  ['spawn', 'a', None], ['spawn', 'n2', None],
                  ['rand', 'rand', 1.0], ['yield', 4 * u],
                  ['rand', 'rand', 1.0], ['yield', 4 * u]]
        noise = []
        for k in range(8):
            noise += [tl._draw(rng) for _ in range(6)] + [['yield', u]]
        P = dict(base, id='iP%d' % i, routines={
            'main': {'clock': clock, 'seed': s0, 'steps': main_p},
            'a': {'seed': sa, 'steps': a_steps},
            'c': {'seed': None, 'steps': c_steps}})
        Q = dict(base, id='iQ%d' % i, routines={
            'main': {'clock': clock, 'seed': s0, 'steps': main_q},
            'a': {'seed': sa, 'steps': a_steps},
            'c': {'seed': None, 'steps': c_steps},
            'n1': {'seed': None, 'steps': noise},      # inherits main's generator
            'n2': {'seed': rng.randint(1, 10 ** 6), 'steps': noise}})
        pairs.append((P, Q))
    return pairs


# --------------------------------------------------------------------------
# running
# --------------------------------------------------------------------------

def run_mode(progs, mode, seed, jitter=20, busy=2, nchildren=12, env=None):
    if not progs:
        return {}, []
    nchildren = max(1, min(nchildren, len(progs)))
    # longest first, round robin
    order = sorted(progs, key=lambda p: -float(tl.reference(p)['last']))
    groups = [order[i::nchildren] for i in range(nchildren)]
    inputs = [{'mode': mode, 'seed': seed + i, 'jitter_ms': jitter,
               'busy': busy, 'env': env or {},
               'jobs': [{'kind': 'programs', 'progs': g, 'concurrent': False}]}
              for i, g in enumerate(groups)]
    outs = run_children(inputs)
    by_id, errors = {}, []
    for o in outs:
        if o.get('error'):
            errors.append(o['error'])
            continue
        for job in o['results']:
            for res in job:
                by_id[res['id']] = res
    return by_id, errors


def max_late(res):
    xs = [o['phys'] - o['secs'] for o in res['obs']]
    return max(xs) if xs else 0.0


def needs_order(prog, ref):
    return len(tl.clock_names(prog)) > 1 and bool(ref['features'] & SHARED)


def per_routine(res):
    out = {}
    if res.get('start') is None:
        return out
    for o in res['obs']:
        if o['r'] and o['kind'] != 'segend':
            out.setdefault(o['r'], []).append(
                (o['kind'], o['secs'] - res['start'], o['val']))
    return out


def routine_clocks(prog):
    out = {prog['root']: prog['routines'][prog['root']].get('clock', 'sys')}
    changed = True
    while changed:
        changed = False
        for rn, spec in prog['routines'].items():
            if rn not in out:
                continue
            for st in spec['steps']:
                if st[0] == 'spawn' and st[1] not in out:
                    out[st[1]] = st[2] if st[2] is not None else out[rn]
                    changed = True
    return out


def compare(prog, nrt, rt):
    """Relational contract NRT vs RT.  Returns list of (clause, what, obs, exp)."""
    out = []
    a, b = per_routine(nrt), per_routine(rt)
    rclk = routine_clocks(prog)
    for r in sorted(set(a) | set(b)):
        ea, eb = a.get(r, []), b.get(r, [])
        timed = rclk.get(r) != 'app'
        ka = [(k, v) for k, _, v in ea]
        kb = [(k, v) for k, _, v in eb]
        if ka != kb:
            i = 0
            while i < min(len(ka), len(kb)) and ka[i] == kb[i]:
                i += 1
            clause = 'values' if (i < min(len(ka), len(kb))
                                  and ka[i][0] == kb[i][0]) else 'events'
            out.append((clause,
                        'routine %s: event %d is %r in non-real-time and %r in '
                        'real-time (%d vs %d events)'
                        % (r, i, ea[i] if i < len(ea) else None,
                           eb[i] if i < len(eb) else None, len(ea), len(eb)),
                        {'rt': eb[max(0, i - 1):i + 2]},
                        {'nrt': ea[max(0, i - 1):i + 2]}))
            continue
        if timed:
            for i, (x, y) in enumerate(zip(ea, eb)):
                if abs(x[1] - y[1]) > T_TOL:
                    out.append(('times',
                                'routine %s: event %d (%s) at start%+.9f in '
                                'non-real-time and start%+.9f in real-time'
                                % (r, i, x[0], x[1], y[1]), y[1], x[1]))
                    break
    ba, bb = {}, {}
    for src, dst in ((nrt, ba), (rt, bb)):
        for bd in src['bundles']:
            dst.setdefault(bd['r'], []).append((bd['tag'], bd['rel']))
    for r in sorted(set(ba) | set(bb)):
        if rclk.get(r) == 'app':
            continue
        la, lb = sorted(ba.get(r, []), key=lambda x: (x[0],)), \
            sorted(bb.get(r, []), key=lambda x: (x[0],))
        if [t for t, _ in la] != [t for t, _ in lb]:
            out.append(('bundles', 'routine %s: bundles %r in non-real-time, '
                        '%r in real-time' % (r, la, lb), lb, la))
            continue
        for (t, x), (_, y) in zip(la, lb):
            if x is None or y is None or abs(x - y) > B_TOL:
                out.append(('bundles',
                            'routine %s: bundle %r has timetag start%+.10f in '
                            'non-real-time and start%+.10f in real-time'
                            % (r, t, x, y), y, x))
                break
    return out


def deviates(prog, res, ref):
    """Which routines deviate from the reference (diagnosis only)."""
    obs = per_routine(res)
    bad = []
    for r, evs in ref['events'].items():
        got = obs.get(r, [])
        exp = [(e['kind'], float(e['secs'])) for e in evs]
        g = [(k, t) for k, t, _ in got]
        if len(g) != len(exp) or any(
                a[0] != b[0] or abs(a[1] - b[1]) > 1e-6 for a, b in zip(g, exp)):
            bad.append(r)
    return bad


def key_for(ref, clause):
    for f, key in KNOWN.items():
        if f in ref['features']:
            return key
    return 'C10.rt-vs-nrt:' + clause


def differential(rep, progs, seed):
    refs = {p['id']: tl.reference(p) for p in progs}
    nrt, e1 = run_mode(progs, 'nrt', seed, nchildren=3)
    rt, e2 = run_mode(progs, 'rt', seed, nchildren=13)
    for e in e1 + e2:
        rep.error('C10 child: ' + e[-1500:])
    st = {'n': 0, 'events': 0, 'bundles': 0, 'invalid': 0, 'late': 0.0,
          'inconclusive': 0, 'feat': {}}
    pending = []
    for p in progs:
        a, b = nrt.get(p['id']), rt.get(p['id'])
        if a is None or b is None:
            continue
        ref = refs[p['id']]
        for f in ref['features']:
            st['feat'][f] = st['feat'].get(f, 0) + 1
        st['n'] += 1
        st['events'] += sum(len(v) for v in per_routine(a).values())
        st['bundles'] += len(a['bundles'])
        late = max_late(b)
        st['late'] = max(st['late'], late)
        valid = not (needs_order(p, ref) and late > MAX_LATE)
        if not valid:
            st['invalid'] += 1
        problems = compare(p, a, b) if valid else []
        if problems or not valid:
            pending.append({'p': p, 'a': a, 'problems': problems,
                            'confirms': 0})
    # A mismatch counts when it was seen in a conclusive run and seen again in
    # every later conclusive run (at least one); fresh children, the last
    # round without injected stress.
    for attempt, (jit, bz) in enumerate(((20, 2), (0, 0), (0, 0))):
        todo = [x for x in pending if x['confirms'] < 1 or attempt < 2]
        if not todo:
            break
        again, errs = run_mode([x['p'] for x in todo], 'rt',
                               seed + 500 * (attempt + 1), jit, bz, 16)
        for x in todo:
            p = x['p']
            ref = refs[p['id']]
            b = again.get(p['id'])
            if b is None:
                continue
            if needs_order(p, ref) and max_late(b) > MAX_LATE:
                st['invalid'] += 1
                continue                        # inconclusive run
            p2 = compare(p, x['a'], b)
            if not p2:
                x['problems'] = None            # does not reproduce: drop
                continue
            if x['problems'] is None:
                continue
            if not x['problems']:
                x['problems'] = p2              # first conclusive run
            else:
                seen = {q[0] for q in p2}
                x['problems'] = [q for q in x['problems'] if q[0] in seen]
                if x['problems']:
                    x['confirms'] += 1
                else:
                    x['problems'] = None
        pending = [x for x in pending if x['problems'] is not None]
    for x in sorted(pending, key=lambda x: sum(
            len(s['steps']) for s in x['p']['routines'].values())):
        p, a = x['p'], x['a']
        ref = refs[p['id']]
        if not x['problems'] or x['confirms'] < 1:
            st['inconclusive'] += 1
            continue
        q = x['problems'][0]
        side = deviates(p, a, ref)
        rep.violation(
            obligation='C10.rt_vs_nrt.' + q[0],
            what='%s%s' % (q[1], (' [the non-real-time run deviates from the '
                                  'reference semantics for %s]' % side)
                           if side else ''),
            input={'program': p, 'features': sorted(ref['features'])},
            observed=q[2], expected=q[3], key=key_for(ref, q[0]),
            replay={'func': 'rt_vs_nrt', 'args': p})
    return st


# --------------------------------------------------------------------------

def strip(res):
    return [(o['r'], o['kind'], o['val'], o['secs']) for o in res['obs']
            if o['kind'] != 'segend']


def main(rep):
    quick = rep.tier == 'quick'
    rng = rep.rng
    progs = None
    if wants(rep, 'rt_vs_nrt') or wants(rep, 'nrt_bytes'):
        progs = dedicated_programs() + make_programs(
            rng, 36 if quick else 300, 4 if quick else 30)
    if wants(rep, 'rt_vs_nrt'):
        st = differential(rep, progs, rep.seed)
        if st['inconclusive']:
            rep.note('C10.rt_vs_nrt: %d programs had no conclusive real-time '
                     'run (lateness above %.0f ms or mismatch not reproduced); '
                     'not reported' % (st['inconclusive'], MAX_LATE * 1000))
        rep.bounded(
            name='rt_vs_nrt',
            function='NrtMain vs RtMain over sc3.base.clock/stream/builtins/'
                     '_oscinterface',
            bound='%d programs (8 dedicated + generated: 2-5 routines on '
                  'SystemClock/TempoClock(0.5,1,2,3)[/AppClock leaf], yields '
                  'on a 50 ms grid, <=%.1f s, one interaction of kind '
                  'pause-resume/Condition/FlowVar/tempo, seeded draws, '
                  'bundles), each run once per mode in fresh processes; RT '
                  'under 0-20 ms jitter + 2 busy threads'
                  % (len(progs), MAX_DUR),
            evaluations=st['n'], distinct_nontrivial=st['n'],
            rule='per routine identical (event,value) sequences, times within '
                 '2**-32 s, bundle timetags within 2**-31 s; features: %r'
                 % (st['feat'],),
            samples=progs[8:11],
            extra={'events_compared': st['events'],
                   'bundles_compared': st['bundles'],
                   'rt_runs_discarded_for_lateness': st['invalid'],
                   'max_rt_lateness_s': round(st['late'], 4)})
    if wants(rep, 'nrt_bytes'):
        # "fresh" includes the interpreter's hash seed: pinned to two different values
        a, e1 = run_mode(progs, 'nrt', 1, nchildren=4, env={'PYTHONHASHSEED': '11'})
        b, e2 = run_mode(progs, 'nrt', 2, nchildren=3, env={'PYTHONHASHSEED': '2357'})
        for e in e1 + e2:
            rep.error('C10 child: ' + e[-1500:])
        n = nbytes = 0
        for p in sorted(progs, key=lambda p: len(json.dumps(p))):
            x, y = a.get(p['id']), b.get(p['id'])
            if x is None or y is None:
                continue
            n += 1
            nbytes += len(x['raw_hex']) // 2
            if x['raw_hex'] != y['raw_hex']:
                rep.violation(
                    obligation='C10.nrt_bytes.raw',
                    what='two fresh non-real-time runs give different scores '
                         '(%d vs %d bytes)' % (len(x['raw_hex']) // 2,
                                               len(y['raw_hex']) // 2),
                    input={'program': p}, observed=y['raw_hex'][:400],
                    expected=x['raw_hex'][:400], key='C10.nrt-bytes:raw',
                    replay={'func': 'nrt_bytes', 'args': p})
            elif strip(x) != strip(y):
                rep.violation(
                    obligation='C10.nrt_bytes.values',
                    what='two fresh non-real-time runs observe different '
                         'values/times', input={'program': p},
                    observed=strip(y)[:10], expected=strip(x)[:10],
                    key='C10.nrt-bytes:values',
                    replay={'func': 'nrt_bytes', 'args': p})
        rep.bounded(
            name='nrt_bytes', function='NrtMain.process().raw',
            bound='the %d programs of rt_vs_nrt, two fresh processes each'
                  % len(progs),
            evaluations=n, distinct_nontrivial=n,
            rule='byte-identical .raw and identical observation lists',
            samples=progs[:2], extra={'score_bytes_compared': nbytes})
    if wants(rep, 'seed_isolation'):
        pairs = isolation_programs(rng, 8 if quick else 60)
        flat = [x for pq in pairs for x in pq]
        n = 0
        vals = 0
        for mode in ('nrt', 'rt'):
            got, errs = run_mode(flat, mode, 3, nchildren=8 if mode == 'rt' else 2)
            for e in errs:
                rep.error('C10 child: ' + e[-1500:])
            fam = lambda res: [(o['r'], o['val']) for o in res['obs']
                               if o['r'] in ('a', 'c') and o['kind'] == 'rand']
            noise_of = lambda res: sum(1 for o in res['obs'] if o['r'] in ('n1', 'n2', 'main')
                                       and o['kind'] == 'rand')
            # a real-time run cut short on a loaded machine is not an observation: such pairs are run
            # once more on their own (no jitter, no busy threads) before the vacuity guard below applies
            short = [x for P, Q in pairs if got.get(P['id']) and got.get(Q['id'])
                     and (not fam(got[P['id']]) or noise_of(got[Q['id']]) < 50) for x in (P, Q)]
            if short:
                again, errs2 = run_mode(short, mode, 5, 0, 0, nchildren=2)
                for e in errs2:
                    rep.error('C10 child: ' + e[-1500:])
                got.update(again)
            for P, Q in pairs:
                x, y = got.get(P['id']), got.get(Q['id'])
                if x is None or y is None:
                    continue
                n += 1
                fx, fy = fam(x), fam(y)
                vals += len(fx)
                nnoise = sum(1 for o in y['obs'] if o['r'] in ('n1', 'n2', 'main')
                             and o['kind'] == 'rand')
                if not fx or nnoise < 50:
                    raise RuntimeError('harness: isolation program drew nothing')
                if fx != fy:
                    i = 0
                    while i < min(len(fx), len(fy)) and fx[i] == fy[i]:
                        i += 1
                    rep.violation(
                        obligation='C10.seed_isolation',
                        what='[%s] routine a (seed %r) and its child draw %r... '
                             'alone but %r... when other routines draw %d '
                             'numbers in between (first difference at draw %d)'
                             % (mode, P['routines']['a']['seed'], fx[i:i + 2],
                                fy[i:i + 2], nnoise, i),
                        input={'program': P, 'with_noise': Q, 'mode': mode},
                        observed=fy[:8], expected=fx[:8],
                        key='C10.seed-isolation:%s' % mode,
                        replay={'func': 'seed_isolation',
                                'args': {'P': P, 'Q': Q, 'mode': mode}})
        rep.bounded(
            name='seed_isolation',
            function='stream.TimeThread.rand_seed / builtins random functions',
            bound='%d program pairs x 2 modes: seeded routine + child that '
                  'inherits its generator, with and without 2 noise routines '
                  '(one sharing the root generator, one with its own seed) '
                  'drawing ~100 numbers in between' % len(pairs),
            evaluations=n, distinct_nontrivial=n,
            rule='the (routine, value) sequence of the seeded family is '
                 'identical with and without the noise',
            samples=[pairs[0][1]], extra={'draws_compared': vals})
    rep.note('C10: bundles are sent with a numeric latency (latency None is '
             '"immediately" in real time and "now" in a score, not comparable); '
             'AppClock routines are leaves and only their values are compared '
             '(documented drift in real time); cross-clock order at equal '
             'logical times is never compared.')


def replay(case, rep):
    r = case.get('replay') or {}
    func = r.get('func', 'rt_vs_nrt')
    args = r.get('args')
    if func == 'rt_vs_nrt':
        p = args
        ref = tl.reference(p)
        a, _ = run_mode([p], 'nrt', 1)
        for attempt in range(3):
            b, _ = run_mode([p], 'rt', 1 + attempt, 20 if attempt == 0 else 0,
                            2 if attempt == 0 else 0)
            if p['id'] in b and not (needs_order(p, ref)
                                     and max_late(b[p['id']]) > MAX_LATE):
                break
        else:
            return None
        problems = compare(p, a[p['id']], b[p['id']])
        for q in problems[:1]:
            rep.violation(obligation='C10.rt_vs_nrt.' + q[0], what=q[1],
                          input={'program': p}, observed=q[2], expected=q[3],
                          key=key_for(ref, q[0]))
        return not problems
    if func == 'nrt_bytes':
        a, _ = run_mode([args], 'nrt', 1)
        b, _ = run_mode([args], 'nrt', 2)
        same = a[args['id']]['raw_hex'] == b[args['id']]['raw_hex']
        if not same:
            rep.violation(obligation='C10.nrt_bytes.raw', what='scores differ',
                          input={'program': args}, key='C10.nrt-bytes:raw')
        return same
    if func == 'seed_isolation':
        got, _ = run_mode([args['P'], args['Q']], args['mode'], 3)
        fam = lambda res: [(o['r'], o['val']) for o in res['obs']
                           if o['r'] in ('a', 'c') and o['kind'] == 'rand']
        same = fam(got[args['P']['id']]) == fam(got[args['Q']['id']])
        if not same:
            rep.violation(obligation='C10.seed_isolation',
                          what='seeded family draws differ with noise',
                          input=args, key='C10.seed-isolation:%s' % args['mode'])
        return same
    return None


if __name__ == '__main__':
    driver_main('C10', main, replay)
