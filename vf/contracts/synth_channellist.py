"""Contract for ChannelList._multichannel_perform (C03: "the wrap-and-zip law everywhere" - here for the
convenience methods of a channel list: range, clip, lag, ... all go through this one method):
sc3/synth/ugen.py.

  the channel list and the arguments are flopped together ONCE (utl.flop([channels, *args]): the wrap-and-zip
  itself, proved for utils in base_utils / bounded in C03), and then for EVERY row i = (item_i, rest_i):
    * item_i is a nested list: a channel list is made of it and the SAME method is applied to it with the same
      selector and ITS OWN row arguments rest_i (not the unexpanded arguments of the outer call);
    * otherwise the selector is performed on the item (as a ugen parameter) with rest_i;
    * the result is collected, in row order;
  and the collected results are returned as a channel list of the same class.

Two extra arguments stand for the argument tuple (type case).  flop, ugen_param, the performed method and the
recursive call are ghost calls; rows are uninterpreted per position.
"""
import z3
from vf.pyvc.spec import contract, Loop
from vf.pyvc.values import *
from vf.pyvc import values as VV
from vf.pyvc.engine import Raised, Unsupported

F = 'sc3/synth/ugen.py'
NROWS = z3.Int('flopped.len')
ITEM = z3.Function('row_item', z3.IntSort(), VV.Any)
R0 = z3.Function('row_arg0', z3.IntSort(), VV.Any)
R1 = z3.Function('row_arg1', z3.IntSort(), VV.Any)


def args_kind(eng, name):
    return vtuple([V('any', z3.Const('arg0', VV.Any)), V('any', z3.Const('arg1', VV.Any))])


def flop_pol(eng, selfv, args, kwargs, st, node):
    st.trace.append(('flop', args[0]))
    return [(st, V('seq', extra={'len': NROWS, 'facts': [NROWS >= 0], 'get': (
        lambda eng_, i, st_: vlist([V('any', ITEM(i)), V('any', R0(i)), V('any', R1(i))]))}))]


def param_pol(eng, selfv, args, kwargs, st, node):
    r = V('obj', oid='param!%d' % next(eng.counter), extra={'param_of': args[0]})
    return [(st, r)]


def recurse_pol(eng, selfv, args, kwargs, st, node):
    r = V('obj', oid='nested-result!%d' % next(eng.counter))
    st.trace.append(('recurse', selfv, tuple(args), r))
    return [(st, r)]


def h_builtin(eng, name, args, kwargs, st, node):
    if name == 'list' and len(args) == 1 and args[0].k == 'ref' and args[0].oid == 'self':
        return [(st, V('obj', oid='own-channels'))]
    if name == 'type' and len(args) == 1 and args[0].k == 'ref':
        return [(st, V('class', py=args[0].cls))]
    if name == 'getattr' and len(args) == 2 and args[0].k == 'obj' and args[0].extra and 'param_of' in args[0].extra:
        target, sel = args[0], args[1]

        def perform(eng, a, kw, st, node):
            r = V('obj', oid='performed!%d' % next(eng.counter))
            st.trace.append(('perform', target.extra['param_of'], sel, tuple(a), r))
            return [(st, r)]
        return [(st, V('func', py=('spec', perform)))]
    return None


def h_construct(eng, f, args, kwargs, st, node):
    if f.k == 'class' and f.py == 'ChannelList':
        r = V('ref', cls='ChannelList', oid='made!%d' % next(eng.counter), extra={'made_of': args[0] if args else None})
        st.trace.append(('make', args[0] if args else None, r))
        return [(st, r)]
    return None


def h_new_list(eng, items, st):
    if items == []:
        return V('ref', cls='Collected', oid='collected')
    return None


def h_getattr(eng, obj, name, st, node):
    if obj.k == 'ref' and obj.cls == 'Collected' and name == 'append':
        def app(eng, a, kw, st, node):
            st.trace.append(('collect', a[0]))
            return [(st, NONE)]
        return [(st, V('func', py=('spec', app)))]
    return None


def since(trace):
    idx = -1
    for i, e in enumerate(trace):
        if e[0] == 'loop-head':
            idx = i
    return trace[idx + 1:] if idx >= 0 else []


def row_args_ok(a, k, sel):
    """(selector, R0(k), R1(k)) / (R0(k), R1(k))"""
    return (len(a) == 2 and a[0].k == 'any' and a[1].k == 'any'), (lambda: z3.And(a[0].z == R0(k), a[1].z == R1(k)))


def per_row(c, L):
    if L.phase != 'after':
        return z3.BoolVal(True)
    ev = [e for e in since(c.trace) if e[0] in ('make', 'recurse', 'perform', 'collect', 'flop')]
    k = L.i - 1
    sel = c._params['selector']
    kinds = [e[0] for e in ev]
    is_list = VV.tag_of(ITEM(k)) == TAGS['list']
    if kinds == ['make', 'recurse', 'collect']:
        mk, rec, col = ev
        ok = (mk[1] is not None and mk[1].k in ('any', 'dyn') and rec[1] is mk[2] and len(rec[2]) == 3
              and rec[2][0] is sel and rec[2][1].k == 'any' and rec[2][2].k == 'any' and col[1] is rec[3])
        if not ok:
            return z3.BoolVal(False)
        return z3.And(is_list, mk[1].z == ITEM(k),
                      rec[2][1].z == R0(k), rec[2][2].z == R1(k))          # the nested list gets ITS OWN row arguments
    if kinds == ['perform', 'collect']:
        pf, col = ev
        ok = (pf[1].k in ('any', 'dyn') and pf[2] is sel and len(pf[3]) == 2 and pf[3][0].k == 'any'
              and pf[3][1].k == 'any' and col[1] is pf[4])
        if not ok:
            return z3.BoolVal(False)
        return z3.And(z3.Not(is_list), pf[1].z == ITEM(k), pf[3][0].z == R0(k), pf[3][1].z == R1(k))
    return z3.BoolVal(False)


def all_rows(c, sq, k, elem):
    ok = elem.k == 'list' and elem.items is not None and len(elem.items) == 3 and all(x.k == 'any' for x in elem.items)
    if not ok:
        return z3.BoolVal(False), z3.BoolVal(False)
    return sq.extra['len'] == NROWS, z3.And(elem.items[0].z == ITEM(k), elem.items[1].z == R0(k), elem.items[2].z == R1(k))


def post(c):
    t = c.trace
    flops = [e for e in t if e[0] == 'flop']
    if len(flops) != 1 or flops[0][1].k != 'list' or flops[0][1].items is None or len(flops[0][1].items) != 3:
        return z3.BoolVal(False)
    own, a0, a1 = flops[0][1].items
    args = c._params['args']
    ok = (own.k == 'obj' and own.oid == 'own-channels' and a0 is args.items[0] and a1 is args.items[1])   # channels first, then the arguments in order
    makes = [e for e in t if e[0] == 'make']
    r = c.resultv
    wrapped = (makes and r is makes[-1][2] and makes[-1][1] is not None and makes[-1][1].k == 'ref'
               and makes[-1][1].oid == 'collected' and r.cls == 'ChannelList')
    return z3.BoolVal(bool(ok) and bool(wrapped))


contract(F, 'ChannelList._multichannel_perform', props=('C03',),
         params={'self': 'self', 'selector': 'obj', 'args': args_kind},
         ensures=[('flopped-once-with-the-channels-first;results-returned-as-a-channel-list', post)],
         loops={0: Loop(inv=per_row, over=all_rows, kinds={'item': 'any', 'rest': (lambda eng, n: V('obj', oid='havoc'))})},
         fields={'ChannelList': {}, 'Collected': {}},
         hooks={'builtin_first': h_builtin, 'construct': h_construct, 'new_list': h_new_list, 'getattr': h_getattr},
         policies={'sc3/base/utils.py::flop': flop_pol, 'sc3/synth/_graphparam.py::ugen_param': param_pol,
                   'ChannelList._multichannel_perform': recurse_pol},
         class_modules={'ChannelList': F, 'Collected': F}, native=False,
         note='the recursive call is opaque (induction on the nesting depth: the same contract); flop itself is the '
              'wrap-and-zip of utils (base_utils)')
