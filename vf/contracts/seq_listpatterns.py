"""Contracts for the list patterns Pseq and Pser (C13): sc3/seq/patterns/listpatterns.py.

`stm.embed(item, inval)` is an opaque call recorded as ('embed', item, inval) that gives a
sub-generator; `r = yield from g` is the ghost event ('yield-from', g, r).  Per-iteration
obligations (the inductive step of the denotation "the items in order, each embedded once,
the input value threaded through"):

  Pser  pass i embeds exactly lst[(i + offset) mod size], with the input value the previous
        pass returned, and keeps what it returns
  Pseq  one repetition = the items from offset to the end in order, then the items before
        offset in order, each embedded exactly once with the threaded input value

The number of passes (bi.counter(repeats)) is an arbitrary finite count; what an embedded item
yields is that item's own denotation (bounded driver C13 composes them).
"""
import z3
from vf.pyvc.spec import contract, Loop
from vf.pyvc.values import *
from vf.pyvc import values as VV

F = 'sc3/seq/patterns/listpatterns.py'


def lst_kind(eng, name):
    n = z3.Int(name + '.len')
    return V('seq', extra={'len': n, 'facts': [n >= 1],           # ListPattern refuses an empty list
                           'get': (lambda eng_, i, st_, _n=name: V('any', z3.Select(
                               z3.Array(_n + '.items', z3.IntSort(), VV.Any), i)))})


def embed_pol(eng, selfv, args, kwargs, st, node):
    g = V('obj', oid='gen!%d' % next(eng.counter))
    st.trace.append(('embed', args[0], args[1], g))
    return [(st, g)]


from vf.contracts.seq_common import counter_pol, counts, COUNT


def since(trace, ordinal):
    idx = -1
    for i, e in enumerate(trace):
        if e[0] == 'loop-head' and e[1] == ordinal:
            idx = i
    return trace[idx + 1:] if idx >= 0 else None


def remember_inval(eng, st):
    st.ghost = dict(st.ghost)
    st.ghost['inval_at_head'] = st.env['inval']


def one_embed(ordinal, index_of):
    """exactly one embed + yield-from per pass, of the item at index_of(c, L), with the input
    value the pass started with; the pass keeps the value the sub-generator returns"""
    def inv(c, L):
        ev = since(c.trace, ordinal)
        if not ev:
            return z3.BoolVal(True)
        ev = [e for e in ev if e[0] in ('embed', 'yield-from', 'yield')]
        if len(ev) != 2 or ev[0][0] != 'embed' or ev[1][0] != 'yield-from':
            return z3.BoolVal(False)
        item, inval, g = ev[0][1], ev[0][2], ev[0][3]
        head_inval = c.st.ghost.get('inval_at_head')
        now = c.st.env['inval']
        ok = (ev[1][1] is g and inval is head_inval and now is ev[1][2])
        lst = c.pre.self.v('lst')
        want = lst.extra['get'](c._eng, index_of(c, L), c.st)
        return z3.And(z3.BoolVal(bool(ok)), z3.BoolVal(item.k == 'any'), item.z == want.z)
    return inv


common = dict(hooks={}, policies={'sc3/base/stream.py::embed': embed_pol, 'counter': counter_pol},
              opts={'generator_trace': True}, native=False)

# Pser
contract(F, 'Pser.__embed__', props=('C13',), params={'self': 'self', 'inval': 'obj'},
         requires=lambda c: c.pre.self.v('lst').extra['len'] >= 1,     # ListPattern refuses an empty list
         ensures=[('returns-the-threaded-input-value',
                   lambda c: z3.BoolVal(c.resultv is c.st.env['inval']))],
         fields={'Pser': {'lst': lst_kind, 'offset': 'int', 'repeats': 'obj'}},
         loops={0: Loop(inv=one_embed(0, lambda c, L: (L.i - 1 + c.pre.self.offset) % c.pre.self.v('lst').extra['len']),
                        over=counts('repeats'), kinds={'inval': 'obj', 'i': 'int'}, havoc_hook=remember_inval)},
         class_modules={'Pser': F}, **common)

# Pseq
contract(F, 'Pseq.__embed__', props=('C13',), params={'self': 'self', 'inval': 'obj'},
         requires=lambda c: z3.And(c.pre.self.v('lst').extra['len'] >= 1, c.pre.self.offset >= 0,
                                   c.pre.self.offset <= c.pre.self.v('lst').extra['len']),
         ensures=[('returns-the-threaded-input-value',
                   lambda c: z3.BoolVal(c.resultv is c.st.env['inval']))],
         fields={'Pseq': {'lst': lst_kind, 'offset': 'int', 'repeats': 'obj'}},
         loops={0: Loop(inv=lambda c, L: z3.BoolVal(True), over=counts('repeats'),
                        kinds={'inval': 'obj', '_': 'int', 'item': 'any'}),
                1: Loop(inv=one_embed(1, lambda c, L: c.pre.self.offset + L.i - 1),
                        kinds={'inval': 'obj', 'item': 'any'}, havoc_hook=remember_inval),
                2: Loop(inv=one_embed(2, lambda c, L: L.i - 1),
                        kinds={'inval': 'obj', 'item': 'any'}, havoc_hook=remember_inval)},
         class_modules={'Pseq': F}, **common,
         note='offsets inside [0, len]: a negative or larger offset slices differently (Python slice '
              'clamping) and is exercised by the bounded driver only')
