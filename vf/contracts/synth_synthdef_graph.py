"""Contracts for the unit table of a definition under construction (C02, C01):
sc3/synth/synthdef.py SynthDef._add_ugen / _remove_ugen / _index_ugens / _add_constant /
_check_inputs.

  _add_ugen(u)       outside a rewrite: u gets index = number of units so far, a COPY of the
                     width-first list as its ordering antecedents, and is appended; during a
                     rewrite nothing at all happens
  _remove_ugen(u)    exactly the slot at u's own index is cleared (lazy removal)
  _index_ugens()     unit at position i gets index i, for every i (loop invariant)
  _add_constant(v)   a new value gets the next free slot (= number of constants so far) and is
                     recorded; a known value changes nothing - so slots are never reassigned and
                     distinct values have distinct slots (lemma)
  _check_inputs()    every unit is asked; the first complaint (in table order) is raised as
                     ValueError prefixed with that unit's name; no complaint: returns True

The table is a sequence of symbolic length; stores into it are ghost events.
"""
import z3
from vf.pyvc.spec import contract, lemma, Loop
from vf.pyvc.values import *
from vf.pyvc import values as VV
from vf.pyvc.engine import Raised, Unsupported

F = 'sc3/synth/synthdef.py'
CH = z3.Array('children.items', z3.IntSort(), VV.Any)


def children_kind(eng, name):
    n = z3.Int('children.len')
    return V('seq', extra={'len': n, 'facts': [n >= 0], 'table': True,
                           'get': (lambda eng_, i, st_: V('any', z3.Select(CH, i)))})


def wf_kind(eng, name):
    n = z3.Int('width_first.len')
    return V('seq', extra={'len': n, 'facts': [n >= 0], 'wf': True,
                           'get': (lambda eng_, i, st_: V('any', z3.Select(z3.Array('wf.items', z3.IntSort(), VV.Any), i)))})


def h_getattr(eng, obj, name, st, node):
    if obj.k == 'seq' and obj.extra.get('table') and name == 'append':
        def app(eng, args, kwargs, st, node, _o=obj):
            st.trace.append(('append', args[0]))
            # the table is one longer afterwards
            st.objs.setdefault('self', {})['_children'] = V('seq', extra=dict(_o.extra, len=_o.extra['len'] + 1))
            return [(st, NONE)]
        return [(st, V('func', py=('spec', app)))]
    return None


def h_setitem(eng, obj, idx, v, st, node):
    if obj.k == 'seq' and obj.extra.get('table'):
        st.trace.append(('store', idx, v))
        return [('next', st)]
    return None


def h_setattr(eng, obj, name, v, st, node):
    if obj.k == 'any' and name == '_synth_index':
        st.trace.append(('index', obj, v))
        return [('next', st)]
    return None


UGEN = {'_synth_index': 'int', '_width_first_antecedents': 'any'}
SD = {'_children': children_kind, '_rewrite_in_progress': 'bool', '_width_first_ugens': wf_kind}


def add_post(c):
    ev = [e for e in c.trace if e[0] in ('append', 'store')]
    u = c.post.ugen
    if not ev:
        # during a rewrite: the unit is not registered and not touched
        return z3.And(c.pre.self._rewrite_in_progress, z3.BoolVal(not c.st.ghost.get('written')))
    wfa = c.post.ugen.v('_width_first_antecedents')
    src = wfa.extra.get('copy_of') or (wfa.extra.get('slice_of') or (None,))[0] if wfa.k == 'seq' else None
    is_copy = src is not None and src.get('wf')
    return z3.And(z3.Not(c.pre.self._rewrite_in_progress),
                  z3.BoolVal(len(ev) == 1 and ev[0][0] == 'append' and ev[0][1].k == 'ref' and ev[0][1].oid == 'ugen'),
                  u._synth_index == z3.Int('children.len'),          # index = position it is appended at
                  z3.BoolVal(bool(is_copy)))                          # its own copy of the ordering constraints


contract(F, 'SynthDef._add_ugen', props=('C02', 'C01'), params={'self': 'self', 'ugen': 'ref:UGen'},
         ensures=[('registered-at-the-end-with-that-index,or-ignored-during-a-rewrite', add_post)],
         modifies=[('ugen', '_synth_index'), ('ugen', '_width_first_antecedents')],
         fields={'SynthDef': SD, 'UGen': UGEN}, hooks={'getattr': h_getattr, 'setitem': h_setitem},
         class_modules={'SynthDef': F, 'UGen': 'sc3/synth/ugen.py'}, native=False)


def remove_post(c):
    ev = [e for e in c.trace if e[0] in ('append', 'store')]
    if len(ev) != 1 or ev[0][0] != 'store' or ev[0][1].k != 'int':
        return z3.BoolVal(False)
    return z3.And(ev[0][1].z == c.pre.ugen._synth_index, z3.BoolVal(ev[0][2].k == 'none'))


contract(F, 'SynthDef._remove_ugen', props=('C02', 'C01'), params={'self': 'self', 'ugen': 'ref:UGen'},
         ensures=[('clears-exactly-the-slot-at-the-units-own-index', remove_post)],
         modifies=[], fields={'SynthDef': SD, 'UGen': UGEN}, hooks={'getattr': h_getattr, 'setitem': h_setitem},
         class_modules={'SynthDef': F, 'UGen': 'sc3/synth/ugen.py'}, native=False)


def since_head(trace):
    idx = -1
    for i, e in enumerate(trace):
        if e[0] == 'loop-head':
            idx = i
    return trace[idx + 1:] if idx >= 0 else None


def index_pass(c, L):
    ev = since_head(c.trace)
    if not ev:
        return z3.BoolVal(True)
    ev = [e for e in ev if e[0] in ('index', 'store', 'append')]
    if len(ev) != 1 or ev[0][0] != 'index' or ev[0][2].k != 'int':
        return z3.BoolVal(False)
    pos = L.i - 1
    return z3.And(ev[0][1].z == z3.Select(CH, pos), ev[0][2].z == pos)      # the unit at position i gets index i


contract(F, 'SynthDef._index_ugens', props=('C02', 'C01'), params={'self': 'self'},
         ensures=[('nothing-but-index-assignments',
                   lambda c: z3.BoolVal(not [e for e in c.trace if e[0] in ('store', 'append')]))],
         loops={0: Loop(inv=index_pass, kinds={'i': 'int', 'ugen': 'any'})},
         fields={'SynthDef': SD}, hooks={'getattr': h_getattr, 'setitem': h_setitem, 'setattr': h_setattr},
         class_modules={'SynthDef': F}, native=False)


# ---- constants ------------------------------------------------------------------------------------
KNOWN = z3.Function('constant_known', z3.RealSort(), z3.BoolSort())


def c_contains(eng, container, item, st, node):
    if container.k == 'obj' and container.oid == 'self._constant_set':
        return KNOWN(to_real(item))
    return None


def c_getattr(eng, obj, name, st, node):
    if obj.k == 'obj' and obj.oid == 'self._constant_set' and name == 'add':
        def add(eng, args, kwargs, st, node):
            st.trace.append(('set-add', args[0]))
            return [(st, NONE)]
        return [(st, V('func', py=('spec', add)))]
    return None


def c_len(eng, v, st, node):
    if v.k == 'obj' and v.oid == 'self._constants':
        n = z3.Int('constants.len')
        st.pc.append(n >= 0)
        return [(st, vint(n))]
    return None


def c_setitem(eng, obj, idx, v, st, node):
    if obj.k == 'obj' and obj.oid == 'self._constants':
        st.trace.append(('slot', idx, v))
        return [('next', st)]
    return None


def const_post(c):
    ev = [e for e in c.trace if e[0] in ('set-add', 'slot')]
    x = c.value
    x = z3.ToReal(x) if z3.is_int(x) else x
    if not ev:
        return KNOWN(x)                                         # a known value: nothing changes
    ok = [e[0] for e in ev] == ['set-add', 'slot'] and ev[0][1] is c._params['value'] \
        and ev[1][1] is c._params['value'] and ev[1][2].k == 'int'
    if not ok:
        return z3.BoolVal(False)
    return z3.And(z3.Not(KNOWN(x)), ev[1][2].z == z3.Int('constants.len'))     # next free slot


contract(F, 'SynthDef._add_constant', props=('C02',), params={'self': 'self', 'value': ['int', 'real']},
         ensures=[('new-value-gets-the-next-free-slot;known-value-changes-nothing', const_post)],
         modifies=[], fields={'SynthDef': {'_constant_set': 'obj', '_constants': 'obj'}},
         hooks={'contains': c_contains, 'getattr': c_getattr, 'len': c_len, 'setitem': c_setitem},
         class_modules={'SynthDef': F}, native=False)


def _slots_distinct():
    """three values added in turn (each new): slots n, n+1, n+2 - pairwise distinct and below the
    final count; a value added again keeps its slot (nothing changes)"""
    n, s1, s2, s3 = z3.Ints('Ln Ls1 Ls2 Ls3')
    a = [n >= 0, s1 == n, s2 == n + 1, s3 == n + 2]
    return a, z3.And(s1 != s2, s2 != s3, s1 != s3, s1 < n + 3, s2 < n + 3, s3 < n + 3, s1 >= 0)


lemma('constant-slots-distinct-and-inside-the-table', props=('C02',), over=(F + '::SynthDef._add_constant',),
      vcs=[('three-new-values', _slots_distinct)],
      note='by the contract each new value takes slot = count so far and the count grows by one')
