"""Reference control layout of a synth definition, computed from a *signature
description* (no sc3 code involved).  Sources: SynthDef help file ("rates",
"prependArgs", "variants", SynthDef.wrap), the Synth-Definition-File-Format
(parameter array, parameter names, variants) and the C04 property statement:

  * every non-prepended parameter of a graph function is a named control;
  * the controls made by one function are laid out by rate group in the order
    initial (ir) | trigger (tr) | audio (ar) | control (kr), declaration order
    inside a group; a parameter with an array default takes consecutive slots;
  * the name-table entry of a parameter is the first of its slots;
  * missing default -> 0.0 (or the default of the metadata spec of that name);
  * the rate of a parameter is its annotation unless the `rates` entry at its
    position (counted after the prepended parameters) is a rate name; a number
    or a list there is the lag time(s) of a control-rate parameter;
  * functions wrapped with SynthDef.wrap allocate their controls after
    everything allocated before the wrap call (creation order);
  * a variant block repeats the whole default array with the named overrides;
  * calling the definition pairs positional arguments with the control names
    of the outer function, prepended parameters excluded.

Signature description (JSON-able):

  func  = {'params': [param...], 'rates': [entry...] | None,
           'prepend': [value...], 'wraps': [func...]}
  param = {'name': str, 'annot': None|'ir'|'tr'|'ar'|'kr',
           'default': None (missing) | number | [numbers] (a tuple default)}
  entry = None | 'ir'|'tr'|'ar'|'kr' | number | [numbers]
"""
import struct

GROUPS = ('ir', 'tr', 'ar', 'kr')


def f32(x):
    return struct.unpack('>f', struct.pack('>f', float(x)))[0]


def decide(annot, entry):
    """-> (rate, lag) ; lag is a number or a list (control rate only).
    Raises ValueError for the combinations the statement leaves open (a lag
    given to a parameter whose annotation is not control rate)."""
    if isinstance(entry, str):
        if entry not in GROUPS:
            raise ValueError('bad rate name %r' % (entry,))
        return entry, 0.0
    rate = annot or 'kr'
    if entry is None:
        return rate, 0.0
    if isinstance(entry, (int, float)):
        if entry == 0:
            return rate, 0.0
        if rate != 'kr':
            raise ValueError('lag for a non control-rate parameter')
        return rate, entry
    if isinstance(entry, (list, tuple)):
        if not entry:
            return rate, 0.0
        if rate != 'kr':
            raise ValueError('lag list for a non control-rate parameter')
        return rate, list(entry)
    raise ValueError('bad rates entry %r' % (entry,))


def channels(default):
    return len(default) if isinstance(default, (list, tuple)) else 1


def layout_function(func, start, specs=None):
    """Lay out the controls of ONE function starting at slot `start`.
    -> (records, values) ; records in declaration order:
    {'name', 'prepended': bool, 'value' (prepended) | 'rate', 'slot', 'n',
     'defaults': [f32...], 'lags': [per slot]} ; values = the f32 defaults of
    the slots start.. in slot order."""
    specs = specs or {}
    params = func['params']
    k = len(func.get('prepend') or [])
    rates = list(func.get('rates') or [])
    recs = []
    for i, p in enumerate(params):
        if i < k:
            recs.append({'name': p['name'], 'prepended': True,
                         'value': func['prepend'][i]})
            continue
        j = i - k
        entry = rates[j] if j < len(rates) else None
        rate, lag = decide(p.get('annot'), entry)
        d = p.get('default')
        if d is None:
            d = specs.get(p['name'], 0.0)
        vals = list(d) if isinstance(d, (list, tuple)) else [d]
        n = len(vals)
        if isinstance(lag, list):
            if n == 1:
                raise ValueError('lag list for a one-slot parameter')
            lags = [lag[i2 % len(lag)] for i2 in range(n)]
        else:
            lags = [lag] * n
        recs.append({'name': p['name'], 'prepended': False, 'rate': rate,
                     'n': n, 'defaults': [f32(v) for v in vals],
                     'lags': [f32(x) for x in lags], 'slot': None})
    cursor = start
    values = []
    for g in GROUPS:
        for r in recs:
            if not r['prepended'] and r['rate'] == g:
                r['slot'] = cursor
                cursor += r['n']
                values.extend(r['defaults'])
    return recs, values


def layout(func, specs=None):
    """Whole definition: the outer function, then every wrapped function in
    creation (call) order, depth first.  -> dict(values, names, records) where
    records is a flat list (creation order) of the per-parameter records, each
    with a 'func' index (0 = outer) and a global 'tag' (its position in that
    flat list)."""
    out = {'values': [], 'names': [], 'records': []}
    counter = [0]

    def go(f):
        idx = counter[0]
        counter[0] += 1
        recs, vals = layout_function(f, len(out['values']), specs)
        out['values'].extend(vals)
        for r in recs:
            r['func'] = idx
            r['tag'] = len(out['records'])
            out['records'].append(r)
            if not r['prepended']:
                out['names'].append((r['name'], r['slot']))
        for w in f.get('wraps') or []:
            go(w)
    go(func)
    return out


def variant_blocks(defname, lay, variants):
    """-> [(block name, full value array)] for a {'key': {control: value |
    [values]}} dictionary."""
    slot_of = {n: s for n, s in lay['names']}
    blocks = []
    for key, pairs in (variants or {}).items():
        vals = list(lay['values'])
        for cname, v in pairs.items():
            vs = list(v) if isinstance(v, (list, tuple)) else [v]
            for i, x in enumerate(vs):
                vals[slot_of[cname] + i] = f32(x)
        blocks.append((defname + '.' + key, vals))
    return blocks


def call_pairs(func, args, kwargs):
    """What `sdef(*args, **kwargs)` must send: (control name, value) pairs."""
    k = len(func.get('prepend') or [])
    names = [p['name'] for p in func['params'][k:]]
    pairs = list(zip(names, args))
    pairs += list(kwargs.items())
    return pairs
