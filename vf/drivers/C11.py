"""C11 - routines, conditions and flow variables obey their state machine.

Bounded run-time contract driver (B part), non-real-time mode.  Sub-checks:

  sequences    every sequence of length L (so every shorter one as a prefix)
               over {next(), next(v), play(clock), pause, resume, stop, reset,
               tick} applied from the main thread to a routine of each body
               kind (KINDS), compared step by step with
               ``vf.specs.routine_sm.RoutineSM``: returned value / raised
               exception class, resulting state, and the frame: the library's
               current thread is the same object as before the call and the
               caller's logical time is unchanged.  ``tick`` lets the
               non-real-time scheduler wake up to 3 pending tasks; every
               wake-up of the routine is observed and checked as a
               ``next((routine, clock))`` applied by the clock (how many
               wake-ups happen is not part of the contract).  L = 5 quick,
               6 thorough.
  in-routine   the same sequences without tick (L-1), applied from inside
               another routine (the caller is a routine, not the main thread).
  tempo-clock  the same sequences (L-1) with play() on a TempoClock(2).
  condition    1-3 waiters on 1-2 clocks, every sequence of
               {test=True, test=False, signal, unhang, start-late-waiter}
               applied from outside (scheduler drained after every step) and
               from a controller routine on a clock: a waiter gets through
               exactly once, after (test true and signal) or unhang, never
               before.
  flowvar      the same for FlowVar with {assign a, assign b (refused when
               bound), signal the inner condition, start-late-reader}.
"""
import itertools
import json
import os

from vf.common import Report, driver_main, wants, silence_sc3_logging
from vf.specs import routine_sm as SM

# --------------------------------------------------------------------------
# body kinds: name -> (family, script)
# --------------------------------------------------------------------------

def _g(steps, inval=False):
    return {'gen': True, 'inval': inval, 'steps': steps}


def _p(steps):
    return {'gen': False, 'inval': False, 'steps': steps}


_NUM2 = _g([['yield', 1], ['yield', 2]])
_RAISE2 = _g([['yield', 1], ['raise', 'ValueError']])

KINDS = {
    'numbers': ('plain', _g([['yield', 1], ['yield', 0.5], ['yield', 2]])),
    'values': ('plain', _g([['yield', 'a'], ['yield', None],
                            ['yield', [1, 'b']]])),
    'echo': ('plain', _g([['echo'], ['echo'], ['yield', 'k'], ['echo']],
                         inval=True)),
    'return-now': ('plain', _g([])),
    'plain-function': ('plain', _p([])),
    'raise-2nd': ('plain', _g([['yield', 1], ['raise', 'ValueError'],
                               ['yield', 3]])),
    'plain-raise': ('plain', _p([['raise', 'ValueError']])),
    'yield-and-reset': ('plain', _g([['yield', 1], ['yreset', 7],
                                     ['yield', 3]])),
    'plain-yield-and-reset': ('plain', _p([['yreset', 5]])),
    'always-yield': ('plain', _g([['yield', 1], ['always', 'T']])),
    'plain-always-yield': ('plain', _p([['always', 'P']])),
    'stopstream-gen': ('plain', _g([['yield', 1], ['stopstream']])),
    'plain-stopstream': ('plain', _p([['stopstream']])),
    'nested': ('nested', _g([['nested', _NUM2, 3], ['yield', 5],
                             ['nested', _RAISE2, 3]])),
    'nested-terminal': ('nested', _g([
        ['nested', _g([['always', 9]]), 2],
        ['nested', _p([['raise', 'ValueError']]), 2],
        ['nested', _g([['yield', 1], ['yreset', 4]]), 3]])),
    'self-stop': ('self-stop', _g([['yield', 1], ['self', 'stop'],
                                   ['yield', 3]])),
    'self-pause': ('self-pause', _g([['self', 'pause'], ['yield', 2]])),
    'self-reset': ('self-reset', _g([['yield', 1], ['self', 'reset'],
                                     ['yield', 3]])),
    'self-stop-uncaught': ('self-stop', _g([['yield', 1], ['self!', 'stop'],
                                            ['yield', 3]])),
    'plain-self-pause-uncaught': ('self-pause', _p([['self!', 'pause']])),
    'plain-self-reset': ('self-reset', _p([['self', 'reset']])),
    'self-next': ('self-next', _g([['yield', 1], ['selfnext'], ['yield', 3]])),
    'self-next-first': ('self-next', _g([['selfnext'], ['yield', 2]])),
    'self-next-uncaught': ('self-next', _g([['yield', 1], ['selfnext!'],
                                            ['yield', 3]])),
    'nested-outer-next': ('self-next', _g([['yield', 1], ['nested-outer', 2],
                                           ['yield', 3]])),
}
KIND_NAMES = sorted(KINDS)

OPS = ('next', 'nextv', 'play', 'pause', 'resume', 'stop', 'reset', 'tick')
OPS_NOTICK = OPS[:-1]
SENT = 'V'


class SelfOpAccepted(Exception):
    """raised by a plain-function body when stop/pause/reset from inside was
    not refused"""


def _mods():
    import sc3.base.main as M
    import sc3.base.stream as S
    import sc3.base.clock as C
    return M, S, C


def norm(x, S=None, C=None):
    """map a value coming out of sc3 to the JSON-able domain of the model"""
    if S is None:
        _, S, C = _mods()
    if x is None or isinstance(x, (bool, int, float, str)):
        return x
    if isinstance(x, (list, tuple)):
        return [norm(e, S, C) for e in x]
    if isinstance(x, dict):
        return {k: norm(v, S, C) for k, v in x.items()}
    if isinstance(x, S.Routine):
        return '<routine>'
    if x is C.SystemClock or isinstance(x, C.TempoClock) or x is C.AppClock:
        return '<clock>'
    return '<%s>' % type(x).__name__


def tt_name(x, r=None):
    """stable description of a time thread (no addresses)"""
    M, S, C = _mods()
    if x is None:
        return 'None'
    if x is M.main.main_tt:
        return 'the main thread'
    if r is not None and x is r:
        return 'the routine under test'
    if isinstance(x, S.Routine):
        return 'another routine'
    return type(x).__name__


def make_body(script, holder):
    """Build the real body function for ``script``; ``holder[0]`` is the
    routine made from it (set by the caller after construction)."""
    M, S, C = _mods()
    steps = script['steps']
    EXC = {'ValueError': ValueError, 'KeyError': KeyError}

    def selfnext():
        try:
            x = holder[0].next()
            return ['returned', norm(x, S, C)]
        except S.RoutineException:
            return 'refused'
        except Exception as e:
            return ['raised', type(e).__name__]

    def run_nested(inner, n):
        outs = []
        frame = True
        for _ in range(n):
            try:
                x = inner.next()
                outs.append(['return', norm(x, S, C)])
            except Exception as e:
                outs.append(['raise', type(e).__name__])
            if M.main.current_tt is not holder[0]:
                frame = False
        return {'outcomes': outs, 'frame': frame}

    def gen(v=None):
        for st in steps:
            k = st[0]
            if k == 'yield':
                v = yield st[1]
            elif k == 'echo':
                v = yield v
            elif k == 'raise':
                raise EXC[st[1]]('from the body')
            elif k == 'yreset':
                raise S.YieldAndReset(st[1])
            elif k == 'always':
                raise S.AlwaysYield(st[1])
            elif k == 'stopstream':
                raise S.StopStream
            elif k == 'return':
                return
            elif k == 'self':
                try:
                    getattr(holder[0], st[1])()
                    out = 'accepted'
                except S.RoutineException:
                    out = 'refused'
                v = yield out
            elif k == 'self!':
                getattr(holder[0], st[1])()
            elif k == 'selfnext':
                v = yield selfnext()
            elif k == 'selfnext!':
                holder[0].next()
            elif k == 'nested':
                h2 = [None]
                inner = S.Routine(make_body(st[1], h2))
                h2[0] = inner
                v = yield run_nested(inner, st[2])
            elif k == 'nested-outer':
                def inner_body():
                    yield selfnext()
                v = yield run_nested(S.Routine(inner_body), st[1])
            else:
                raise AssertionError(st)

    def plain():
        for st in steps:
            k = st[0]
            if k == 'raise':
                raise EXC[st[1]]('from the body')
            elif k == 'yreset':
                raise S.YieldAndReset(st[1])
            elif k == 'always':
                raise S.AlwaysYield(st[1])
            elif k == 'stopstream':
                raise S.StopStream
            elif k == 'return':
                return
            elif k == 'self':
                try:
                    getattr(holder[0], st[1])()
                except S.RoutineException:
                    continue
                raise SelfOpAccepted(st[1])
            elif k == 'self!':
                getattr(holder[0], st[1])()
                raise SelfOpAccepted(st[1])
            else:
                raise AssertionError(st)

    if script['gen']:
        if script['inval']:
            def body(inval):
                return (yield from gen(inval))
        else:
            def body():
                return (yield from gen(None))
        return body
    return plain


# --------------------------------------------------------------------------
# one sequence = the unit of checking and of replay
# --------------------------------------------------------------------------

TICK_WAKEUPS = 3


class _Ctx:
    pass


def run_sequence(kind, ops, caller='main', clock='sys', seen=None):
    """-> None | dict(step, aspect, key, observed, expected, what)"""
    M, S, C = _mods()
    main = M.main
    main.reset()
    if main.current_tt is not main.main_tt:       # repair after a past failure
        main.current_tt = main.main_tt
    family, script = KINDS[kind]
    holder = [None]
    r = S.Routine(make_body(script, holder))
    holder[0] = r
    sm = SM.RoutineSM(script)
    clk = C.SystemClock if clock == 'sys' else C.TempoClock(2.0)
    ctx = _Ctx()
    ctx.viol = None
    ctx.step = -1

    def fail(aspect, key, observed, expected, what):
        if ctx.viol is None:
            ctx.viol = {'step': ctx.step, 'aspect': aspect, 'key': key,
                        'observed': observed, 'expected': expected,
                        'what': what}

    def checked(opname, call, model_call, tt_expected=None):
        """run one operation on the real routine and on the model"""
        tt = main.current_tt
        sec = tt._seconds
        if seen is not None:
            seen.add((kind, sm.signature(), opname))
        try:
            got = ('return', norm(call(), S, C))
        except Exception as e:
            got = ('raise', type(e).__name__)
        alts = model_call()
        # frame first: everything else is meaningless without it
        now_tt = main.current_tt
        if now_tt is not tt:
            main.current_tt = tt                    # repair, then report
            fail('frame', 'C11.frame:%s-clobbers-current-tt' % family,
                 tt_name(now_tt, r), tt_name(tt, r),
                 'after %s the library\'s current thread is %s, it was %s '
                 'before the call' % (opname, tt_name(now_tt, r),
                                      tt_name(tt, r)))
            return got
        if tt._seconds != sec:
            fail('time', 'C11.frame:%s-changes-caller-time' % family,
                 tt._seconds, sec,
                 'after %s the caller\'s logical time is %r, it was %r' % (
                     opname, tt._seconds, sec))
            return got
        if not SM.matches(got, alts):
            asp = 'result'
            key = 'C11.result:%s:%s' % (kind, opname)
            if (got[0] == 'return' and isinstance(got[1], dict)
                    and got[1].get('frame') is False):
                asp = 'frame'
                key = 'C11.frame:%s-inner-call-clobbers-current-tt' % family
            fail(asp, key, got, alts,
                 '%s gives %r, the state machine allows %r' % (
                     opname, got, alts))
            return got
        if r.state.name != sm.state:
            fail('state', 'C11.state:%s:%s' % (kind, opname),
                 r.state.name, sm.state,
                 'after %s the routine is %s, the state machine says %s' % (
                     opname, r.state.name, sm.state))
        return got

    orig_awake = r.__awake__

    def awake(clock_):
        if ctx.viol is not None:
            return orig_awake(clock_)
        box = {}

        def call():
            try:
                box['v'] = orig_awake(clock_)
                return box['v']
            except BaseException as e:
                box['e'] = e
                raise
        checked('wakeup', call,
                lambda: sm.next(['<routine>', '<clock>']))
        if 'e' in box:
            raise box['e']
        return box['v']
    r.__awake__ = awake

    def do_ops():
        for i, op in enumerate(ops):
            ctx.step = i
            if op == 'next':
                checked('next', lambda: r.next(), lambda: sm.next(None))
            elif op == 'nextv':
                checked('next(v)', lambda: r.next(SENT), lambda: sm.next(SENT))
            elif op == 'play':
                checked('play', lambda: r.play(clk), sm.play)
            elif op == 'pause':
                checked('pause', r.pause, sm.pause)
            elif op == 'resume':
                checked('resume', r.resume, sm.resume)
            elif op == 'stop':
                checked('stop', r.stop, sm.stop)
            elif op == 'reset':
                checked('reset', r.reset, sm.reset)
            elif op == 'tick':
                q = main._clock_scheduler.queue
                for _ in range(TICK_WAKEUPS):
                    if ctx.viol is not None or q.empty():
                        break
                    t, ct = q.pop()
                    ct._wakeup(t)
                if ctx.viol is None and main.current_tt is not main.main_tt:
                    bad = main.current_tt
                    main.current_tt = main.main_tt
                    fail('frame',
                         'C11.frame:%s-clobbers-current-tt' % family,
                         tt_name(bad, r), 'the main thread',
                         'after the scheduler ran, the current thread is %s, '
                         'not the main thread' % tt_name(bad, r))
            else:
                raise ValueError(op)
            if ctx.viol is not None:
                return

    if caller == 'main':
        do_ops()
    else:
        def wbody():
            do_ops()
        W = S.Routine(wbody)
        try:
            W.next()
        except S.StopStream:
            pass
        if ctx.viol is None and main.current_tt is not main.main_tt:
            bad = main.current_tt
            main.current_tt = main.main_tt
            ctx.step = len(ops) - 1
            fail('frame', 'C11.frame:%s-clobbers-current-tt' % family,
                 tt_name(bad, r), 'the main thread',
                 'after the calling routine returned the current thread is '
                 '%s, not the main thread' % tt_name(bad, r))
    if main.current_tt is not main.main_tt:
        main.current_tt = main.main_tt
    return ctx.viol


def shrink_sequence(kind, ops, caller, clock, key):
    cur = list(ops)
    changed = True
    while changed and len(cur) > 1:
        changed = False
        for i in range(len(cur)):
            cand = cur[:i] + cur[i + 1:]
            v = run_sequence(kind, cand, caller, clock)
            if v is not None and v['key'] == key:
                cur = cand[:v['step'] + 1]
                changed = True
                break
    return cur


def _seq_worker(arg):
    kind, first, length, alphabet, caller, clock = arg
    silence_sc3_logging()
    seen = set()
    viols = {}
    n = 0
    bad_prefixes = []
    for rest in itertools.product(alphabet, repeat=length - 1):
        ops = (first,) + rest
        if any(ops[:len(b)] == b for b in bad_prefixes):
            continue
        n += 1
        v = run_sequence(kind, ops, caller, clock, seen)
        if v is not None:
            pre = ops[:v['step'] + 1]
            bad_prefixes.append(pre)
            lst = viols.setdefault(v['key'], [])
            lst.append((len(pre), list(pre), v))
            lst.sort(key=lambda e: e[0])
            del lst[3:]
    return kind, caller, clock, n, seen, viols


def run_sequences(rep, name, length, alphabet, caller, clock):
    import multiprocessing as mp
    args = [(k, f, length, alphabet, caller, clock)
            for k in KIND_NAMES for f in alphabet]
    ctx = mp.get_context('fork')
    total = 0
    seen = set()
    viols = {}
    with ctx.Pool(16) as pool:
        for kind, cal, clk, n, s, v in pool.imap_unordered(_seq_worker, args):
            total += n
            seen |= s
            for key, lst in v.items():
                for ln, pre, vi in lst:
                    viols.setdefault(key, []).append((ln, kind, pre, vi))
    for key in sorted(viols):
        lst = sorted(viols[key], key=lambda e: (e[0], e[1], e[2]))[:3]
        for ln, kind, pre, vi in lst:
            small = shrink_sequence(kind, pre, caller, clock, key)
            v2 = run_sequence(kind, small, caller, clock)
            if v2 is None or v2['key'] != key:
                small, v2 = pre, vi
            inp = {'kind': kind, 'body': KINDS[kind][1], 'ops': list(small),
                   'caller': caller, 'clock': clock}
            rep.violation(
                obligation='C11.routine.' + v2['aspect'],
                what='body %s, operations %s (from %s): %s' % (
                    kind, list(small), caller, v2['what']),
                input=inp, observed=v2['observed'], expected=v2['expected'],
                key=key,
                replay={'func': 'sequence',
                        'args': [kind, list(small), caller, clock]})
    rep.bounded(
        name=name, function='sc3.base.stream.Routine.next/play/pause/resume/'
                            'stop/reset',
        bound='all sequences of length %d (hence <= %d) over %s for %d body '
              'kinds, caller = %s, play on %s' % (
                  length, length, list(alphabet), len(KIND_NAMES), caller,
                  'SystemClock' if clock == 'sys' else 'TempoClock(2)'),
        evaluations=total, distinct_nontrivial=len(seen),
        rule='each step: result/exception class, Routine.state, current_tt '
             'identity and caller time against vf.specs.routine_sm; sequences '
             'extending a failing prefix are skipped; distinct = (body kind, '
             'model state, operation) triples exercised',
        samples=[{'kind': 'self-next', 'ops': ['next', 'next']},
                 {'kind': 'always-yield', 'ops': ['next', 'next', 'reset',
                                                  'stop', 'next']},
                 {'kind': 'numbers', 'ops': ['play', 'tick', 'pause', 'next',
                                             'resume']}],
        exhaustive=True, extra={'processes': 16})


# --------------------------------------------------------------------------
# Condition / FlowVar
# --------------------------------------------------------------------------

COND_OPS = ('true', 'false', 'signal', 'unhang', 'late')
FLOW_OPS = ('assign-a', 'assign-b', 'signal', 'late')
CLOCK_LAYOUTS = ('sys', 'tempo', 'sys+tempo', 'tempo+tempo')


def _drain(main, limit=10000):
    q = main._clock_scheduler.queue
    n = 0
    while not q.empty():
        t, ct = q.pop()
        ct._wakeup(t)
        n += 1
        if n > limit:
            raise RuntimeError('scheduler did not drain')


def _clocks(layout, C):
    if layout == 'sys':
        return [C.SystemClock]
    if layout == 'tempo':
        return [C.TempoClock(3.0)]
    if layout == 'sys+tempo':
        return [C.SystemClock, C.TempoClock(0.5)]
    return [C.TempoClock(2.0), C.TempoClock(0.75)]


SLEEP = 5.0        # seconds a waiter sleeps after getting through
OP_SPACING = 4.0   # seconds between the controller's operations
TEMPOS = {'sys': [1.0], 'tempo': [3.0], 'sys+tempo': [1.0, 0.5],
          'tempo+tempo': [2.0, 0.75]}


def run_waiters(what, nwait, layout, ops, mode):
    """what: 'condition' | 'flowvar'; mode: 'outside' | 'controller'.
    Every waiter waits, logs that it got through, sleeps SLEEP seconds (in
    beats of its clock), logs whether it slept exactly that long (a spurious
    wake-up shortens the sleep), and does it all a second time.
    -> None | dict(step, aspect, observed, expected, what)"""
    M, S, C = _mods()
    main = M.main
    main.reset()
    if main.current_tt is not main.main_tt:
        main.current_tt = main.main_tt
    clocks = _clocks(layout, C)
    tempos = TEMPOS[layout]
    log = []          # ('op', k) | ('pass', i, nth, value) | ('woke', i, nth, ok)
    if what == 'condition':
        cond = S.Condition()
        ref = SM.ConditionSM(False)
    else:
        fv = S.FlowVar()
        ref = SM.FlowVarSM()
    waiters = []

    def mk(i):
        beats = SLEEP * tempos[i % len(tempos)]

        def body():
            for nth in range(2):
                if what == 'condition':
                    yield from cond.wait()
                    v = None
                else:
                    v = norm((yield from fv.value))
                log.append(('pass', i, nth, v))
                t0 = main.current_tt._seconds
                yield beats
                t1 = main.current_tt._seconds
                log.append(('woke', i, nth, abs((t1 - t0) - SLEEP) < 1e-9))
        if i % 2 == 1:
            # every second waiter is a NESTED routine: an outer routine played
            # on the clock drives it with `yield from embed(inner)`; it must be
            # resumed through its caller, exactly like a directly played one
            inner = S.Routine(body)

            def outer():
                yield from S.embed(inner)
            return S.Routine(outer)
        return S.Routine(body)

    # ---- the reference: a small discrete-event model ----------------------
    INF = float('inf')
    done = {}
    pending = []             # (time, seqno, waiter)
    seqno = [0]

    def m_pass(i, t, val, out):
        out.append(('pass', i, done[i], val))
        pending.append((t + SLEEP, seqno[0], i))
        seqno[0] += 1

    def m_wait(i, t, out):
        if done[i] >= 2:
            return
        if what == 'condition':
            if ref.wait(i):
                m_pass(i, t, None, out)
        else:
            ok, val = ref.read(i)
            if ok:
                m_pass(i, t, val, out)

    def m_advance(until, out):
        while True:
            due = [e for e in pending if e[0] < until]
            if not due:
                return
            e = min(due)
            pending.remove(e)
            t, _, i = e
            out.append(('woke', i, done[i], True))
            done[i] += 1
            m_wait(i, t, out)

    def m_start(i, t, out):
        done[i] = 0
        m_wait(i, t, out)

    def m_op(op, t, out):
        """-> 'ok' | 'refused'"""
        if op == 'late':
            m_start(len(done), t, out)
            return 'ok'
        if op == 'true':
            ref.set_test(True)
            return 'ok'
        if op == 'false':
            ref.set_test(False)
            return 'ok'
        if op == 'signal':
            rel = ref.signal()
            val = ref.value if what == 'flowvar' else None
        elif op == 'unhang':
            rel, val = ref.unhang(), None
        else:
            res, rel = ref.assign(op[-1])
            if res == 'refused':
                return 'refused'
            val = ref.value
        for i in rel:
            m_pass(i, t, val, out)
        return 'ok'

    expected = [[]]
    status = []
    for i in range(nwait):
        m_start(i, 0.0, expected[0])
    if mode == 'outside':
        m_advance(INF, expected[0])
    for k, op in enumerate(ops):
        t = OP_SPACING * (k + 1)        # only meaningful in controller mode
        if mode == 'controller':
            m_advance(t, expected[-1])
        expected.append([])
        status.append(m_op(op, t, expected[-1]))
        if mode == 'outside':
            m_advance(INF, expected[-1])
    m_advance(INF, expected[-1])

    # ---- the real run ------------------------------------------------------
    def start(i):
        r = mk(i)
        waiters.append(r)
        r.play(clocks[i % len(clocks)])

    def real_op(op):
        if op == 'late':
            start(len(waiters))
        elif op == 'true':
            cond.test = True
        elif op == 'false':
            cond.test = False
        elif op == 'signal':
            (cond if what == 'condition' else fv.condition).signal()
        elif op == 'unhang':
            cond.unhang()
        else:
            try:
                fv.value = op[-1]
            except Exception:
                return 'refused'
        return 'ok'

    real_status = []
    if mode == 'outside':
        for i in range(nwait):
            start(i)
        _drain(main)
        for k, op in enumerate(ops):
            log.append(('op', k))
            real_status.append(real_op(op))
            _drain(main)
    else:
        def controller():
            for i in range(nwait):
                start(i)
            yield OP_SPACING
            for k, op in enumerate(ops):
                log.append(('op', k))
                real_status.append(real_op(op))
                yield OP_SPACING
        # every 4 s all the clocks used here are on a whole beat, so that a
        # late starter played on a TempoClock (default quant 1) starts at once
        S.Routine(controller).play(C.SystemClock)
        _drain(main)
    if main.current_tt is not main.main_tt:
        main.current_tt = main.main_tt
        return {'step': len(ops) - 1, 'aspect': 'frame',
                'observed': 'current thread not restored',
                'expected': 'main thread',
                'what': 'the current thread is not the main thread after the '
                        'scheduler ran'}

    # ---- compare -----------------------------------------------------------
    segs = [[]]
    for e in log:
        if e[0] == 'op':
            segs.append([])
        else:
            segs[-1].append(e)

    def canon(lst):
        return sorted([list(x) for x in lst], key=json.dumps)
    for k in range(len(expected)):
        if k >= 1 and real_status[k - 1] != status[k - 1]:
            return {'step': k - 1, 'aspect': 'refusal',
                    'observed': real_status[k - 1], 'expected': status[k - 1],
                    'what': 'step %d (%s) was %s, expected %s' % (
                        k - 1, ops[k - 1], real_status[k - 1], status[k - 1])}
        if canon(segs[k]) != canon(expected[k]):
            return {'step': k - 1, 'aspect': 'wakeups',
                    'observed': canon(segs[k]), 'expected': canon(expected[k]),
                    'what': 'after step %d (%s) the log of (pass|woke, waiter, '
                            'nth wait, value|slept-in-full) is %r, expected %r'
                            % (k - 1, ops[k - 1] if k else 'start',
                               canon(segs[k]), canon(expected[k]))}
    return None


def _wait_worker(arg):
    what, nwait, layout, mode, length, first = arg
    silence_sc3_logging()
    alphabet = COND_OPS if what == 'condition' else FLOW_OPS
    out = []
    n = 0
    distinct = set()
    for rest in itertools.product(alphabet, repeat=length - 1):
        ops = (first,) + rest
        if ops.count('late') > 2:
            continue
        n += 1
        v = run_waiters(what, nwait, layout, ops, mode)
        if v is not None:
            # later steps can matter in controller mode (they happen while a
            # waiter sleeps): keep one more
            pre = list(ops[:max(v['step'], 0) + 2])
            if len(out) < 6:
                out.append((pre, list(ops), v))
        distinct.add(ops)
    return what, nwait, layout, mode, n, len(distinct), out


def run_waiting(rep, what):
    import multiprocessing as mp
    quick = rep.tier == 'quick'
    length = (4 if quick else 5) if what == 'condition' else (5 if quick else 6)
    alphabet = COND_OPS if what == 'condition' else FLOW_OPS
    args = [(what, nw, lay, mode, length, f)
            for nw in (1, 2, 3) for lay in CLOCK_LAYOUTS
            for mode in ('outside', 'controller') for f in alphabet]
    ctx = mp.get_context('fork')
    total = 0
    distinct = 0
    found = []
    with ctx.Pool(16) as pool:
        for w, nw, lay, mode, n, d, out in pool.imap_unordered(
                _wait_worker, args):
            total += n
            distinct += d
            for pre, full, v in out:
                found.append((len(pre), nw, lay, mode, pre, full, v))
    found.sort(key=lambda e: (e[0], e[1], e[2], e[3], e[4]))
    for ln, nw, lay, mode, pre, full, v in found:
        v2 = run_waiters(what, nw, lay, pre, mode)
        if v2 is None:
            pre = full
            v2 = run_waiters(what, nw, lay, pre, mode) or v
        key = 'C11.%s:%s' % (what, v2['aspect'])
        if sum(1 for w in rep.violations if w['key'] == key) >= 3:
            continue
        # shrink: drop operations while the same clause still fails
        changed = True
        while changed and len(pre) > 1:
            changed = False
            for i in range(len(pre)):
                cand = pre[:i] + pre[i + 1:]
                v3 = run_waiters(what, nw, lay, cand, mode)
                if v3 is not None and v3['aspect'] == v2['aspect']:
                    pre, v2, changed = cand, v3, True
                    break
        rep.violation(
            obligation='C11.%s.%s' % (what, v2['aspect']),
            what='%d waiter(s) on %s, operations %s (%s): %s' % (
                nw, lay, pre, mode, v2['what']),
            input={'waiters': nw, 'clocks': lay, 'ops': pre, 'mode': mode},
            observed=v2['observed'], expected=v2['expected'], key=key,
            replay={'func': 'waiters', 'args': [what, nw, lay, pre, mode]})
    rep.bounded(
        name=what,
        function='sc3.base.stream.Condition.wait/signal/unhang' if
        what == 'condition' else 'sc3.base.stream.FlowVar.value',
        bound='all sequences of length %d over %s (at most 2 late starters), '
              '1-3 initial waiters each waiting twice, clock layouts %s, '
              'applied from outside (scheduler drained after each step) and '
              'by a controller routine on SystemClock 4 s apart' % (
                  length, list(alphabet), list(CLOCK_LAYOUTS)),
        evaluations=total, distinct_nontrivial=distinct,
        rule='per step the set of (waiter, nth wait, value) that got through '
             'equals the reference: exactly once after (test true and signal) '
             'or unhang / after the first assignment, never before; a second '
             'assignment is refused and wakes nobody',
        samples=[{'waiters': 2, 'clocks': 'sys+tempo',
                  'ops': ['signal', 'true', 'signal', 'unhang']}],
        exhaustive=True)


# --------------------------------------------------------------------------

def _init():
    silence_sc3_logging()
    import warnings
    warnings.simplefilter('ignore')
    import sc3
    sc3.init('nrt')


def main(rep):
    _init()
    quick = rep.tier == 'quick'
    L = int(os.environ.get('C11_LEN', 5 if quick else 6))
    if wants(rep, 'sequences'):
        run_sequences(rep, 'sequences', L, OPS, 'main', 'sys')
    if wants(rep, 'in-routine'):
        run_sequences(rep, 'in-routine', L - 1, OPS_NOTICK, 'routine', 'sys')
    if wants(rep, 'tempo-clock'):
        run_sequences(rep, 'tempo-clock', L - 1, OPS, 'main', 'tempo')
    if wants(rep, 'condition'):
        run_waiting(rep, 'condition')
    if wants(rep, 'flowvar'):
        run_waiting(rep, 'flowvar')
    rep.note('next() in state Done after AlwaysYield followed by stop()/reset():'
             ' the stale terminal value and StopStream are both accepted '
             '(statement: "StopStream or the recorded terminal value").')
    rep.note('a plain (non-generator) function as body: first next() may '
             'return None (DESIGN: behaves as AlwaysYield(None)) or raise '
             'StopStream (plain exhaustion); afterwards Done.')
    rep.note('a body that calls its own next(): what the inner call does is '
             'left open (refusal accepted); the frame must hold.')
    rep.note('a StopStream raised inside a generator body may arrive as '
             'StopStream or RuntimeError (PEP 479).')
    rep.note('play/resume: only the state transition is checked from outside; '
             'how many wake-ups the non-real-time scheduler delivers is not '
             'specified here, every wake-up that happens is checked as a '
             'next((routine, clock)).')


def replay(case, rep):
    _init()
    r = case['replay']
    f, args = r['func'], r['args']
    if f == 'sequence':
        kind, ops, caller, clock = args
        v = run_sequence(kind, tuple(ops), caller, clock)
        if v is not None:
            rep.violation(obligation='C11.routine.' + v['aspect'],
                          what='body %s, operations %s: %s' % (
                              kind, ops, v['what']),
                          input=args, observed=v['observed'],
                          expected=v['expected'], key=v['key'])
        return v is None
    if f == 'waiters':
        what, nw, lay, ops, mode = args
        v = run_waiters(what, nw, lay, tuple(ops), mode)
        if v is not None:
            rep.violation(obligation='C11.%s.%s' % (what, v['aspect']),
                          what=v['what'], input=args, observed=v['observed'],
                          expected=v['expected'],
                          key='C11.%s:%s' % (what, v['aspect']))
        return v is None
    raise ValueError(f)


if __name__ == '__main__':
    driver_main('C11', main, replay)
