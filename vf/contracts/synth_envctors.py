"""Contracts for the standard constructors of sc3/synth/envelope.py (C19: "the standard constructors (adsr, asr, dadsr,
perc, linen, triangle, sine, cutoff ...) produce their documented breakpoints").

Each constructor makes ONE envelope with exactly the documented lists (SuperCollider Env help; the docstrings):

  triangle(dur, level)      levels [0, level, 0]          times [dur/2, dur/2]                       curve: default
  sine(dur, level)          levels [0, level, 0]          times [dur/2, dur/2]                       'sine'
  perc(a, r, level, c)      levels [0, level, 0]          times [a, r]                               c
  linen(a, s, r, level, c)  levels [0, level, level, 0]   times [a, s, r]                            c
  cutoff(r, level, c)       levels [level, 0 or -100 dB when the curve is exponential]  times [r]    c, release node 0
  asr(a, sl, r, c)          levels [0, sl, 0]             times [a, r]                               c, release node 1
  adsr(a, d, sl, r, pk, c, bias)   levels [0, pk, pk*sl, 0] + bias    times [a, d, r]                c, release node 2
  dadsr(dl, a, d, sl, r, pk, c, bias) levels [0, 0, pk, pk*sl, 0] + bias  times [dl, a, d, r]        c, release node 3

The parameters are opaque values (numbers or lists: the element-wise arithmetic is utl.list_binop's, a ghost call that
records operator and operands); products of two parameters are ghost products.  step / pairs / xyc (loops, sorting) stay
with the bounded driver.
"""
import z3
from vf.pyvc.spec import contract
from vf.pyvc.values import *
from vf.pyvc.engine import Raised, Unsupported

from .synth_envelope import SHAPES

F = 'sc3/synth/envelope.py'
U = 'sc3/base/utils.py'


def ec_construct(eng, f, args, kwargs, st, node):
    if f.k == 'class' and f.py == 'Env':
        r = V('obj', oid='the-envelope')
        st.trace.append(('Env', tuple(args), dict(kwargs), r))
        return [(st, r)]
    return None


def ec_list_binop(eng, selfv, args, kwargs, st, node):
    r = V('obj', oid='elementwise!%d' % next(eng.counter), extra={'op': args[0], 'a': args[1], 'b': args[2]})
    st.trace.append(('list_binop', tuple(args), r))
    return [(st, r)]


def ec_binop(eng, op, a, b, st, node):
    import ast as _a
    if a.k == 'obj' and b.k == 'obj' and isinstance(op, _a.Mult):
        return [(st, V('obj', oid='product!%d' % next(eng.counter), extra={'product': (a, b)}))]
    return None


def ec_getattr(eng, obj, name, st, node):
    if obj.k == 'module' and name in ('add', 'mul', 'truediv'):
        return [(st, V('obj', oid='operator.' + name))]
    return None


def is_num(v, n):
    if v.k == 'int':
        s = z3.simplify(v.z)
        return z3.is_int_value(s) and s.as_long() == n
    if v.k == 'real':
        s = z3.simplify(v.z)
        return z3.is_rational_value(s) and s.as_fraction() == n
    return False


def matches(c, v, want):
    """want: a number, a parameter name, ('half', name), ('product', n1, n2), ('biased', [..], name), ('str', s), None"""
    if want is None:
        return v.k == 'none'
    if isinstance(want, (int, float)):
        return is_num(v, want)
    if isinstance(want, str):
        return v is c._params[want]
    if want[0] == 'str':
        # a shape name: any name of the same server shape number will do ('sin' / 'sine', 'lin' / 'linear')
        return v.k == 'str' and v.py in SHAPES and SHAPES[v.py] == SHAPES[want[1]]
    if want[0] == 'half':
        if not (v.k == 'obj' and v.extra and 'op' in v.extra and v.extra['op'].k == 'obj'):
            return False
        op, a, b = v.extra['op'].oid, v.extra['a'], v.extra['b']
        p = c._params[want[1]]
        return (op == 'operator.mul' and ((a is p and is_num(b, 0.5)) or (b is p and is_num(a, 0.5)))) \
            or (op == 'operator.truediv' and a is p and is_num(b, 2))
    if want[0] == 'product':
        if not (v.k == 'obj' and v.extra and 'product' in v.extra):
            return False
        a, b = v.extra['product']
        pa, pb = c._params[want[1]], c._params[want[2]]
        return (a is pa and b is pb) or (a is pb and b is pa)
    if want[0] == 'biased':
        return (v.k == 'obj' and v.extra and 'op' in v.extra and v.extra['op'].k == 'obj' and v.extra['op'].oid == 'operator.add'
                and is_list(c, v.extra['a'], want[1]) and v.extra['b'] is c._params[want[2]])
    return False


def is_list(c, v, wants):
    return v.k == 'list' and v.items is not None and len(v.items) == len(wants) and all(matches(c, x, w) for x, w in zip(v.items, wants))


def ctor_post(levels, times, curve, release=None):
    def post(c):
        made = [e for e in c.trace if e[0] == 'Env']
        if len(made) != 1 or c.resultv is not made[0][3]:
            return z3.BoolVal(False)
        names = ['levels', 'times', 'curves', 'release_node', 'loop_node', 'offset']
        got = dict(zip(names, made[0][1])); got.update(made[0][2])
        lv = got.get('levels')
        ok = lv is not None and (is_list(c, lv, levels) if isinstance(levels, list) else matches(c, lv, levels))
        ok = ok and got.get('times') is not None and is_list(c, got['times'], times)
        if curve == 'default':
            ok = ok and ('curves' not in got or matches(c, got['curves'], ('str', 'lin')))
        else:
            ok = ok and 'curves' in got and matches(c, got['curves'], curve)
        if release is None:
            ok = ok and ('release_node' not in got or got['release_node'].k == 'none')
        else:
            ok = ok and 'release_node' in got and is_num(got['release_node'], release)
        ok = ok and ('loop_node' not in got or got['loop_node'].k == 'none') and ('offset' not in got or is_num(got['offset'], 0))
        return z3.BoolVal(bool(ok))
    return post


HOOKS = {'construct': ec_construct, 'binop': ec_binop, 'getattr': ec_getattr}
POL = {U + '::list_binop': ec_list_binop}


def ctor(name, params, levels, times, curve, release=None):
    contract(F, 'Env.' + name, props=('C19',), params=dict({'cls': 'cls'}, **{p: 'obj' for p in params}),
             ensures=[('one-envelope-with-the-documented-breakpoints', ctor_post(levels, times, curve, release))],
             modifies=[], fields={'Env': {}}, class_modules={'Env': F}, hooks=HOOKS, policies=POL, native=False)


ctor('triangle', ['dur', 'level'], [0, 'level', 0], [('half', 'dur'), ('half', 'dur')], 'default')
ctor('sine', ['dur', 'level'], [0, 'level', 0], [('half', 'dur'), ('half', 'dur')], ('str', 'sine'))
ctor('perc', ['attack_time', 'release_time', 'level', 'curve'], [0, 'level', 0], ['attack_time', 'release_time'], 'curve')
ctor('linen', ['attack_time', 'sustain_time', 'release_time', 'level', 'curve'], [0, 'level', 'level', 0],
     ['attack_time', 'sustain_time', 'release_time'], 'curve')
ctor('asr', ['attack_time', 'sustain_level', 'release_time', 'curve'], [0, 'sustain_level', 0],
     ['attack_time', 'release_time'], 'curve', 1)
ctor('adsr', ['attack_time', 'decay_time', 'sustain_level', 'release_time', 'peak_level', 'curve', 'bias'],
     ('biased', [0, 'peak_level', ('product', 'peak_level', 'sustain_level'), 0], 'bias'),
     ['attack_time', 'decay_time', 'release_time'], 'curve', 2)
ctor('dadsr', ['delay_time', 'attack_time', 'decay_time', 'sustain_level', 'release_time', 'peak_level', 'curve', 'bias'],
     ('biased', [0, 0, 'peak_level', ('product', 'peak_level', 'sustain_level'), 0], 'bias'),
     ['delay_time', 'attack_time', 'decay_time', 'release_time'], 'curve', 3)


# ---- cutoff: the release level depends on the curve's shape number ---------------------------------------------------------------
SHAPE_NO = z3.Int('shape_number_of_the_curve')


def cut_shape(eng, selfv, args, kwargs, st, node):
    st.trace.append(('shape-number', tuple(args)))
    return [(st, vint(SHAPE_NO))]


def cut_dbamp(eng, selfv, args, kwargs, st, node):
    return [(st, V('obj', oid='dbamp', extra={'db': args[0]}))]


def cutoff_post(c):
    made = [e for e in c.trace if e[0] == 'Env']
    asked = [e for e in c.trace if e[0] == 'shape-number']
    if len(made) != 1 or c.resultv is not made[0][3] or not asked or asked[0][1][0] is not c._params['curve']:
        return z3.BoolVal(False)
    a = made[0][1]
    if len(a) != 4 or made[0][2]:
        return z3.BoolVal(False)
    lv, tm, cv, rn = a
    if not (lv.k == 'list' and lv.items is not None and len(lv.items) == 2 and lv.items[0] is c._params['level']
            and is_list(c, tm, ['release_time']) and cv is c._params['curve'] and is_num(rn, 0)):
        return z3.BoolVal(False)
    rl = lv.items[1]
    if rl.k == 'obj' and rl.oid == 'dbamp':
        return z3.And(SHAPE_NO == 2, z3.BoolVal(is_num(rl.extra['db'], -100)))        # exponential: cannot reach 0, ends at -100 dB
    return z3.And(SHAPE_NO != 2, z3.BoolVal(is_num(rl, 0)))


contract(F, 'Env.cutoff', props=('C19',), params={'cls': 'cls', 'release_time': 'obj', 'level': 'obj', 'curve': 'obj'},
         ensures=[('level-held-then-released-to-0-or-to-minus-100-dB-for-an-exponential-curve;release-node-0', cutoff_post)],
         modifies=[], fields={'Env': {}}, class_modules={'Env': F}, hooks=HOOKS,
         policies={'Env._shape_number': cut_shape, 'sc3/base/builtins.py::dbamp': cut_dbamp}, native=False)


# ---- Env.__init__: the time list is wrapped to the number of segments ------------------------------------------------------------
# levels (or a non-empty default when none or empty) are kept as given; times - as a list, or a default when none/empty -
# are wrapped (utl.wrap_extend: element i mod len, proved in base_utils) to exactly len(levels) - 1 segments; curves,
# release node, loop node and offset are kept as given.
NLEV = z3.Int('levels.len')


def levels_kind(eng, name):
    return V('seq', extra={'len': NLEV, 'facts': [NLEV >= 0], 'callers-levels': True,
                           'get': (lambda e_, i, s_: V('any', z3.Function('level_at', z3.IntSort(), Any)(i)))})


def in_as_list(eng, selfv, args, kwargs, st, node):
    r = V('obj', oid='as-list', extra={'of': args[0]})
    st.trace.append(('as_list', args[0], r))
    return [(st, r)]


def in_wrap_extend(eng, selfv, args, kwargs, st, node):
    r = V('obj', oid='wrapped', extra={'of': args[0], 'n': args[1]})
    st.trace.append(('wrap_extend', tuple(args), r))
    return [(st, r)]


def in_truth(eng, v, st, node):
    if v.k == 'obj' and v.oid == 'times':
        return z3.Bool('times_given_and_not_empty')
    return None


def in_getattr(eng, obj, name, st, node):
    return None


def init_post(c):
    o = c.st.objs.get('self', {})
    lv, tm = o.get('levels'), o.get('times')
    if lv is None or tm is None or tm.k != 'obj' or tm.oid != 'wrapped':
        return z3.BoolVal(False)
    src, n = tm.extra['of'], tm.extra['n']
    if not (src.k == 'obj' and src.oid == 'as-list') or n.k != 'int':
        return z3.BoolVal(False)
    given = z3.Bool('times_given_and_not_empty')
    t0 = src.extra['of']
    cl = []
    # the levels: the caller's when there are any, else some non-empty default (which one is not C19's business)
    if c.kinds.get('levels') != 'none' and lv is c._params['levels']:
        cl += [NLEV > 0, n.z == NLEV - 1]
    else:
        k = len(lv.items) if lv.k == 'list' and lv.items is not None else 0
        cl += [z3.BoolVal(k >= 1), n.z == k - 1]
        if c.kinds.get('levels') != 'none':
            cl.append(NLEV == 0)
    # the times that are wrapped: the caller's when there are any
    if c.kinds.get('times') != 'none' and t0 is c._params['times']:
        cl.append(given)
    elif c.kinds.get('times') != 'none':
        cl.append(z3.Not(given))
    kept = all(o.get(f) is c._params[p] for f, p in (('curves', 'curves'), ('release_node', 'release_node'),
                                                     ('loop_node', 'loop_node'), ('offset', 'offset')))
    cl.append(z3.BoolVal(bool(kept)))
    return z3.And(*cl)


def in_super(eng, name, args, kwargs, st, node):
    if name == 'super':
        def init(eng_, a, kw, st_, node_):
            return [(st_, NONE)]
        return [(st, V('obj', oid='super', extra={'init': V('func', py=('spec', init))}))]
    return None


def in_getattr(eng, obj, name, st, node):
    if obj.k == 'obj' and obj.oid == 'super' and name == '__init__':
        return [(st, obj.extra['init'])]
    if obj.k == 'module' and name == 'UGenParameter':
        return [(st, V('obj', oid='UGenParameter'))]
    return None


contract(F, 'Env.__init__', props=('C19',),
         params={'self': 'self', 'levels': ['none', levels_kind], 'times': ['none', 'obj'], 'curves': 'obj', 'release_node': 'obj',
                 'loop_node': 'obj', 'offset': 'obj'},
         ensures=[('levels-kept-or-defaulted;times-wrapped-to-len(levels)-1;the-rest-kept', init_post)],
         fields={'Env': {'levels': 'obj', 'times': 'obj', 'curves': 'obj', 'release_node': 'obj', 'loop_node': 'obj', 'offset': 'obj',
                         '_Env__envgen_format': 'obj', '_Env__interpolation_format': 'obj'}},
         class_modules={'Env': F}, hooks={'truth': in_truth, 'builtin_first': in_super, 'getattr': in_getattr},
         policies={U + '::as_list': in_as_list, U + '::wrap_extend': in_wrap_extend}, native=False)
