"""Contracts for what a change of the beat/second map must do for the tasks that are already waiting (C10: "the same
program of ... tempo changes ... produces in non-real-time mode the same sequence ... as in real-time mode"):
sc3/base/clock.py.

In real time a tempo clock's thread sleeps until the deadline it computed from the OLD map.  Every method that changes
the map - the tempo setter, etempo, the beats setter - therefore wakes that thread (one notify on the clock's condition,
under its lock) so that the deadline is recomputed; in non-real time there is no thread and nothing is notified.  Without
the wake-up a pending task runs when the old map said, which is not when the non-real-time run executes it.

(The arithmetic of these methods - continuity of the current beat/second pair - is C12: base_clock.)
"""
import z3
from vf.pyvc.spec import contract, REGISTRY
from vf.pyvc.values import *
from . import base_clock as B

F = B.F


def variant(qual, tag):
    key = '%s::%s#%s' % (F, qual, tag)
    REGISTRY[key] = REGISTRY.pop('%s::%s' % (F, qual))
    REGISTRY[key].key = key


for qual, pre, raises in (
        ('TempoClock.tempo@setter', lambda c: B.inv(c.pre.self),
         {'ValueError': None, 'ClockNotRunning': None}),
        ('TempoClock.etempo', lambda c: c.pre.self._beat_dur * c.pre.self._tempo == 1,
         {'ValueError': None, 'ClockNotRunning': None}),
        ('TempoClock.beats@setter', lambda c: B.inv(c.pre.self),
         {'ClockNotRunning': None})):
    saved = REGISTRY.pop('%s::%s' % (F, qual), None)
    contract(F, qual, props=('C10',), params={'self': 'self', 'value': 'num'}, requires=pre, raises=raises,
             ensures=[('wakes-the-clock-thread-in-real-time;nothing-to-wake-otherwise', B.wakes_clock_thread_in_rt)],
             **B.common)
    variant(qual, 'wakes-the-clock-thread')
    if saved is not None:
        REGISTRY['%s::%s' % (F, qual)] = saved
