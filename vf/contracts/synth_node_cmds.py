"""Contracts for the node commands that are straight-line (C17): each method sends exactly
the command the Server Command Reference names, with this object's own node id (and the
target's), once, and changes nothing of the object but what is listed.

  Node.free(send_flag)            /n_free id         (nothing when send_flag is false); group := None
  Node.run(flag)                  /n_run id int(flag)
  Node.trace()                    /n_trace id
  Node.move_before/after(target)  /n_before | /n_after id target.id; group := target.group
  Node.move_to_head/tail(target)  /g_head | /g_tail target.id id;    group := target
                                  (target None: delegated to the server's default group)
  Group._move_node_to_head/tail   /g_head | /g_tail gid node.id;     node.group := self
  Group.free_all / deep_free      /g_freeAll gid | /g_deepFree gid
  Group.dump_tree(controls)       /g_dumpTree gid int(controls)

`self.server.addr.send_msg(...)` is a ghost trace event ('send_msg', args); sending itself
(encoding, NetAddr) is C06/C07's. set/map/mapa/fill, release, query, Synth.get/getn and the
constructors are further down; mapn/mapan: synth_node_ctors; seti is bounded only (driver C17).
"""
import z3
from vf.pyvc import values as VV
from vf.pyvc.spec import contract, REGISTRY
from vf.pyvc.values import *
from vf.pyvc.engine import Raised, Unsupported

F = 'sc3/synth/node.py'
NODE = {'server': 'obj', 'node_id': 'int', 'group': 'any'}
FIELDS = {'Node': NODE, 'AbstractGroup': NODE, 'Target': NODE}


def h_getattr(eng, obj, name, st, node):
    if obj.k == 'obj' and str(obj.oid).endswith('.server') and name == 'addr':
        return [(st, V('obj', oid='addr-of:' + str(obj.oid)))]
    if obj.k == 'obj' and str(obj.oid).startswith('addr-of:') and name == 'send_msg':
        def send(eng, args, kwargs, st, node, _o=obj):
            st.trace.append(('send_msg', _o.oid, tuple(args)))
            return [(st, NONE)]
        return [(st, V('func', py=('spec', send)))]
    if obj.k == 'obj' and str(obj.oid).endswith('.server') and name == 'default_group':
        return [(st, V('obj', oid='default_group'))]
    if obj.k == 'obj' and obj.oid == 'default_group' and name in ('_move_node_to_head', '_move_node_to_tail'):
        def deleg(eng, args, kwargs, st, node, _n=name):
            st.trace.append(('default-group', _n, tuple(args)))
            return [(st, NONE)]
        return [(st, V('func', py=('spec', deleg)))]
    return None


HOOKS = {'getattr': h_getattr}


def sent(c):
    return [e for e in c.trace if e[0] in ('send_msg', 'default-group')]


def msg_is(c, own_addr, address, *args):
    """exactly one message, through this object's own server address, with these values"""
    s = sent(c)
    if len(s) != 1 or s[0][0] != 'send_msg' or s[0][1] != own_addr:
        return z3.BoolVal(False)
    a = s[0][2]
    if len(a) != 1 + len(args) or a[0].k != 'str' or a[0].py != address:
        return z3.BoolVal(False)
    cl = []
    for got, exp in zip(a[1:], args):
        if got.k not in ('int', 'bool'):
            return z3.BoolVal(False)
        cl.append(to_int(got) == exp)
    return z3.And(*cl) if cl else z3.BoolVal(True)


OWN = 'addr-of:self.server'


def nc(qual, params, post, modifies, cls=None, extra_fields=None, inline=()):
    cls = cls or qual.split('.')[0]
    fields = dict(FIELDS)
    fields.update(extra_fields or {})
    contract(F, qual, props=('C17',), params=params,
             ensures=[('exactly-the-reference-command-with-own-ids', post)],
             modifies=modifies, fields=fields, hooks=HOOKS, native=False,
             class_modules={k: F for k in fields}, inline=inline)


def b2i(b):
    return z3.If(b, 1, 0) if z3.is_bool(b) else b


def same_any(v, const_name):
    return isinstance(v, V) and v.k == 'any' and z3.is_const(v.z) and v.z.decl().name() == const_name


def is_none(v):
    return isinstance(v, V) and v.k == 'none'


# Node.free
nc('Node.free', {'self': 'self', 'send_flag': 'bool'},
   lambda c: z3.And(
       z3.BoolVal(is_none(c.post.self.v('group'))),
       z3.If(c.send_flag,
             msg_is(c, OWN, '/n_free', c.pre.self.node_id) if sent(c) else z3.BoolVal(False),
             z3.BoolVal(not sent(c)))),
   [('self', 'group')])
nc('Node.run', {'self': 'self', 'flag': ['bool', 'int']},
   lambda c: msg_is(c, OWN, '/n_run', c.pre.self.node_id, b2i(c.flag)), [])
nc('Node.trace', {'self': 'self'}, lambda c: msg_is(c, OWN, '/n_trace', c.pre.self.node_id), [])

for meth, addr in (('move_before', '/n_before'), ('move_after', '/n_after')):
    nc('Node.' + meth, {'self': 'self', 'target': 'ref:Target'},
       lambda c, _a=addr: z3.And(
           msg_is(c, OWN, _a, c.pre.self.node_id, c.pre.target.node_id),
           z3.BoolVal(same_any(c.post.self.v('group'), 'target.group'))),      # joins the target's group
       [('self', 'group')])

for meth, addr in (('_move_node_to_head', '/g_head'), ('_move_node_to_tail', '/g_tail')):
    nc('AbstractGroup.' + meth, {'self': 'self', 'node': 'ref:Target'},
       lambda c, _a=addr: z3.And(
           msg_is(c, OWN, _a, c.pre.self.node_id, c.pre.node.node_id),
           z3.BoolVal(c.post.node.v('group').k == 'ref' and c.post.node.v('group').oid == 'self')),
       [('node', 'group')])

nc('AbstractGroup.free_all', {'self': 'self'}, lambda c: msg_is(c, OWN, '/g_freeAll', c.pre.self.node_id), [])
nc('AbstractGroup.deep_free', {'self': 'self'}, lambda c: msg_is(c, OWN, '/g_deepFree', c.pre.self.node_id), [])
nc('AbstractGroup.dump_tree', {'self': 'self', 'controls': ['bool', 'int']},
   lambda c: msg_is(c, OWN, '/g_dumpTree', c.pre.self.node_id, b2i(c.controls)), [])


# Node.move_to_head/tail: with a target group the command names the TARGET as group and this
# node as the node moved, through the target's own server address; without one it is handed
# to the server's default group
def moved_to(addr, meth):
    def post(c):
        t = c._params['target']
        s = sent(c)
        if is_none(t):
            return z3.BoolVal(len(s) == 1 and s[0][0] == 'default-group' and s[0][1] == meth
                              and len(s[0][2]) == 1 and s[0][2][0].k == 'ref' and s[0][2][0].oid == 'self')
        return z3.And(msg_is(c, 'addr-of:target.server', addr, c.pre.target.node_id, c.pre.self.node_id),
                      z3.BoolVal(c.post.self.v('group').k == 'ref' and c.post.self.v('group').oid == 'target'))
    return post


for meth, addr, gm in (('move_to_head', '/g_head', '_move_node_to_head'),
                       ('move_to_tail', '/g_tail', '_move_node_to_tail')):
    nc('Node.' + meth, {'self': 'self', 'target': ['none', 'ref:AbstractGroup']}, moved_to(addr, gm),
       [('self', 'group')], inline=('AbstractGroup.' + gm,))


# ---- constructors that send: AbstractGroup.__init__, Synth.__init__ ---------------------------------
# A FRESH node id is taken from the target's server (one call of _next_node_id), the object joins the
# target's group (head/tail actions: the target itself; before/after/replace: the target's group), and
# exactly one creation command goes out through that server's address:
#     group:  creation_cmd(), id, add action number, target id
#     synth:  '/s_new', definition name, id, add action number, target id, then the converted arguments
ACT = z3.Int('add_action_id')


def nc2_getattr(eng, obj, name, st, node):
    r = h_getattr(eng, obj, name, st, node)
    if r is not None:
        return r
    if obj.k == 'obj' and obj.oid == 'param' and name == '_as_target':
        return [(st, V('func', py=('spec', lambda eng, a, kw, st, node: [(st, V('ref', cls='Target', oid='target'))])))]
    if obj.k == 'obj' and obj.oid == 'param' and name == '_as_osc_arg_list':
        def conv(eng, a, kw, st, node, _o=obj):
            return [(st, vlist([V('any', z3.Const('arg0', VV_Any)), V('any', z3.Const('arg1', VV_Any))]))]
        return [(st, V('func', py=('spec', conv)))]
    if obj.k == 'obj' and str(obj.oid).endswith('.server') and name == '_next_node_id':
        def nid(eng, a, kw, st, node, _o=obj):
            v = vint(eng.fresh('fresh_node_id', z3.IntSort()))
            st.trace.append(('next-id', _o.oid, v))
            return [(st, v)]
        return [(st, V('func', py=('spec', nid)))]
    if obj.k == 'obj' and obj.oid == 'super' and name == '__init__':
        def sup(eng, a, kw, st, node):
            st.trace.append(('node-init',))
            return [(st, NONE)]
        return [(st, V('func', py=('spec', sup)))]
    if obj.k == 'class' and name == 'add_actions':
        return [(st, V('obj', oid='add_actions'))]
    if obj.k == 'ref' and obj.oid == 'self' and name == 'creation_cmd':
        return [(st, V('func', py=('spec', lambda eng, a, kw, st, node: [(st, V('obj', oid='creation-cmd'))])))]
    return None


from vf.pyvc import values as _VV
VV_Any = _VV.Any


def nc2_getitem(eng, obj, idx, st, node):
    if obj.k == 'obj' and obj.oid == 'add_actions':
        st.pc.append(z3.And(ACT >= 0, ACT <= 4))
        return [(st, vint(ACT))]
    return None


def nc2_builtin(eng, name, args, kwargs, st, node):
    if name == 'super' and not args:
        return [(st, V('obj', oid='super'))]
    return None


def node_param(eng, selfv, args, kwargs, st, node):
    return [(st, V('obj', oid='param', extra={'of': args[0]}))]


def traced2(name):
    def pol(eng, selfv, args, kwargs, st, node):
        st.trace.append((name, tuple(args)))
        return [(st, NONE)]
    return pol


def ctor_post(kind):
    def post(c):
        ids = [e for e in c.trace if e[0] == 'next-id']
        s = [e for e in c.trace if e[0] == 'send_msg']
        if len(ids) != 1 or len(s) != 1 or ids[0][1] != 'target.server' or s[0][1] != 'addr-of:target.server':
            return z3.BoolVal(False)
        nid = ids[0][2]
        a = s[0][2]
        me = c.post.self
        g = c.post.self.v('group')
        tgt_group = same_any(g, 'target.group')
        tgt_itself = g.k == 'ref' and g.oid == 'target'
        head = 4 if kind == 'group' else 5
        if len(a) < head:
            return z3.BoolVal(False)
        if kind == 'group':
            shape = a[0].k == 'obj' and a[0].oid == 'creation-cmd' and len(a) == 4
            idv, actv, tgtv = a[1], a[2], a[3]
        else:
            shape = (a[0].k == 'str' and a[0].py == '/s_new' and a[1] is c._params['def_name'] and len(a) == 7
                     and a[5].k == 'any' and a[6].k == 'any' and str(a[5].z) == 'arg0' and str(a[6].z) == 'arg1')
            idv, actv, tgtv = a[2], a[3], a[4]
        if not shape or idv.k != 'int' or actv.k != 'int' or tgtv.k != 'int':
            return z3.BoolVal(False)
        regs = [e for e in c.trace if e[0] == 'register']
        watched = (len(regs) == 1 and len(regs[0]) > 1 and len(regs[0][1]) == 1 and regs[0][1][0] is c._params['register']
                   and c.trace.index(regs[0]) < c.trace.index(s[0]))      # watch state set up (as asked) BEFORE the node exists
        if not watched:
            return z3.BoolVal(False)
        return z3.And(idv.z == nid.z, me.node_id == nid.z,                 # the fresh id, in the object and in the command
                      actv.z == ACT, tgtv.z == c.pre.target.node_id if False else tgtv.z == z3.Int('target.node_id'),
                      z3.If(ACT < 2, z3.BoolVal(bool(tgt_itself)), z3.BoolVal(bool(tgt_group))))
    return post


CT_FIELDS = {'AbstractGroup': dict(NODE, def_name='any'), 'Synth': dict(NODE, def_name='any'), 'Target': NODE}
for qual, kind, params in (('AbstractGroup.__init__', 'group', {'self': 'self', 'target': 'any', 'add_action': 'any', 'register': 'bool'}),
                           ('Synth.__init__', 'synth', {'self': 'self', 'def_name': 'any', 'args': 'any', 'target': 'any',
                                                        'add_action': 'any', 'register': 'bool'})):
    cls = qual.split('.')[0]
    contract(F, qual, props=('C17', 'C16'), params=params,
             ensures=[('fresh-id;joins-the-right-group;one-creation-command-in-reference-order', ctor_post(kind))],
             modifies=[('self', 'server'), ('self', 'node_id'), ('self', 'group'), ('self', 'def_name')],
             fields=CT_FIELDS, hooks={'getattr': nc2_getattr, 'getitem': nc2_getitem, 'builtin': nc2_builtin},
             policies={'sc3/synth/_graphparam.py::node_param': node_param,
                       cls + '._init_register': traced2('register'), 'Node._init_register': traced2('register'),
                       'Node.__init__': traced2('node-init'), cls + '.__init__@super': traced2('node-init')},
             class_modules={k: F for k in CT_FIELDS}, native=False,
             note='the conversions gpp.node_param(...)._as_target() / _as_osc_arg_list() are opaque (two converted '
                  'arguments stand for the argument list); the add action is any entry of the class table (0..4)')


# ---- Buffer.free (C17: "free emits the matching free command for every owned id exactly once, a second free
#      emits none"; the completion function is evaluated with the buffer as it IS, before it is wiped) -----------
FB = 'sc3/synth/buffer.py'
FNV = 'sc3/base/functions.py'


def bf_getattr(eng, obj, name, st, node):
    if obj.k == 'obj' and obj.oid == 'self._server':
        if name == '_buffer_allocator':
            return [(st, V('obj', oid='allocator'))]
        if name == 'addr':
            return [(st, V('obj', oid='addr-of:self._server'))]
    if obj.k == 'obj' and obj.oid == 'allocator' and name == 'free':
        def fr(eng, args, kwargs, st, node):
            st.trace.append(('alloc-free', tuple(args)))
            return [(st, NONE)]
        return [(st, V('func', py=('spec', fr)))]
    if obj.k == 'obj' and obj.oid == 'addr-of:self._server' and name == 'send_msg':
        def send(eng, args, kwargs, st, node):
            st.trace.append(('send_msg', tuple(args)))
            return [(st, NONE)]
        return [(st, V('func', py=('spec', send)))]
    return None


def bf_value(eng, selfv, args, kwargs, st, node):
    # fn.value(completion_msg, self): what the function sees of the buffer at THIS moment
    num = st.objs.get('self', {}).get('_bufnum')
    r = V('obj', oid='completion-result')
    st.trace.append(('completion', tuple(args), num, r))
    return [(st, r)]


def bf_traced(name):
    def pol(eng, selfv, args, kwargs, st, node):
        st.trace.append((name,))
        return [(st, NONE)]
    return pol


def buffer_free_post(kind):
    def post(c):
        t = [e for e in c.trace if e[0] in ('alloc-free', 'send_msg', 'completion', 'uncache')]
        if kind == 'freed':
            return z3.BoolVal(not t and not c.st.ghost.get('written'))            # a second free: nothing at all
        k = [e[0] for e in t]
        if sorted(k) != ['alloc-free', 'completion', 'send_msg', 'uncache'] or k[-1] != 'send_msg':
            return z3.BoolVal(False)
        af = [e for e in t if e[0] == 'alloc-free'][0]
        comp = [e for e in t if e[0] == 'completion'][0]
        send = t[-1]
        n0 = c.pre.self._bufnum
        wiped = all((lambda v: v is not None and v.k == 'none')(c.st.objs.get('self', {}).get(f))
                    for f in ('_bufnum', '_frames', '_channels', '_sample_rate', '_path', '_start_frame'))
        m = send[1]
        ok = (len(af[1]) == 1 and af[1][0].k == 'int' and len(comp[1]) == 2 and comp[1][1].k == 'ref'
              and comp[1][1].oid == 'self' and comp[2] is not None and comp[2].k == 'int'   # sees the number, not None
              and len(m) == 3 and m[0].k == 'str' and m[0].py == '/b_free' and m[1].k == 'int' and m[2] is comp[3]
              and wiped)
        if not ok:
            return z3.BoolVal(False)
        return z3.And(af[1][0].z == n0, comp[2].z == n0, m[1].z == n0)            # all three about the SAME number
    return post


BUF = {'_server': 'obj', '_frames': 'any', '_channels': 'any', '_sample_rate': 'any', '_path': 'any',
       '_start_frame': 'any'}
for kind, numk in (('live', 'int'), ('freed', 'none')):
    contract(FB, 'Buffer.free', props=('C17', 'C16'), params={'self': 'self', 'completion_msg': 'obj'},
             ensures=[('number-returned-once,one-b_free-with-the-completion-evaluated-before-the-wipe;second-free-silent',
                       buffer_free_post(kind))],
             fields={'Buffer': dict(BUF, _bufnum=numk)}, hooks={'getattr': bf_getattr},
             policies={FNV + '::value': bf_value, 'Buffer._uncache': bf_traced('uncache')},
             class_modules={'Buffer': FB}, native=False)
    key = '%s::Buffer.free#%s' % (FB, kind)
    REGISTRY[key] = REGISTRY.pop('%s::Buffer.free' % FB)
    REGISTRY[key].key = key


# ---- Server._free_all_buffers (C17: "Buffer.free_all: one /b_free per allocated buffer number") ---------------
from vf.pyvc.spec import Loop
FSV = 'sc3/synth/server.py'
BADDR = z3.Function('block_address', z3.IntSort(), z3.IntSort())
BSIZE = z3.Function('block_size', z3.IntSort(), z3.IntSort())
NBLK = z3.Int('blocks.len')


def fab_getattr(eng, obj, name, st, node):
    if obj.k == 'obj' and obj.oid == 'self._buffer_allocator':
        if name == 'blocks':
            def blocks(eng, args, kwargs, st, node):
                def get(eng_, i, st_):
                    tag = str(z3.simplify(i)).replace(' ', '')
                    return V('ref', cls='ABlock', oid='block[%s]' % tag, extra={'index': i})
                return [(st, V('seq', extra={'len': NBLK, 'facts': [NBLK >= 0], 'get': get}))]
            return [(st, V('func', py=('spec', blocks)))]
        if name == 'free':
            def fr(eng, args, kwargs, st, node):
                st.trace.append(('alloc-free', args[0]))
                return [(st, NONE)]
            return [(st, V('func', py=('spec', fr)))]
    if obj.k == 'ref' and obj.cls == 'ABlock' and name in ('address', 'size'):
        i = obj.extra['index']
        return [(st, vint((BADDR if name == 'address' else BSIZE)(i)))]
    if obj.k == 'ref' and obj.cls == 'MsgList' and name == 'append':
        def app(eng, args, kwargs, st, node):
            st.trace.append(('msg', args[0]))
            return [(st, NONE)]
        return [(st, V('func', py=('spec', app)))]
    if obj.k == 'ref' and obj.oid == 'self' and name == 'addr':
        return [(st, V('obj', oid='self.addr'))]
    if obj.k == 'obj' and obj.oid == 'self.addr' and name == 'send_bundle':
        def sb(eng, args, kwargs, st, node):
            st.trace.append(('send_bundle', tuple(args)))
            return [(st, NONE)]
        return [(st, V('func', py=('spec', sb)))]
    return None


def fab_new_list(eng, items, st):
    if items == [] and not [e for e in st.trace if e[0] == 'new-msg-list']:
        st.trace.append(('new-msg-list',))
        return V('ref', cls='MsgList', oid='the-bundle')
    return None


def fab_since(trace, ordinal):
    idx = -1
    for i, e in enumerate(trace):
        if e[0] == 'loop-head' and e[1] == ordinal:
            idx = i
    return trace[idx + 1:] if idx >= 0 else None


def fab_inner(c, L):
    ev = fab_since(c.trace, 1)
    if not ev:
        return z3.BoolVal(True)
    ev = [e for e in ev if e[0] in ('msg', 'alloc-free', 'send_bundle')]
    if len(ev) != 1 or ev[0][0] != 'msg':
        return z3.BoolVal(False)
    m = ev[0][1]
    blk = c.st.env['block']
    ok = m.k == 'list' and m.items is not None and len(m.items) == 2 and m.items[0].k == 'str' \
        and m.items[0].py == '/b_free' and m.items[1].k == 'int' and blk.k == 'ref'
    if not ok:
        return z3.BoolVal(False)
    return m.items[1].z == BADDR(blk.extra['index']) + (L.i - 1)            # the (i-1)-th number of this block


def fab_outer(c, L):
    ev = fab_since(c.trace, 0)
    if not ev:
        return z3.BoolVal(True)
    fr = [e for e in ev if e[0] == 'alloc-free']
    if len(fr) != 1 or fr[0][1].k != 'int' or [e for e in ev if e[0] == 'send_bundle']:
        return z3.BoolVal(False)
    n_inner = c.st.env.get('__i1')                                            # passes of the inner loop, at its exit
    if n_inner is None or n_inner.k != 'int':
        return z3.BoolVal(False)
    return z3.And(fr[0][1].z == BADDR(L.i - 1),                               # block i-1 returned to the allocator, once
                  n_inner.z == BSIZE(L.i - 1))                                # and ALL its numbers got a message


def fab_post(c):
    sends = [e for e in c.trace if e[0] == 'send_bundle']
    ok = (len(sends) == 1 and c.trace[-1] is sends[0] and len(sends[0][1]) == 2 and sends[0][1][0].k == 'none'
          and sends[0][1][1].k == 'star' and sends[0][1][1].extra['seq'].k == 'ref'
          and sends[0][1][1].extra['seq'].oid == 'the-bundle')               # ONE bundle, immediate, with all the messages
    return z3.BoolVal(bool(ok))


contract(FSV, 'Server._free_all_buffers', props=('C17', 'C16'), params={'self': 'self'},
         requires=lambda c: z3.ForAll([z3.Int('k')], BSIZE(z3.Int('k')) >= 1),
         ensures=[('one-bundle-with-one-b_free-per-number-of-every-block;every-block-returned', fab_post)],
         loops={0: Loop(inv=fab_outer, kinds={'block': (lambda eng, n: V('obj', oid='havoc')), 'i': 'int'}),
                1: Loop(inv=fab_inner, kinds={'i': 'int'})},
         fields={'Server': {'_buffer_allocator': 'obj'}, 'ABlock': {}, 'MsgList': {}},
         hooks={'getattr': fab_getattr, 'new_list': fab_new_list},
         class_modules={'Server': FSV, 'ABlock': FSV, 'MsgList': FSV}, native=False)


# ---- commands whose arguments are converted lists (set, map, mapa, fill, mapn, mapan, release, get, getn, query) ----
# "/n_set id <converted args...>": ONE message, the reference command, this node's id, and then exactly the
# converted argument sequence (gpp.node_param(args)._as_osc_arg_list() / _as_control_input() - the conversion is
# a ghost call on exactly the arguments given; what it produces is C17's bounded part and C06's encoding).
G = 'sc3/synth/_graphparam.py'


def np_pol(eng, selfv, args, kwargs, st, node):
    return [(st, V('obj', oid='node-param!%d' % next(eng.counter), extra={'param_of': args[0]}))]


def dyn_getattr(eng, obj, name, st, node):
    if obj.k == 'obj' and obj.extra and 'param_of' in obj.extra and name in ('_as_osc_arg_list', '_as_control_input'):
        def conv(eng, a, kw, st, node, _o=obj, _n=name):
            r = V('obj', oid='converted!%d' % next(eng.counter), extra={'converted': (_n, _o.extra['param_of'])})
            return [(st, r)]
        return [(st, V('func', py=('spec', conv)))]
    if obj.k == 'obj' and str(obj.oid).startswith('addr-of:') and name == 'send_bundle':
        def sendb(eng, args, kwargs, st, node, _o=obj):
            st.trace.append(('send_bundle', _o.oid, tuple(args)))
            return [(st, NONE)]
        return [(st, V('func', py=('spec', sendb)))]
    if obj.k == 'obj' and str(obj.oid).endswith('.server') and name == 'latency':
        return [(st, V('obj', oid='server-latency'))]
    if obj.k == 'module' and name == 'OscFunc':
        return [(st, V('class', py='OscFunc'))]
    if obj.k == 'obj' and obj.extra and 'responder' in obj.extra and name == 'one_shot':
        def one_shot(eng, a, kw, st, node, _o=obj):
            st.trace.append(('one-shot', _o))
            return [(st, NONE)]
        return [(st, V('func', py=('spec', one_shot)))]
    return h_getattr(eng, obj, name, st, node)


REPLY = z3.Function('reply_item', z3.IntSort(), VV.Any)
NREPLY = z3.Int('reply.len')


def dyn_construct(eng, f, args, kwargs, st, node):
    if f.k == 'class' and f.py == 'OscFunc':
        r = V('obj', oid='responder!%d' % next(eng.counter), extra={'responder': (tuple(args), dict(kwargs))})
        handled = None
        if args and args[0].k == 'func' and args[0].py[0] == 'closure' and args[0].py[1].name != '<lambda>':
            # what the reply handler DOES with a reply: run once on an arbitrary reply message
            probe = st.fork()
            n0 = len(probe.trace)
            msg = V('seq', extra={'len': NREPLY, 'reply': True, 'get': (lambda e_, i, s_: V('any', REPLY(i)))})
            probe.pc.append(NREPLY >= 8)
            handled = []
            for st1, res in eng.call_closure(args[0], [msg, V('obj', oid='t'), V('obj', oid='a'), V('obj', oid='p')], {}, probe, node):
                handled.append(([e for e in st1.trace[n0:] if e[0] == 'action-called'], isinstance(res, Raised)))
        st.trace.append(('responder', tuple(args), dict(kwargs), r, handled))
        return [(st, r)]
    return None


def action_pol(eng, selfv, args, kwargs, st, node):
    st.trace.append(('action-called', tuple(args)))
    return [(st, NONE)]


def handler_passes(what):
    """the reply handler calls the caller's action once with the value(s) of the reply: item 3 / items 4.."""
    def post(c):
        rs = [e for e in c.trace if e[0] == 'responder']
        if len(rs) != 1 or rs[0][4] is None or len(rs[0][4]) != 1:
            return z3.BoolVal(False)
        calls, raised = rs[0][4][0]
        if raised or len(calls) != 1 or len(calls[0][1]) != 2 or calls[0][1][0] is not c._params['action']:
            return z3.BoolVal(False)
        v = calls[0][1][1]
        if what == 'item3':
            return v.z == REPLY(3) if v.k == 'any' else z3.BoolVal(False)
        so = v.extra.get('slice_of') if v.k == 'seq' and v.extra else None
        if so is None or not so[0].get('reply'):
            return z3.BoolVal(False)
        return z3.Implies(NREPLY >= 8, z3.And(so[1] == 4, v.extra['len'] == NREPLY - 4))
    return post


def starred_conversion(a, which, params_args):
    """the argument after the fixed ones is *<conversion of exactly the args given>"""
    if a.k != 'star':
        return False
    sq = a.extra.get('seq')
    conv = sq.extra.get('converted') if sq is not None and sq.k == 'obj' and sq.extra else None
    return conv is not None and conv[0] == which and conv[1] is params_args


def dyn_msg(address, which, fixed=()):
    def post(c):
        s = [e for e in c.trace if e[0] in ('send_msg', 'send_bundle')]
        if len(s) != 1 or s[0][0] != 'send_msg' or s[0][1] != OWN:
            return z3.BoolVal(False)
        a = s[0][2]
        n_fixed = 2 + len(fixed)
        ok = (len(a) == n_fixed + 1 and a[0].k == 'str' and a[0].py == address and a[1].k == 'int'
              and all(a[2 + i] is c._params[p] for i, p in enumerate(fixed))
              and starred_conversion(a[n_fixed], which, c._params['args']))
        return z3.And(z3.BoolVal(bool(ok)), a[1].z == c.pre.self.node_id) if ok else z3.BoolVal(False)
    return post


def args_tuple_kind(eng, name):
    return V('obj', oid='the-args')


DYN = dict(fields=FIELDS, hooks={'getattr': dyn_getattr, 'construct': dyn_construct}, native=False,
           class_modules={k: F for k in FIELDS}, policies={G + '::node_param': np_pol})
for meth, address, which in (('set', '/n_set', '_as_osc_arg_list'), ('map', '/n_map', '_as_control_input'),
                             ('mapa', '/n_mapa', '_as_control_input')):
    contract(F, 'Node.' + meth, props=('C17',), params={'self': 'self', 'args': args_tuple_kind},
             ensures=[('one-reference-command,own-id,then-exactly-the-converted-arguments', dyn_msg(address, which))],
             modifies=[], **DYN)
contract(F, 'Node.fill', props=('C17',),
         params={'self': 'self', 'cname': 'obj', 'num_controls': 'obj', 'value': 'obj', 'args': args_tuple_kind},
         ensures=[('one-reference-command,own-id,the-first-triple,then-the-converted-rest',
                   dyn_msg('/n_fill', '_as_control_input', ('cname', 'num_controls', 'value')))],
         modifies=[], **DYN)


# release: a gate of 0 (normal release), -1 (immediately), or -(time + 1) (forced release in `time` seconds),
# set on THIS node in a bundle stamped with the server's latency
def release_post(c):
    s = [e for e in c.trace if e[0] in ('send_msg', 'send_bundle')]
    if len(s) != 1 or s[0][0] != 'send_bundle' or s[0][1] != OWN or len(s[0][2]) != 2:
        return z3.BoolVal(False)
    lat, msg = s[0][2]
    ok = (lat.k == 'obj' and lat.oid == 'server-latency' and msg.k == 'list' and msg.items is not None and len(msg.items) == 4
          and msg.items[0].k == 'str' and msg.items[0].py == '/n_set' and msg.items[1].k == 'int'
          and msg.items[2].k == 'str' and msg.items[2].py == 'gate' and is_num(msg.items[3]))
    if not ok:
        return z3.BoolVal(False)
    gate = to_real(msg.items[3])
    if c.kinds['time'] == 'none':
        want = gate == 0
    else:
        t = z3.ToReal(c.time) if z3.is_int(c.time) else c.time
        want = gate == z3.If(t <= 0, -1, -(t + 1))
    return z3.And(msg.items[1].z == c.pre.self.node_id, want)


contract(F, 'Node.release', props=('C17',), params={'self': 'self', 'time': ['none', 'int', 'real']},
         ensures=[('gate-0|-1|-(time+1)-on-own-id,in-a-bundle-at-the-server-latency', release_post)],
         modifies=[], **DYN)


# get / getn / query: the reply is awaited BEFORE the request is sent - a one-shot responder for the reply address,
# from this node's server, filtered by this node's id (and the control asked for) - and then ONE request
def ask_post(request, reply, template, extra):
    def post(c):
        t = [e for e in c.trace if e[0] in ('responder', 'one-shot', 'send_msg', 'send_bundle')]
        if [e[0] for e in t] != ['responder', 'one-shot', 'send_msg']:
            return z3.BoolVal(False)
        rsp, one, snd = t
        pos, kw = rsp[1], rsp[2]
        tpl = kw.get('arg_template')
        ok = (len(pos) == 3 and pos[1].k == 'str' and pos[1].py == reply
              and pos[2].k == 'obj' and pos[2].oid == OWN                     # replies from THIS node's server
              and one[1] is rsp[3]                                             # made one-shot
              and tpl is not None and tpl.k == 'list' and tpl.items is not None and len(tpl.items) == len(template)
              and tpl.items[0].k == 'int'
              and all(tpl.items[1 + i] is c._params[p] for i, p in enumerate(template[1:]))
              and snd[1] == OWN and len(snd[2]) == 2 + len(extra) and snd[2][0].k == 'str' and snd[2][0].py == request
              and snd[2][1].k == 'int' and all(snd[2][2 + i] is c._params[p] for i, p in enumerate(extra)))
        if not ok:
            return z3.BoolVal(False)
        return z3.And(tpl.items[0].z == c.pre.self.node_id, snd[2][1].z == c.pre.self.node_id)
    return post


contract(F, 'Synth.get', props=('C17',), params={'self': 'self', 'index': 'obj', 'action': 'obj'},
         ensures=[('one-shot-responder-for-the-reply-filtered-by-own-id-and-control,then-one-request',
                   ask_post('/s_get', '/n_set', ['id', 'index'], ['index'])),
                  ('the-reply-handler-hands-the-value-of-the-reply-to-the-action', handler_passes('item3'))],
         modifies=[], **dict(DYN, fields=dict(FIELDS, Synth=NODE), class_modules=dict({k: F for k in FIELDS}, Synth=F),
                             policies={G + '::node_param': np_pol, 'sc3/base/functions.py::value': action_pol}))
contract(F, 'Synth.getn', props=('C17',), params={'self': 'self', 'index': 'obj', 'count': 'obj', 'action': 'obj'},
         ensures=[('one-shot-responder-for-the-reply-filtered-by-own-id-and-control,then-one-request',
                   ask_post('/s_getn', '/n_setn', ['id', 'index'], ['index', 'count'])),
                  ('the-reply-handler-hands-the-values-of-the-reply-to-the-action', handler_passes('from4'))],
         modifies=[], **dict(DYN, fields=dict(FIELDS, Synth=NODE), class_modules=dict({k: F for k in FIELDS}, Synth=F),
                             policies={G + '::node_param': np_pol, 'sc3/base/functions.py::value': action_pol}))
contract(F, 'Node.query', props=('C17',), params={'self': 'self', 'action': 'obj'},
         ensures=[('one-shot-responder-for-the-reply-filtered-by-own-id,then-one-request',
                   ask_post('/n_query', '/n_info', ['id'], []))],
         modifies=[], **DYN)


# ---- setn (Node and Buffer): ranges of adjacent controls --------------------------------------------------------
# the (converted) arguments are taken pairwise (control, values); for EVERY pair, in order, the argument list grows by
#   control, len(values), values...   when `values` is a list, and by   control, 1, values   otherwise;
# then ONE message: the reference command, the own id, and exactly that list.
U = 'sc3/base/utils.py'
NPAIR = z3.Int('pairs.len')
PCTL = z3.Function('pair_control', z3.IntSort(), VV.Any)
PVAL = z3.Function('pair_values', z3.IntSort(), VV.Any)


def clumps_pol(eng, selfv, args, kwargs, st, node):
    st.trace.append(('pairs-of', args[0], args[1] if len(args) > 1 else None))
    return [(st, V('seq', extra={'len': NPAIR, 'facts': [NPAIR >= 0],
                                 'get': (lambda e_, i, s_: vlist([V('any', PCTL(i)), V('any', PVAL(i))]))}))]


def sn_new_list(eng, items, st):
    if items == [] and not [e for e in st.trace if e[0] == 'arg-list-made']:
        st.trace.append(('arg-list-made',))
        return V('ref', cls='ArgList', oid='the-arg-list')
    return None


def sn_getattr(eng, obj, name, st, node):
    if obj.k == 'ref' and obj.cls == 'ArgList' and name == 'extend':
        def ext(eng, a, kw, st, node):
            st.trace.append(('extend', a[0]))
            return [(st, NONE)]
        return [(st, V('func', py=('spec', ext)))]
    if obj.k == 'obj' and obj.oid == 'self._server' and name == 'addr':
        return [(st, V('obj', oid='addr-of:self.server'))]
    return dyn_getattr(eng, obj, name, st, node)


def sn_since(trace):
    idx = -1
    for i, e in enumerate(trace):
        if e[0] == 'loop-head':
            idx = i
    return trace[idx + 1:] if idx >= 0 else []


def sn_pass(c, L):
    if L.phase != 'after':
        return z3.BoolVal(True)
    ev = [e for e in sn_since(c.trace) if e[0] in ('extend', 'send_msg')]
    k = L.i - 1
    if len(ev) != 1 or ev[0][0] != 'extend' or ev[0][1].k != 'list' or ev[0][1].items is None or len(ev[0][1].items) != 3:
        return z3.BoolVal(False)
    ctl, cnt, vals = ev[0][1].items
    is_list = VV.tag_of(PVAL(k)) == TAGS['list']
    if ctl.k != 'any' or cnt.k != 'int':
        return z3.BoolVal(False)
    if vals.k == 'star':
        sq = vals.extra['seq']
        src = sq.z if sq.k in ('dyn', 'any') else None
        if src is None:
            return z3.BoolVal(False)
        return z3.And(is_list, ctl.z == PCTL(k), src == PVAL(k), cnt.z == VV.any_len(PVAL(k)))   # control, count, the values
    if vals.k in ('any', 'dyn'):
        return z3.And(z3.Not(is_list), ctl.z == PCTL(k), vals.z == PVAL(k), cnt.z == 1)             # control, 1, the value
    return z3.BoolVal(False)


def sn_over(c, sq, k, elem):
    ok = elem.k == 'list' and elem.items is not None and len(elem.items) == 2 and all(x.k == 'any' for x in elem.items)
    if not ok:
        return z3.BoolVal(False), z3.BoolVal(False)
    return sq.extra['len'] == NPAIR, z3.And(elem.items[0].z == PCTL(k), elem.items[1].z == PVAL(k))


def sn_post(address, id_of, converted):
    def post(c):
        s = [e for e in c.trace if e[0] in ('send_msg', 'send_bundle')]
        pairs = [e for e in c.trace if e[0] == 'pairs-of']
        if len(s) != 1 or s[0][0] != 'send_msg' or s[0][1] != OWN or len(pairs) != 1:
            return z3.BoolVal(False)
        a = s[0][2]
        src = pairs[0][1]
        if converted:
            conv = src.extra.get('converted') if src.k == 'obj' and src.extra else None
            src_ok = conv is not None and conv[0] == '_as_control_input' and conv[1] is c._params['args']
        else:
            src_ok = src is c._params['args']
        ok = (src_ok and pairs[0][2] is not None and pairs[0][2].k == 'int'
              and z3.is_int_value(z3.simplify(pairs[0][2].z)) and z3.simplify(pairs[0][2].z).as_long() == 2   # taken pairwise
              and len(a) == 3 and a[0].k == 'str' and a[0].py == address and a[1].k == 'int'
              and a[2].k == 'star' and a[2].extra['seq'].k == 'ref' and a[2].extra['seq'].oid == 'the-arg-list')
        return z3.And(z3.BoolVal(bool(ok)), a[1].z == id_of(c)) if ok else z3.BoolVal(False)
    return post


SN = dict(hooks={'getattr': sn_getattr, 'new_list': sn_new_list, 'construct': dyn_construct}, native=False,
          opts={'star_in_display_to_ghost': True},
          policies={G + '::node_param': np_pol, U + '::gen_cclumps': clumps_pol})
contract(F, 'Node.setn', props=('C17',), params={'self': 'self', 'args': args_tuple_kind},
         ensures=[('one-/n_setn:own-id,then-the-list-built-from-every-pair', sn_post('/n_setn', lambda c: c.pre.self.node_id, True))],
         loops={0: Loop(inv=sn_pass, over=sn_over, kinds={'control': 'any', 'more_vals': 'any'})},
         modifies=[], fields=dict(FIELDS, ArgList={}), class_modules=dict({k: F for k in FIELDS}, ArgList=F), **SN)

FB = 'sc3/synth/buffer.py'
contract(FB, 'Buffer.setn', props=('C17', 'C16'), params={'self': 'self', 'args': args_tuple_kind},
         ensures=[('one-/b_setn:own-number,then-the-list-built-from-every-pair', sn_post('/b_setn', lambda c: c.pre.self._bufnum, False))],
         loops={0: Loop(inv=sn_pass, over=sn_over, kinds={'control': 'any', 'values': 'any'})},
         modifies=[], fields={'Buffer': {'_bufnum': 'int', '_server': 'obj'}, 'ArgList': {}},
         class_modules={'Buffer': FB, 'ArgList': FB}, **SN)
_k = '%s::Buffer.setn#live' % FB
REGISTRY[_k] = REGISTRY.pop('%s::Buffer.setn' % FB)
REGISTRY[_k].key = _k
contract(FB, 'Buffer.setn', props=('C17', 'C16'), params={'self': 'self', 'args': args_tuple_kind},
         raises={'BufferAlreadyFreed': lambda c: z3.BoolVal(True)},
         ensures=[('a-freed-buffer-never-returns-normally', lambda c: z3.BoolVal(False))],
         on_raise=[('refused-and-nothing-sent', lambda c: z3.BoolVal(not [e for e in c.trace if e[0] in ('send_msg', 'extend')]))],
         modifies=[], fields={'Buffer': {'_bufnum': 'none', '_server': 'obj'}, 'ArgList': {}},
         class_modules={'Buffer': FB, 'ArgList': FB}, **SN)
_k = '%s::Buffer.setn#freed' % FB
REGISTRY[_k] = REGISTRY.pop('%s::Buffer.setn' % FB)
REGISTRY[_k].key = _k


# ---- Synth.grain / Synth.new_paused ----------------------------------------------------------------------------------
# grain: a synth nobody will address again: ONE /s_new with node id -1 (the server picks one), through the TARGET's
#        server; no id is taken from the client's allocator.
# new_paused: a synth object with ONE fresh id from the target's server, joining the right group, created and paused
#        ATOMICALLY: one bundle (immediately) holding /s_new ... and /n_run id 0 for the SAME id, in this order.
def sg_getattr(eng, obj, name, st, node):
    if obj.k == 'ref' and obj.oid == 'target' and name == 'server':
        return [(st, V('obj', oid='target.server'))]
    if obj.k == 'class' and name == 'basic_new':
        def bn(eng, a, kw, st, node):
            nid = vint(eng.fresh('fresh_node_id', z3.IntSort()))
            st.trace.append(('basic-new', tuple(a), nid))
            r = V('ref', cls='NewSynth', oid='new-synth')
            st.objs['new-synth'] = {'node_id': nid, 'def_name': a[0] if a else NONE, 'server': a[1] if len(a) > 1 else NONE}
            return [(st, r)]
        return [(st, V('func', py=('spec', bn)))]
    if obj.k == 'ref' and obj.cls == 'NewSynth' and name == '_init_register':
        def ir(eng, a, kw, st, node):
            st.trace.append(('register', tuple(a)))
            return [(st, NONE)]
        return [(st, V('func', py=('spec', ir)))]
    if obj.k == 'obj' and str(obj.oid).startswith('addr-of:') and name == 'send_bundle':
        def sendb(eng, args, kwargs, st, node, _o=obj):
            st.trace.append(('send_bundle', _o.oid, tuple(args)))
            return [(st, NONE)]
        return [(st, V('func', py=('spec', sendb)))]
    return nc2_getattr(eng, obj, name, st, node)


def sg_builtin(eng, name, args, kwargs, st, node):
    return nc2_builtin(eng, name, args, kwargs, st, node)


def snew_shape(items, c, id_ok):
    """['/s_new', def name, id, add action number, target id, converted args...]"""
    ok = (len(items) == 7 and items[0].k == 'str' and items[0].py == '/s_new' and items[2].k == 'int'
          and items[3].k == 'int' and items[4].k == 'int' and items[5].k == 'any' and items[6].k == 'any'
          and str(items[5].z) == 'arg0' and str(items[6].z) == 'arg1')
    if not ok:
        return None
    return [id_ok(items[2]), items[3].z == ACT, items[4].z == z3.Int('target.node_id')]


def grain_post(c):
    s = [e for e in c.trace if e[0] in ('send_msg', 'send_bundle')]
    if len(s) != 1 or s[0][0] != 'send_msg' or s[0][1] != 'addr-of:target.server' or [e for e in c.trace if e[0] in ('next-id', 'basic-new')]:
        return z3.BoolVal(False)
    a = list(s[0][2])
    cl = snew_shape(a, c, lambda v: v.z == -1)
    if cl is None or a[1] is not c._params['def_name']:
        return z3.BoolVal(False)
    return z3.And(*cl)


SG = dict(fields=dict(CT_FIELDS, NewSynth={'node_id': 'int', 'def_name': 'any', 'server': 'any', 'group': 'any'}),
          hooks={'getattr': sg_getattr, 'getitem': nc2_getitem, 'builtin': sg_builtin},
          policies={'sc3/synth/_graphparam.py::node_param': node_param}, native=False,
          class_modules={'Synth': F, 'Target': F, 'AbstractGroup': F, 'NewSynth': F})
contract(F, 'Synth.grain', props=('C17', 'C16'),
         params={'cls': 'cls', 'def_name': 'any', 'args': 'any', 'target': 'any', 'add_action': 'any'},
         ensures=[('one-/s_new-with-id--1-through-the-targets-server;no-client-id-taken', grain_post)], **SG)


def paused_post(c):
    t = c.trace
    bn = [e for e in t if e[0] == 'basic-new']
    s = [e for e in t if e[0] in ('send_msg', 'send_bundle')]
    regs = [e for e in t if e[0] == 'register']
    if len(bn) != 1 or len(s) != 1 or s[0][0] != 'send_bundle' or len(regs) != 1:
        return z3.BoolVal(False)
    nid = bn[0][2]
    args = s[0][2]
    ok = (len(bn[0][1]) == 2 and bn[0][1][0] is c._params['def_name'] and bn[0][1][1].k == 'obj' and bn[0][1][1].oid == 'target.server'
          and len(args) == 3 and args[0].k == 'none'                                        # one bundle, immediately
          and args[1].k == 'list' and args[1].items is not None and args[2].k == 'list' and args[2].items is not None
          and len(args[2].items) == 3 and args[2].items[0].k == 'str' and args[2].items[0].py == '/n_run'
          and args[2].items[1].k == 'int' and args[2].items[2].k == 'int'
          and regs[0][1][0] is c._params['register'] and t.index(regs[0]) < t.index(s[0])
          and c.resultv.k == 'ref' and c.resultv.oid == 'new-synth')
    if not ok:
        return z3.BoolVal(False)
    cl = snew_shape(args[1].items, c, lambda v: v.z == nid.z)
    if cl is None:
        return z3.BoolVal(False)
    g = c.st.objs.get('new-synth', {}).get('group')
    tgt_itself = g is not None and g.k == 'ref' and g.oid == 'target'
    tgt_group = g is not None and same_any(g, 'target.group')
    return z3.And(*cl, args[2].items[1].z == nid.z, args[2].items[2].z == 0,                 # paused: /n_run SAME id 0
                  z3.If(ACT < 2, z3.BoolVal(bool(tgt_itself)), z3.BoolVal(bool(tgt_group))))


contract(F, 'Synth.new_paused', props=('C17', 'C16'),
         params={'cls': 'cls', 'def_name': 'any', 'args': 'any', 'target': 'any', 'add_action': 'any', 'register': 'bool'},
         ensures=[('one-fresh-id;right-group;created-and-paused-in-ONE-bundle:/s_new-then-/n_run-id-0', paused_post)], **SG)
