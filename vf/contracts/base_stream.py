"""Contracts for sc3/base/stream.py — the routine state machine (C11) and the
logical-time hand-over of Routine.next (C05).

The routine's body (self.func(...), next(iterator), iterator.send(v)) is a
call with the documented outcomes: it yields a value, or raises StopIteration,
StopStream, YieldAndReset(x), AlwaysYield(x), or any other exception. Rely
condition of the modular argument: the body leaves main.current_tt as it found
it and does not touch this routine's fields — which is the guarantee of this
very contract for nested routines, and for a re-entrant self.next() follows from
the refusal clause (Running => RoutineException before any write).
"""
import ast
import z3
from vf.pyvc.spec import contract
from vf.pyvc.values import *
from vf.pyvc.engine import Raised, Unsupported
from ._common import MAIN_FIELDS, TT_FIELDS

F = 'sc3/base/stream.py'
STATES = {'Init': 1, 'Running': 2, 'Suspended': 3, 'Paused': 4, 'Done': 5}

RT = {
    'state': 'int', '_terminal_value': 'obj', 'parent': 'obj', '_m_seconds': 'real',
    '_iterator': 'obj', '_func_isgenfunc': 'bool', '_func_has_inval': 'bool',
    '_last_value': 'obj', '_clock': 'obj', '_state_lock': 'obj', 'func': 'obj',
    '__iter_is_none': 'bool', '__terminal_is_sentinel': 'bool',
    '_rand_seed': 'obj', '_rgen': 'obj', '_thread_player': 'obj',
}
FIELDS = {'Routine': RT,
          'Main': dict(MAIN_FIELDS, current_tt='ref:TimeThread'),
          'TimeThread': TT_FIELDS}

BODY_OUTCOMES = ['yield', 'StopIteration', 'StopStream', 'YieldAndReset',
                 'AlwaysYield', 'ValueError', 'KeyboardInterrupt']


def func_call(eng, args, kwargs, st, node):
    """self.func(...): for a generator function this only creates the
    generator object (no user code runs); for a plain function it runs the body
    (outcome 'return' instead of 'yield')"""
    outs = []
    for st1, isgen in eng.branch(st, z3.Bool('self._func_isgenfunc'), node):
        if isgen:
            outs.append((st1, V('iter', oid='gen!%d' % next(eng.counter))))
        else:
            outs.extend(body_call(eng, args, kwargs, st1, node, plain=True))
    return outs


def body_call(eng, args, kwargs, st, node, plain=False):
    """the routine body: every documented outcome, each on its own path"""
    outs = []
    for kind in BODY_OUTCOMES:
        if plain and kind == 'yield':
            kind = 'return'
        st1 = st.fork()
        val = V('obj', oid='bodyval!%s!%d' % (kind, next(eng.counter)))
        # what the body sees while it runs: who the library's current thread is, and its own state
        cur = st1.objs.get('main', {}).get('current_tt')
        state = st1.objs.get('self', {}).get('state')
        st1.trace.append(('body', kind, val, cur, state))
        if kind in ('yield', 'return'):
            outs.append((st1, val))
        else:
            exc = eng.make_exc(kind, node=node)
            exc.extra = dict(exc.extra or {}, yield_value=val, terminal_value=val)
            outs.append((st1, Raised(exc)))
    return outs


SENTINEL = V('obj', oid='Routine._SENTINEL')


def h_getattr(eng, obj, name, st, node):
    if obj.k == 'ref' and obj.cls == 'Routine':
        if name == 'State':
            return [(st, V('enumcls'))]
        if name == '_SENTINEL':
            return [(st, SENTINEL)]
        if name == 'func':
            return [(st, V('func', py=('spec', func_call)))]
        if name == '_iterator':
            f = st.objs.setdefault(obj.oid, {})
            if '_iterator' in f:
                return [(st, f['_iterator'])]
            # pre-state iterator: None or a live generator (ghost boolean)
            outs = []
            for st1, isnone in eng.branch(st, z3.Bool('%s.__iter_is_none' % obj.oid), node):
                v = NONE if isnone else V('iter', oid='%s._iterator' % obj.oid)
                st1.objs.setdefault(obj.oid, {})['_iterator'] = v
                outs.append((st1, v))
            return outs
        if name == '_terminal_value':
            f = st.objs.setdefault(obj.oid, {})
            if '_terminal_value' in f:
                return [(st, f['_terminal_value'])]
            outs = []
            for st1, issent in eng.branch(st, z3.Bool('%s.__terminal_is_sentinel' % obj.oid), node):
                v = SENTINEL if issent else V('obj', oid='%s._terminal_value' % obj.oid)
                st1.objs.setdefault(obj.oid, {})['_terminal_value'] = v
                outs.append((st1, v))
            return outs
    if obj.k == 'enumcls' and name in STATES:
        return [(st, vint(STATES[name]))]
    if obj.k == 'iter' and name == 'send':
        return [(st, V('func', py=('spec', body_call)))]
    if obj.k == 'module' and name == 'SystemClock':
        return [(st, V('obj', oid='SystemClock'))]
    return None


def h_builtin(eng, name, args, kwargs, st, node):
    if name == 'next' and args and args[0].k == 'iter':
        return body_call(eng, args, kwargs, st, node)
    return None


def h_call(eng, f, args, kwargs, st, node):
    # self.func(...) returns a generator object when the function is a generator
    # function: creating it runs no user code
    return None


def h_compare(eng, op, a, b, st, node):
    if isinstance(op, (ast.Is, ast.IsNot)):
        for p, q in ((a, b), (b, a)):
            if p.k == 'obj' and p.oid == 'Routine._SENTINEL' and q.k == 'obj':
                r = z3.BoolVal(q.oid == 'Routine._SENTINEL')
                return z3.Not(r) if isinstance(op, ast.IsNot) else r
    return None


HOOKS = {'getattr': h_getattr, 'builtin': h_builtin, 'compare': h_compare}
common = dict(fields=FIELDS, hooks=HOOKS, class_modules={'Routine': F}, native=False,
              opts={'opaque_ext': ('random.Random',)})


def st_of(v):
    return v.state


def body_kind(c):
    ev = [e for e in c.trace if e[0] == 'body']
    return (ev[-1][1], ev[-1][2]) if ev else (None, None)


def same_obj(a, b):
    return isinstance(a, V) and isinstance(b, V) and a.k == b.k and \
        (a.oid == b.oid if a.k in ('obj', 'ref', 'iter') else a.k == 'none')


def restored(c):
    """the library's current thread is what the caller had"""
    cur = c.post.main.__getattr__('current_tt')
    want = c.pre.main.__getattr__('current_tt')
    return z3.BoolVal(cur._ref.oid == want._ref.oid)


def next_normal(c):
    """post-state and result on a normal return, per body outcome"""
    pre, post = c.pre.self, c.post.self
    kind, val = body_kind(c)
    r = c.resultv
    if kind is None:
        # Done with a recorded terminal value: nothing ran
        return z3.And(pre.state == STATES['Done'], post.state == pre.state,
                      z3.Not(z3.Bool('self.__terminal_is_sentinel')),
                      z3.BoolVal(r.k == 'obj' and r.oid == 'self._terminal_value'))
    if kind == 'yield':
        return z3.And(post.state == STATES['Suspended'], z3.BoolVal(same_obj(r, val)),
                      z3.BoolVal(same_obj(post.v('_last_value'), val)))
    if kind == 'return':
        # a plain function is run once and behaves as AlwaysYield(None)
        return z3.And(post.state == STATES['Done'], z3.BoolVal(r.k == 'none'),
                      z3.BoolVal(post.v('_terminal_value').k == 'none'))
    if kind == 'YieldAndReset':
        return z3.And(post.state == STATES['Init'], z3.BoolVal(same_obj(r, val)),
                      z3.BoolVal(post.v('_iterator').k == 'none'))
    if kind == 'AlwaysYield':
        return z3.And(post.state == STATES['Done'], z3.BoolVal(same_obj(r, val)),
                      z3.BoolVal(same_obj(post.v('_terminal_value'), val)),
                      z3.BoolVal(post.v('_iterator').k == 'none'))
    return z3.BoolVal(False)        # every other outcome must raise


def ran(c):
    return any(e[0] == 'body' for e in c.trace)


def next_on_raise(c):
    pre, post = c.pre.self, c.post.self
    kind, val = body_kind(c)
    ecls = c.exc.cls
    if kind is None:
        # refusals before the body runs: nothing changes
        unchanged = z3.And(post.state == pre.state,
                           z3.BoolVal(not c.st.ghost.get('written')))
        if ecls == 'PausedStream':
            return z3.And(pre.state == STATES['Paused'], unchanged)
        if ecls == 'StopStream':
            return z3.And(pre.state == STATES['Done'], unchanged)
        if ecls == 'RoutineException':
            return z3.And(pre.state == STATES['Running'], unchanged)
        return z3.BoolVal(False)
    done = post.state == STATES['Done']
    if kind in ('StopIteration', 'StopStream'):
        return z3.And(done, z3.BoolVal(ecls == 'StopStream'),
                      z3.BoolVal(post.v('_iterator').k == 'none'))
    if kind in ('ValueError', 'KeyboardInterrupt'):
        return z3.And(done, z3.BoolVal(ecls == kind))
    return z3.BoolVal(False)        # yield / YieldAndReset / AlwaysYield must not raise


def seen_by_body(c):
    """while the body runs, the routine IS the library's current thread (that is how code inside it finds its
    clock and logical time) and its state is Running"""
    ev = [e for e in c.trace if e[0] == 'body']
    if not ev or len(ev[-1]) < 5:
        return z3.BoolVal(not ev)
    cur, state = ev[-1][3], ev[-1][4]
    ok = cur is not None and cur.k == 'ref' and cur.oid == 'self' and state is not None and state.k == 'int'
    return z3.And(z3.BoolVal(bool(ok)), state.z == STATES['Running']) if ok else z3.BoolVal(False)


def frame(c):
    if not ran(c):
        return restored(c)
    post = c.post.self
    return z3.And(restored(c), z3.BoolVal(post.v('parent').k == 'none'), seen_by_body(c),
                  # logical time handed over from the caller before the body ran
                  post._m_seconds == c.pre.main.current_tt._seconds)


contract(F, 'Routine.next', props=('C11', 'C05'),
         params={'self': 'self', 'inval': 'obj'},
         requires=lambda c: z3.And(c.pre.self.state >= 1, c.pre.self.state <= 5),
         raises={'PausedStream': lambda c: c.pre.self.state == STATES['Paused'],
                 # resuming a routine from inside itself is refused (this is what
                 # makes the rely condition hold for re-entrant bodies)
                 'RoutineException': lambda c: c.pre.self.state == STATES['Running'],
                 'StopStream': None, 'ValueError': None, 'KeyboardInterrupt': None},
         ensures=[('state-and-value-per-outcome', next_normal)],
         on_raise=[('state-and-exception-per-outcome', next_on_raise)],
         on_any_exit=[('current-thread-and-logical-time-restored', frame)],
         **common)


# ---- guard table of pause / stop / reset ------------------------------------------
def guard(new_state, from_states=None):
    def f(c):
        pre, post = c.pre.self, c.post.self
        if from_states is None:
            return post.state == new_state
        inside = z3.Or(*[pre.state == s for s in from_states])
        return post.state == z3.If(inside, new_state, pre.state)
    return f


RUNNING = lambda c: c.pre.self.state == STATES['Running']


def released(meth):
    """stop / reset let go of the generator (a later next() starts the function again / finds it ended); which clock
    and last value a stopped routine keeps is not part of the documented state machine: not demanded"""
    def f(c):
        post = c.post.self
        if meth == 'pause':
            return z3.BoolVal(True)
        return z3.BoolVal(post.v('_iterator').k == 'none')
    return f


FRAMES = {'pause': ['state'], 'stop': ['state', '_iterator', '_last_value', '_clock'],
          'reset': ['state', '_iterator', '_clock']}
for meth, post in (('pause', guard(STATES['Paused'], [STATES['Init'], STATES['Suspended']])),
                   ('stop', guard(STATES['Done'])),
                   ('reset', guard(STATES['Init']))):
    contract(F, 'Routine.' + meth, props=('C11', 'C10'),
             params={'self': 'self'},
             # frame: nothing else of the routine changes — in particular not its
             # random generator or seed (C10: the stream depends only on the seed)
             modifies=[('self', f) for f in FRAMES[meth]],
             requires=lambda c: z3.And(c.pre.self.state >= 1, c.pre.self.state <= 5),
             raises={'RoutineException': RUNNING},
             ensures=[('transition', post), ('released', released(meth))],
             on_raise=[('refused-without-change', lambda c: z3.And(
                 c.post.self.state == c.pre.self.state,
                 z3.BoolVal(not c.st.ghost.get('written'))))],
             **common)


# ---- who is rescheduled when a waiting routine is signalled ---------------------------
# thread_player is a pure lookup along the parent chain: it never stores anything
# (a memo would go stale when the routine is later played on its own)
TP_FIELDS = {'TimeThread': {'_thread_player': ['none', 'obj'], 'parent': ['none', 'obj', 'ref:ParentTT']},
             'ParentTT': {},
             'Main': dict(MAIN_FIELDS, main_tt='aref:TimeThread', current_tt='aref:TimeThread')}


def tp_hooks():
    def getattr_(eng, obj, name, st, node):
        if obj.k == 'ref' and obj.cls == 'ParentTT' and name == 'thread_player':
            st.trace.append(('parent-lookup', obj.oid))
            return [(st, V('obj', oid='player-of-parent'))]
        return None

    def compare(eng, op, a, b, st, node):
        if isinstance(op, (ast.Is, ast.IsNot)):
            for p, q in ((a, b), (b, a)):
                if p.k == 'ref' and p.cls == 'ParentTT' and q.k == 'ref' and q.oid == 'main.main_tt':
                    r = z3.Bool('parent.is_main_tt')
                    return z3.Not(r) if isinstance(op, ast.IsNot) else r
        return None
    return {'getattr': getattr_, 'compare': compare}


def tp_post(c):
    r = c.resultv
    tp = c._params['self']
    own = c.pre.self.v('_thread_player')
    par = c.pre.self.v('parent')
    if own.k != 'none':
        return z3.BoolVal(r.k == 'obj' and r.oid == own.oid)
    if par.k == 'ref':
        asked = any(e[0] == 'parent-lookup' for e in c.trace)
        is_main = z3.Bool('parent.is_main_tt')
        if r.k == 'obj' and r.oid == 'player-of-parent':
            return z3.And(z3.Not(is_main), z3.BoolVal(asked))
        return z3.And(is_main, z3.BoolVal(r.k == 'ref' and r.oid == 'self'))
    return z3.BoolVal(r.k == 'ref' and r.oid == 'self')


for tpk in (['none'], ['obj']):
    for park in (['none'], ['obj'], ['ref:ParentTT']):
        if park == ['obj']:
            continue
        contract(F, 'TimeThread.thread_player', props=('C11',),
                 params={'self': 'self'},
                 ensures=[('own-player-else-parents-player-else-itself', tp_post)],
                 modifies=[],
                 fields={'TimeThread': {'_thread_player': tpk[0], 'parent': park[0]},
                         'ParentTT': {}, 'Main': TP_FIELDS['Main']},
                 hooks=tp_hooks(), class_modules={'TimeThread': F}, native=False)
        from vf.pyvc.spec import REGISTRY
        key = '%s::TimeThread.thread_player#%s-%s' % (F, tpk[0], park[0].replace(':', '_'))
        REGISTRY[key] = REGISTRY.pop('%s::TimeThread.thread_player' % F)
        REGISTRY[key].key = key


# ---- seeding (C10: a routine's random stream depends only on the seed it is given) ----
def seed_post(c):
    xv = c._params['x']

    def same(a):
        if a is xv:
            return z3.BoolVal(True)
        if isinstance(a, V) and a.k == xv.k and a.k in ('int', 'real', 'bool'):
            return a.z == xv.z
        return z3.BoolVal(isinstance(a, V) and a.k == 'none' and xv.k == 'none')
    made = [e for e in c.trace if e[0] == 'ext' and e[1] == 'random.Random']
    if len(made) != 1 or len(made[0][2]) != 1:
        return z3.BoolVal(False)
    rgen = c.post.self.v('_rgen')
    return z3.And(same(made[0][2][0]),                 # the generator is made from the seed itself
                  same(c.post.self.v('_rand_seed')),   # which is what rand_seed reads back
                  z3.BoolVal(rgen.k == 'obj' and str(rgen.oid).startswith('new!random.Random')))


contract(F, 'TimeThread.rand_seed@setter', props=('C10',),
         params={'self': 'self', 'x': ['int', 'real', 'none', 'str', 'bytes']},
         modifies=[('self', '_rand_seed'), ('self', '_rgen')],
         ensures=[('fresh-generator-from-exactly-the-given-seed', seed_post)],
         fields={'TimeThread': {'_rgen': 'obj', '_rand_seed': 'none'}, 'Main': MAIN_FIELDS},
         class_modules={'TimeThread': F}, native=False,
         opts={'opaque_ext': ('random.Random',)},
         note='random.Random is external: that equal seeds give equal streams, and that str/bytes '
              'seeds are digested independently of the hash seed, is CPython\'s documented '
              'behaviour and assumed')


# ---- Routine.play: from Init or Paused only, scheduled exactly once on the right clock -------------------
def play_getattr(eng, obj, name, st, node):
    if obj.k == 'int' and name in STATES:            # `self.state.Paused`: an enum member reached through a member
        return [(st, vint(STATES[name]))]
    if obj.k == 'obj' and name == 'play' and obj.oid in ('clock', 'main.current_tt._clock'):
        def play(eng, args, kwargs, st, node, _o=obj):
            st.trace.append(('clock-play', _o.oid, tuple(args)))
            return [(st, NONE)]
        return [(st, V('func', py=('spec', play)))]
    return h_getattr(eng, obj, name, st, node)


def play_post(clock_kind):
    def post(c):
        ev = [e for e in c.trace if e[0] == 'clock-play']
        pre, postst = c.pre.self.state, c.post.self.state
        startable = z3.Or(pre == STATES['Init'], pre == STATES['Paused'])
        if not ev:
            return z3.And(z3.Not(startable), postst == pre)                    # any other state: nothing happens
        want = 'clock' if clock_kind == 'obj' else 'main.current_tt._clock'   # the given clock, else the current thread's
        ok = (len(ev) == 1 and ev[0][1] == want and len(ev[0][2]) == 2 and ev[0][2][0].k == 'ref'
              and ev[0][2][0].oid == 'self' and ev[0][2][1] is c._params['quant'])
        return z3.And(startable, postst == STATES['Suspended'], z3.BoolVal(bool(ok)))
    return post


for ck in ('none', 'obj'):
    contract(F, 'Routine.play', props=('C11', 'C05'), params={'self': 'self', 'clock': ck, 'quant': 'obj'},
             requires=lambda c: z3.And(c.pre.self.state >= 1, c.pre.self.state <= 5),
             ensures=[('from-Init-or-Paused:suspended-and-scheduled-once-on-the-right-clock;else-nothing', play_post(ck))],
             modifies=[('self', 'state')],
             fields=dict(FIELDS, TimeThread=dict(TT_FIELDS, _clock='obj')),
             hooks=dict(HOOKS, getattr=play_getattr), class_modules={'Routine': F}, native=False)
    from vf.pyvc.spec import REGISTRY
    key = '%s::Routine.play#clock-%s' % (F, 'given' if ck == 'obj' else 'inherited')
    REGISTRY[key] = REGISTRY.pop('%s::Routine.play' % F)
    REGISTRY[key].key = key
