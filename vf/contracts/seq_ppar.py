"""Contract for Ppar.__embed__ (C14: "parallel ... patterns preserving each child's timeline"):
sc3/seq/patterns/eventpatterns.py.

The merge keeps one clock `now` (time already handed out, as the sum of the yielded deltas) and a queue of
(time of the child's next event, child stream).  Per pass of the main loop, with `now0` the value at the head:

  a child is popped and asked for its next event with the current input event;
    * it gives one: the child is re-queued at  now0 + float(event's delta)  (its OWN timeline: the event
      starts at now0, the child's next one a delta later); then the time of the queue's head is read
      (`nexttime`), the event's delta is REPLACED by  nexttime - now0  (time until whatever comes next in any
      child), the event is yielded, and  now := nexttime;
    * it has ended: if other children remain, a rest of  nexttime - now0  is yielded and  now := nexttime
      (so the clock never lags behind what has been yielded); if none remains the queue is cleared and
      nothing is yielded.

The queue is the abstract TaskQueue of C09 (pop gives the head, add makes the head the minimum of the old head
and the new time); key resolution of the event (`outevent('delta')`), evt.event and evt.silent are ghost calls.
"""
import z3
from vf.pyvc.spec import contract, Loop
from vf.pyvc.values import *
from vf.pyvc import values as VV
from vf.pyvc.engine import Raised, Unsupported

F = 'sc3/seq/patterns/eventpatterns.py'


def Q(st):
    return st.objs.setdefault('__queue', {})


def head(eng, st):
    q = Q(st)
    if 'empty' not in q:
        n = next(eng.counter)
        q['empty'] = z3.Bool('q.empty!%d' % n)
        q['time'] = z3.Real('q.head_time!%d' % n)
        q['stream'] = V('obj', oid='q.head_stream!%d' % n, extra={'child': True})
    return q


def qmethod(name):
    def f(eng, args, kwargs, st, node):
        q = head(eng, st)
        if name == 'empty':
            return [(st, vbool(q['empty']))]
        if name in ('peek', 'pop'):
            outs = []
            for st1, e in eng.branch(st, q['empty'], node):
                if e:
                    outs.append((st1, Raised(eng.make_exc('KeyError', node=node))))
                    continue
                q1 = head(eng, st1)
                t, s = q1['time'], q1['stream']
                if name == 'pop':
                    st1.trace.append(('pop', t, s))
                    st1.objs['__queue'] = {}
                else:
                    st1.trace.append(('peek', t))
                outs.append((st1, vtuple([vreal(t), s])))
            return outs
        if name == 'add':
            t, s = to_real(args[0]), args[1]
            st.trace.append(('add', t, s))
            was_empty, old = q['empty'], q['time']
            n = next(eng.counter)
            nt = z3.Real('q.head_time!%d' % n)
            st.pc.append(nt == z3.If(was_empty, t, z3.If(t < old, t, old)))
            st.objs['__queue'] = {'empty': z3.BoolVal(False), 'time': nt,
                                  'stream': V('obj', oid='q.head_stream!%d' % n, extra={'child': True})}
            return [(st, NONE)]
        if name == 'clear':
            st.trace.append(('clear',))
            st.objs['__queue'] = {'empty': z3.BoolVal(True), 'time': z3.Real('q.none'),
                                  'stream': V('obj', oid='q.none')}
            return [(st, NONE)]
        raise Unsupported(node, 'queue method %s' % name)
    return f


def h_getattr(eng, obj, name, st, node):
    if obj.k == 'obj' and obj.oid == 'the-queue' and name in ('empty', 'peek', 'pop', 'add', 'clear'):
        return [(st, V('func', py=('spec', qmethod(name))))]
    if obj.k == 'obj' and obj.extra and obj.extra.get('child') and name == 'next':
        def nxt(eng, args, kwargs, st, node, _o=obj):
            ok, bad = st, st.fork()
            ev = V('obj', oid='child-event!%d' % next(eng.counter))
            ok.trace.append(('draw', _o, ev, args[0] if args else None))
            bad.trace.append(('exhausted', _o))
            return [(ok, ev), (bad, Raised(eng.make_exc('StopStream', node=node)))]
        return [(st, V('func', py=('spec', nxt)))]
    if obj.k == 'module' and name in ('TaskQueue', 'StopStream'):
        return [(st, V('class', py=name))]
    return None


def h_construct(eng, f, args, kwargs, st, node):
    if f.k == 'class' and f.py == 'TaskQueue':
        st.objs['__queue'] = {}
        return [(st, V('obj', oid='the-queue'))]
    if f.k == 'class' and f.py == 'event':
        return event_pol(eng, None, args, kwargs, st, node)
    return None


def h_call(eng, f, args, kwargs, st, node):
    # outevent('delta')
    if f.k == 'obj' and str(f.oid).startswith('as-event') and len(args) == 1 and args[0].k == 'str':
        d = vreal(z3.Real('delta-of(%s)' % f.oid))
        st.trace.append(('lookup', f, args[0].py))
        return [(st, d)]
    return None


def h_setitem(eng, obj, idx, v, st, node):
    if obj.k == 'obj' and str(obj.oid).startswith('as-event') and idx.k == 'str':
        st.trace.append(('set', obj, idx.py, v))
        return [('next', st)]
    return None


def event_pol(eng, selfv, args, kwargs, st, node):
    r = V('obj', oid='as-event!%d' % next(eng.counter), extra={'of': args[0]})
    st.trace.append(('as-event', args[0], r))
    return [(st, r)]


def silent_pol(eng, selfv, args, kwargs, st, node):
    r = V('obj', oid='rest!%d' % next(eng.counter))
    st.trace.append(('silent', tuple(args), r))
    return [(st, r)]


def init_streams(eng, selfv, args, kwargs, st, node):
    st.trace.append(('init-streams', tuple(args)))
    st.objs['__queue'] = {}
    return [(st, NONE)]


def since(trace, ordinal=0):
    idx = -1
    for i, e in enumerate(trace):
        if e[0] == 'loop-head' and e[1] == ordinal:
            idx = i
    return trace[idx + 1:] if idx >= 0 else None


def remember(eng, st):
    st.ghost = dict(st.ghost)
    st.ghost['now_at_head'] = st.env['now'].z if st.env['now'].k == 'real' else to_real(st.env['now'])
    st.ghost['inevent_at_head'] = st.env['inevent']
    st.objs['__queue'] = {}


EV = ('pop', 'draw', 'exhausted', 'as-event', 'lookup', 'add', 'peek', 'set', 'yield', 'silent', 'clear')


def prologue(c, L):
    """before the merge: the children are queued (once, into THE queue); if the earliest child does not start at
    time zero a rest of exactly that time is yielded first and the clock starts there, otherwise it starts at 0"""
    t = [e for e in c.trace if e[0] in EV + ('init-streams',)]
    now = to_real(c.st.env['now'])
    inits = [e for e in t if e[0] == 'init-streams']
    if len(inits) != 1 or t[0] is not inits[0] or len(inits[0][1]) != 1 or inits[0][1][0].k != 'obj' \
            or inits[0][1][0].oid != 'the-queue':
        return z3.BoolVal(False)
    rest = t[1:]
    kinds = [e[0] for e in rest]
    if kinds == []:
        return now == 0                                       # no child at all
    if kinds == ['peek']:
        return z3.And(rest[0][1] <= 0, now == 0)              # earliest child starts at (or before) zero
    if kinds == ['peek', 'silent', 'yield']:
        peek, sil, y = rest
        ok = len(sil[1]) == 2 and sil[1][0].k == 'real' and y[1] is sil[2]
        if not ok:
            return z3.BoolVal(False)
        return z3.And(peek[1] > 0, sil[1][0].z == peek[1], now == peek[1])
    return z3.BoolVal(False)


def merge_pass(c, L):
    if L.phase == 'entry':
        return prologue(c, L)
    ev = since(c.trace)
    if not ev:
        return z3.BoolVal(True)
    ev = [e for e in ev if e[0] in EV]
    kinds = [e[0] for e in ev]
    now0 = c.st.ghost['now_at_head']
    inev0 = c.st.ghost['inevent_at_head']
    now1 = to_real(c.st.env['now'])
    if kinds == ['pop', 'draw', 'as-event', 'lookup', 'add', 'peek', 'set', 'yield']:
        pop, draw, asev, look, add, peek, seti, y = ev
        ok = (draw[1] is pop[2] and draw[3] is inev0                     # the popped child, with the current input event
              and asev[1] is draw[2] and look[1] is asev[2] and look[2] == 'delta'
              and add[2] is pop[2]                                       # the same child is re-queued
              and seti[1] is asev[2] and seti[2] == 'delta' and seti[3].k == 'real'
              and y[1] is asev[2])                                       # that event is yielded
        if not ok:
            return z3.BoolVal(False)
        child_delta = z3.Real('delta-of(%s)' % asev[2].oid)
        return z3.And(add[1] == now0 + child_delta,                      # on the child's own timeline
                      seti[3].z == peek[1] - now0,                       # delta := time until the next event of ANY child
                      now1 == peek[1])                                   # the clock moves to that time
    if kinds == ['pop', 'exhausted', 'peek', 'silent', 'yield']:
        pop, ex, peek, sil, y = ev
        ok = (ex[1] is pop[2] and len(sil[1]) == 2 and sil[1][0].k == 'real' and sil[1][1] is inev0
              and y[1] is sil[2])
        if not ok:
            return z3.BoolVal(False)
        return z3.And(sil[1][0].z == peek[1] - now0, now1 == peek[1])    # rest until the next child, clock moved
    if kinds == ['pop', 'exhausted', 'clear']:
        return now1 == now0                                              # the last child ended: nothing more
    return z3.BoolVal(False)


contract(F, 'Ppar.__embed__', props=('C14',), params={'self': 'self', 'inevent': 'obj'},
         ensures=[('returns-the-threaded-input-event', lambda c: z3.BoolVal(c.resultv is c.st.env['inevent']))],
         loops={0: Loop(inv=merge_pass, kinds={'inevent': 'obj', 'now': 'real', 'nexttime': 'real',
                                               'stream': (lambda eng, n: V('obj', oid='havoc')),
                                               'outevent': (lambda eng, n: V('obj', oid='havoc'))},
                        havoc_hook=remember)},
         fields={'Ppar': {'patterns': 'obj'}},
         hooks={'getattr': h_getattr, 'construct': h_construct, 'call': h_call, 'setitem': h_setitem},
         policies={'sc3/seq/event.py::event': event_pol, 'sc3/seq/event.py::silent': silent_pol,
                   'Ppar._init_streams': init_streams},
         class_modules={'Ppar': F}, opts={'generator_trace': True}, native=False,
         note='that yielded deltas are non-negative follows from the queue order (C09)')
