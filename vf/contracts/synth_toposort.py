"""Contracts for the topological sort of a definition's units (C02: "every unit-generator input
refers ... to an existing output of a unit placed strictly earlier"): the per-unit steps in
sc3/synth/ugen.py and the driver loop SynthDef._topological_sort.

  _init_topo_sort   for every input that is a unit: its source unit (the unit itself, or the
                    unit behind an output proxy) becomes an antecedent of self AND self one of
                    its descendants (both edges, same pair); likewise for every width-first
                    antecedent; nothing for inputs that are numbers
  _make_available   self is pushed on the definition's available stack iff it has no antecedent left
  _remove_antecedent(u)  exactly u leaves the antecedents, then _make_available
  _arrange(out)     every descendant (in some order: the list is sorted by index) is released
                    exactly once with _remove_antecedent(self), and self is appended to out exactly once
  _topological_sort every pass pops ONE available unit and arranges it onto the same output list;
                    at the end the output list becomes the unit table and the sort state is cleaned

Ordering lemma over these contracts (Kahn's argument, stated below): a unit is appended to the
output only inside its own _arrange, which the driver calls only for units popped from the
available stack; a unit gets there only through _make_available, i.e. with no antecedent left; an
antecedent a leaves u's set only in a._arrange, BEFORE a is appended and before that call returns
to the driver loop, which is when u can be popped at the earliest: so a is appended before u.

Sets are opaque objects: add/remove/append are ghost events, emptiness a ghost boolean.
"""
import ast
import z3
from vf.pyvc.spec import contract, lemma, Loop
from vf.pyvc.values import *
from vf.pyvc import values as VV
from vf.pyvc.engine import Raised, Unsupported

F = 'sc3/synth/ugen.py'
FS = 'sc3/synth/synthdef.py'
CLASSES = ('UGen', 'OutputProxy', 'SynthObject')


def setref(oid, owner, what):
    return V('ref', cls='USet', oid=oid, extra={'owner': owner, 'what': what,
                                                'truth': z3.Bool('nonempty(%s)' % oid)})


def set_kind(what):
    def kind(eng, name):
        owner = name.rsplit('.', 1)[0]
        return setref(name, owner, what)
    return kind


def inputs_kind(eng, name):
    n = z3.Int('self.inputs.len')

    def get(eng_, i, st_):
        tag = str(z3.simplify(i)).replace(' ', '')
        isu, isp = z3.Bool('is_unit[%s]' % tag), z3.Bool('is_proxy[%s]' % tag)
        st_.pc.append(z3.Implies(isp, isu))                      # a proxy is a unit
        return V('ref', cls='InUnit', oid='in[%s]' % tag, extra={'isinstance': {
            'UGen': isu, 'SynthObject': isu, 'OutputProxy': isp}, 'tag': tag})
    return V('seq', extra={'len': n, 'facts': [n >= 0], 'get': get})


def wf_kind(eng, name):
    n = z3.Int('self.wf.len')

    def get(eng_, i, st_):
        tag = str(z3.simplify(i)).replace(' ', '')
        return V('ref', cls='WfUnit', oid='wf[%s]' % tag, extra={'tag': tag})
    return V('seq', extra={'len': n, 'facts': [n >= 0], 'get': get})


def source_kind(eng, name):
    owner = name.rsplit('.', 1)[0]
    return V('ref', cls='SrcUnit', oid='source-of(%s)' % owner)


def h_getattr(eng, obj, name, st, node):
    if obj.k == 'ref' and obj.cls == 'USet' and name in ('add', 'remove', 'discard'):
        def op(eng, args, kwargs, st, node, _o=obj, _n=name):
            st.trace.append((_n, _o.extra['owner'], _o.extra['what'], args[0]))
            return [(st, NONE)]
        return [(st, V('func', py=('spec', op)))]
    if obj.k == 'obj' and str(obj.oid).endswith('._available') and name in ('append', 'pop'):
        def av(eng, args, kwargs, st, node, _n=name):
            if _n == 'append':
                st.trace.append(('available', args[0]))
                return [(st, NONE)]
            u = V('ref', cls='Popped', oid='popped!%d' % next(eng.counter))
            st.trace.append(('pop', u))
            return [(st, u)]
        return [(st, V('func', py=('spec', av)))]
    if obj.k == 'obj' and obj.oid in ('out_stack',) and name == 'append':
        def out(eng, args, kwargs, st, node):
            st.trace.append(('out', args[0]))
            return [(st, NONE)]
        return [(st, V('func', py=('spec', out)))]
    if obj.k == 'ref' and obj.cls in ('DescUnit',) and name == '_remove_antecedent':
        def ra(eng, args, kwargs, st, node, _o=obj):
            st.trace.append(('release', _o, tuple(args)))
            return [(st, NONE)]
        return [(st, V('func', py=('spec', ra)))]
    if obj.k == 'ref' and obj.cls == 'Popped' and name == '_arrange':
        def ar(eng, args, kwargs, st, node, _o=obj):
            st.trace.append(('arrange', _o, tuple(args)))
            return [(st, NONE)]
        return [(st, V('func', py=('spec', ar)))]
    if obj.k == 'seq' and obj.extra.get('sortable') and name == 'sort':
        def srt(eng, args, kwargs, st, node):
            st.trace.append(('sort',))
            return [(st, NONE)]
        return [(st, V('func', py=('spec', srt)))]
    return None


def since(trace, ordinal):
    idx = -1
    for i, e in enumerate(trace):
        if e[0] == 'loop-head' and e[1] == ordinal:
            idx = i
    return trace[idx + 1:] if idx >= 0 else None


UNIT = {'_antecedents': set_kind('antecedents'), '_descendants': set_kind('descendants'),
        'inputs': inputs_kind, '_width_first_antecedents': wf_kind, '_synthdef': 'obj'}
FIELDS = {'SynthObject': UNIT,
          'InUnit': {'source_ugen': source_kind, '_descendants': set_kind('descendants')},
          'SrcUnit': {'_descendants': set_kind('descendants')},
          'WfUnit': {'_descendants': set_kind('descendants')}, 'USet': {}}
MODS = {k: F for k in FIELDS}


# ---- _init_topo_sort ---------------------------------------------------------------------------
def edges_ok(ev, target_oid):
    """exactly the two edges self <- target: target into self's antecedents, self into target's descendants"""
    adds = [e for e in ev if e[0] in ('add', 'remove', 'discard')]
    return (len(adds) == 2 and adds[0][:3] == ('add', 'self', 'antecedents') and adds[0][3].oid == target_oid
            and adds[1][:3] == ('add', target_oid, 'descendants') and adds[1][3].k == 'ref' and adds[1][3].oid == 'self')


def input_pass(c, L):
    ev = since(c.trace, 0)
    if not ev:
        return z3.BoolVal(True)
    item = c.pre.self.v('inputs').extra['get'](c._eng, L.i - 1, c.st)
    tag = item.extra['tag']
    isu, isp = z3.Bool('is_unit[%s]' % tag), z3.Bool('is_proxy[%s]' % tag)
    adds = [e for e in ev if e[0] in ('add', 'remove', 'discard')]
    if not adds:
        return z3.Not(isu)                                           # a number: no edge
    direct = edges_ok(ev, item.oid)
    via = edges_ok(ev, 'source-of(%s)' % item.oid)
    return z3.And(isu, z3.If(isp, z3.BoolVal(bool(via)), z3.BoolVal(bool(direct))))


def wf_pass(c, L):
    ev = since(c.trace, 1)
    if not ev:
        return z3.BoolVal(True)
    item = c.pre.self.v('_width_first_antecedents').extra['get'](c._eng, L.i - 1, c.st)
    return z3.BoolVal(bool(edges_ok(ev, item.oid)))


contract(F, 'SynthObject._init_topo_sort', props=('C02',), params={'self': 'self'},
         ensures=[('nothing-but-edges', lambda c: z3.BoolVal(not [e for e in c.trace if e[0] in ('remove', 'discard', 'available', 'out')]))],
         loops={0: Loop(inv=input_pass, kinds={'input': (lambda eng, n: V('obj', oid='havoc')), 'ugen': (lambda eng, n: V('obj', oid='havoc'))}),
                1: Loop(inv=wf_pass, kinds={'ugen': (lambda eng, n: V('obj', oid='havoc'))})},
         modifies=[], fields=FIELDS, hooks={'getattr': h_getattr}, class_modules=MODS, native=False)


# ---- _make_available / _remove_antecedent -------------------------------------------------------
def avail_post(c):
    ev = [e for e in c.trace if e[0] in ('available', 'add', 'remove', 'discard', 'out')]
    has = z3.Bool('nonempty(self._antecedents)')
    if not ev:
        return has
    ok = len(ev) == 1 and ev[0][0] == 'available' and ev[0][1].k == 'ref' and ev[0][1].oid == 'self'
    return z3.And(z3.Not(has), z3.BoolVal(bool(ok)))


contract(F, 'SynthObject._make_available', props=('C02',), params={'self': 'self'},
         ensures=[('pushed-on-the-available-stack-iff-no-antecedent-is-left', avail_post)],
         modifies=[], fields=FIELDS, hooks={'getattr': h_getattr}, class_modules=MODS, native=False)


def remove_post(c):
    ev = [e for e in c.trace if e[0] in ('remove', 'add', 'discard', 'made-available', 'available', 'out')]
    ok = (len(ev) == 2 and ev[0][:3] == ('remove', 'self', 'antecedents') and ev[0][3] is c._params['ugen']
          and ev[1][0] == 'made-available')
    return z3.BoolVal(bool(ok))


def make_available_event(eng, selfv, args, kwargs, st, node):
    st.trace.append(('made-available', selfv))
    return [(st, NONE)]


contract(F, 'SynthObject._remove_antecedent', props=('C02',), params={'self': 'self', 'ugen': 'ref:SrcUnit'},
         ensures=[('exactly-that-unit-leaves-then-availability-is-reconsidered', remove_post)],
         modifies=[], fields=FIELDS, hooks={'getattr': h_getattr}, class_modules=MODS,
         policies={'SynthObject._make_available': make_available_event}, native=False)


# ---- _arrange -------------------------------------------------------------------------------------
def h_to_list(eng, v, st, node):
    if v.k == 'ref' and v.cls == 'USet' and v.extra['what'] == 'descendants':
        n = z3.Int('self.descendants.len')
        st.pc.append(n >= 0)

        def get(eng_, i, st_):
            tag = str(z3.simplify(i)).replace(' ', '')
            return V('ref', cls='DescUnit', oid='desc[%s]' % tag, extra={'tag': tag})
        return [(st, V('seq', extra={'len': n, 'get': get, 'sortable': True}))]
    return None


def release_pass(c, L):
    ev = since(c.trace, 0)
    if not ev:
        return z3.BoolVal(True)
    ev = [e for e in ev if e[0] in ('release', 'out', 'available')]
    if len(ev) != 1 or ev[0][0] != 'release':
        return z3.BoolVal(False)
    n = z3.Int('self.descendants.len')
    # every descendant once (the loop walks the sorted list backwards; forwards would only give another valid order)
    wants = ('desc[%s]' % str(z3.simplify(n - 1 - (L.i - 1))).replace(' ', ''),
             'desc[%s]' % str(z3.simplify(L.i - 1)).replace(' ', ''))
    ok = ev[0][1].oid in wants and len(ev[0][2]) == 1 and ev[0][2][0].k == 'ref' and ev[0][2][0].oid == 'self'
    return z3.BoolVal(bool(ok))


def arrange_post(c):
    t = [e for e in c.trace if e[0] in ('release', 'out', 'loop-head', 'sort')]
    outs = [e for e in t if e[0] == 'out']
    heads = [i for i, e in enumerate(t) if e[0] == 'loop-head']
    # appended exactly once (before or after the releases: a descendant is only arranged in a later pass
    # of the driver loop, so either way it lands behind)
    ok = (len(outs) == 1 and bool(heads) and outs[0][1].k == 'ref' and outs[0][1].oid == 'self')
    return z3.BoolVal(bool(ok))


contract(F, 'SynthObject._arrange', props=('C02',), params={'self': 'self', 'out_stack': 'obj'},
         ensures=[('self-appended-exactly-once;every-descendant-released-once', arrange_post)],
         loops={0: Loop(inv=release_pass, kinds={'ugen': (lambda eng, n: V('obj', oid='havoc'))})},
         modifies=[], fields=dict(FIELDS, DescUnit={}), hooks={'getattr': h_getattr, 'to_list': h_to_list},
         class_modules=dict(MODS, DescUnit=F), native=False)


# ---- the ordering lemma -----------------------------------------------------------------------------
def _kahn():
    """Abstract times of the driver loop (one tick per pass): arranged(x) = the pass in which x is
    popped and arranged; released(a, u) = the moment a leaves u's antecedents; avail(u) = the moment
    u is pushed on the available stack.  From the contracts:
      released(a,u) happens inside a._arrange             -> released(a,u) = arranged(a)
      u is pushed only when no antecedent is left          -> avail(u) >= released(a,u) for every antecedent a
      u can only be popped in a LATER pass than the one that pushed it (the push happens inside the
      pass of a; pops happen at pass starts)              -> arranged(u) > avail(u)
      out position = order of arrangement (each _arrange appends its own unit exactly once)"""
    arr_a, arr_u, rel, av = z3.Ints('Larranged_a Larranged_u Lreleased_a_u Lavail_u')
    a = [rel == arr_a, av >= rel, arr_u > av]
    return a, arr_a < arr_u


lemma('antecedents-are-placed-strictly-before-their-descendants', props=('C02',),
      over=(F + '::SynthObject._arrange', F + '::SynthObject._remove_antecedent',
            F + '::SynthObject._make_available', F + '::SynthObject._init_topo_sort'),
      vcs=[('kahn-order', _kahn)],
      note='the step from the per-function contracts to the three premises is the argument in the module '
           'docstring (not machine-checked); the ordering on real definitions is checked by the bounded driver')


# ---- the driver loop ----------------------------------------------------------------------------------
def ts_len(eng, v, st, node):
    if v.k == 'obj' and str(v.oid).endswith('._available'):
        n = eng.fresh('available.len', z3.IntSort())
        st.pc.append(n >= 0)
        return [(st, vint(n))]
    return None


def traced(name):
    def pol(eng, selfv, args, kwargs, st, node):
        st.trace.append((name, tuple(args)))
        return [(st, NONE)]
    return pol


def ts_new_list(eng, items, st):
    if items == [] and not [e for e in st.trace if e[0] == 'output-list-made']:
        st.trace.append(('output-list-made',))
        return V('ref', cls='OutList', oid='the-output-list')
    return None


def sort_pass(c, L):
    ev = since(c.trace, 0)
    if not ev:
        return z3.BoolVal(True)
    ev = [e for e in ev if e[0] in ('pop', 'arrange', 'init', 'cleanup')]
    if [e[0] for e in ev] != ['pop', 'arrange']:
        return z3.BoolVal(False)
    out = ev[1][2][0] if len(ev[1][2]) == 1 else None
    ok = (ev[1][1] is ev[0][1] and out is not None and out.k == 'ref' and out.oid == 'the-output-list')   # the popped unit, onto THE output list
    return z3.BoolVal(bool(ok))


def sort_post(c):
    t = [e for e in c.trace if e[0] in ('init', 'cleanup', 'loop-head', 'pop', 'arrange')]
    kinds = [e[0] for e in t if e[0] != 'loop-head']
    ch = c.post.self.v('_children')
    ok = (kinds[:1] == ['init'] and kinds[-1:] == ['cleanup'] and kinds.count('init') == 1
          and kinds.count('cleanup') == 1 and ch.k == 'ref' and ch.oid == 'the-output-list')   # the output list becomes the table
    return z3.BoolVal(bool(ok))


contract(FS, 'SynthDef._topological_sort', props=('C02',), params={'self': 'self'},
         ensures=[('initialised,drained,the-output-list-becomes-the-unit-table,cleaned-up', sort_post)],
         loops={0: Loop(inv=sort_pass, kinds={'ugen': (lambda eng, n: V('obj', oid='havoc'))})},
         modifies=[('self', '_children')],
         fields={'SynthDef': {'_available': 'obj', '_children': 'obj'}, 'Popped': {}, 'OutList': {}},
         hooks={'getattr': h_getattr, 'len': ts_len, 'new_list': ts_new_list},
         policies={'SynthDef._init_topo_sort': traced('init'), 'SynthDef._cleanup_topo_sort': traced('cleanup')},
         class_modules={'SynthDef': FS, 'Popped': F, 'OutList': FS}, native=False,
         note='termination is not claimed here (every pass pops one unit; finiteness of the releases is the bounded '
              'driver\'s: a cyclic graph leaves units unarranged, which C01/C02 drivers report)')


# ---- SynthDef._init_topo_sort: clean sets, edges, initial availability ---------------------------------------
# the available stack starts empty; EVERY unit first gets fresh empty antecedent/descendant sets (all of them,
# before any edge is entered - an edge entered earlier would otherwise be wiped by a later reset); then every
# unit enters its edges; then every unit, last to first, is offered to the available stack.
def sd_children(eng, name):
    n = z3.Int('children.len')

    def get(eng_, i, st_):
        tag = str(z3.simplify(i)).replace(' ', '')
        return V('ref', cls='Child', oid='child[%s]' % tag, extra={'tag': tag})
    return V('seq', extra={'len': n, 'facts': [n >= 0], 'get': get})


def sd_getattr(eng, obj, name, st, node):
    if obj.k == 'ref' and obj.cls == 'Child' and name in ('_init_topo_sort', '_make_available'):
        def call(eng, args, kwargs, st, node, _o=obj, _n=name):
            st.trace.append(('child', _n, _o.oid))
            return [(st, NONE)]
        return [(st, V('func', py=('spec', call)))]
    return None


def sd_setattr(eng, obj, name, v, st, node):
    if obj.k == 'ref' and obj.cls == 'Child' and name in ('_antecedents', '_descendants'):
        fresh_empty = v.k == 'obj' and str(v.oid).startswith('new!set')
        st.trace.append(('reset', obj.oid, name, fresh_empty))
        return [('next', st)]
    if obj.k == 'ref' and obj.oid == 'self' and name == '_available':
        st.trace.append(('available-reset', v.k == 'list' and v.items == []))
        return None
    return None


def sd_builtin(eng, name, args, kwargs, st, node):
    if name == 'set' and not args:
        return [(st, V('obj', oid='new!set!%d' % next(eng.counter)))]
    return None


def child_tag(c, i):
    return 'child[%s]' % str(z3.simplify(i)).replace(' ', '')


def phase_inv(ordinal, what):
    def inv(c, L):
        ev = since(c.trace, ordinal)
        if not ev:
            return z3.BoolVal(True)
        ev = [e for e in ev if e[0] in ('reset', 'child', 'available-reset')]
        n = z3.Int('children.len')
        # every unit once: position i-1 of the table, or - the table walked backwards - position n-i
        # (which of the two orders is used only decides WHICH valid order the sort produces)
        wants = (child_tag(c, L.i - 1), child_tag(c, n - 1 - (L.i - 1)))
        if what == 'reset':
            ok = (len(ev) == 2 and all(e[0] == 'reset' and e[1] == ev[0][1] and e[3] for e in ev)
                  and ev[0][1] in wants and {e[2] for e in ev} == {'_antecedents', '_descendants'})
        else:
            ok = len(ev) == 1 and ev[0][0] == 'child' and ev[0][1] == what and ev[0][2] in wants
        return z3.BoolVal(bool(ok))
    return inv


def sd_init_post(c):
    t = [e for e in c.trace if e[0] in ('reset', 'child', 'available-reset', 'loop-head')]
    heads = [(i, e[1]) for i, e in enumerate(t) if e[0] == 'loop-head']
    # phases in order: all resets (loop 0) before any edge (loop 1) before any availability (loop 2)
    order = [o for _, o in heads]
    first = {o: min(i for i, oo in heads if oo == o) for o in set(order)}
    ok = (set(order) == {0, 1, 2} and first[0] < first[1] < first[2]
          and t[0][0] == 'available-reset' and t[0][1]
          and not [e for e in t[:first[0]] if e[0] in ('reset', 'child')])
    return z3.BoolVal(bool(ok))


contract(FS, 'SynthDef._init_topo_sort', props=('C02',), params={'self': 'self'},
         ensures=[('empty-stack;then-all-sets-reset;then-all-edges;then-availability', sd_init_post)],
         loops={0: Loop(inv=phase_inv(0, 'reset'), kinds={'ugen': (lambda eng, n: V('obj', oid='havoc'))}),
                1: Loop(inv=phase_inv(1, '_init_topo_sort'), kinds={'ugen': (lambda eng, n: V('obj', oid='havoc'))}),
                2: Loop(inv=phase_inv(2, '_make_available'), kinds={'ugen': (lambda eng, n: V('obj', oid='havoc'))})},
         modifies=[('self', '_available')],
         fields={'SynthDef': {'_children': sd_children, '_available': 'obj'}, 'Child': {}},
         hooks={'getattr': sd_getattr, 'setattr': sd_setattr, 'builtin_first': sd_builtin},
         class_modules={'SynthDef': FS, 'Child': F}, native=False)
