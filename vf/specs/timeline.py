"""Reference semantics for small sc3 *timing programs given as data*, plus an
interpreter that builds the real sc3 routines from the same data.

Written from the property statements C05 / C08 / C10 and the sc3 documentation
(Routine, Condition, FlowVar, TempoClock, Quant doc-strings), not from the
scheduler implementation.  The reference is a discrete-event simulation over
*logical* time only; it has no notion of physical time, threads or modes, which
is exactly what the statements say the observable behaviour depends on.

Program (JSON-able)::

    {"id": "p17",
     "start_offset": 0.25,            # logical seconds the hidden boot routine
                                      # waits before the program starts
     "clocks": {"T1": 2, "T2": 0.5},  # TempoClocks created at program start
     "conds": ["c0"], "flows": ["f0"],
     "root": "main",
     "routines": {
        "main": {"clock": "sys", "seed": 7, "steps": [...]},
        "a":    {"seed": null, "steps": [...]}}}

Clock names: "sys" (SystemClock), "app" (AppClock) or a key of "clocks".
Steps (lists):

    ["yield", d]              yield the number d (beats of the routine's clock)
    ["spawn", r, clock|null]  Routine(r).play(clock, quant=0); null = inherit
    ["tempo", clock, v]       clock.tempo = v
    ["send", latency, tag]    NetAddr.send_bundle(latency, ['/tl', id, r, tag])
    ["rand", kind, *args]     value drawn with sc3.base.builtins.<kind>(*args)
    ["pause", r] ["resume", r]   r.pause() / r.resume(quant=0)
    ["wait", c]               yield from cond.wait()
    ["signal", c]             cond.test = True; cond.signal()
    ["unset", c]              cond.test = False
    ["fget", f]               v = yield from flowvar.value   (v is observed)
    ["fset", f, v]            flowvar.value = v

Every routine records an observation at every resumption (kind "wake"), for
every drawn / received value ("rand", "fget"), for every send ("send") and
when its step list is exhausted ("end"); records of kind "segend" (written just
before a routine gives up control) only carry the physical time and are not
part of the observable behaviour.

Numbers are JSON ints/floats or strings "p/q" (= the float p/q).  The reference
computes with ``fractions.Fraction`` on the *exact* value of the numbers that
are handed to sc3, so 0.1 means the double nearest to 0.1.

Deliberate choices (where the statements are silent):

* ``play``/``resume`` are always called with ``quant=0``: the default Quant of
  a TempoClock (quant=1) is documented to postpone the start to the next whole
  beat, which is not "the parent's current logical time"; the statement about
  nested starts is read as the no-quantisation case.
* A routine that is scheduled again on the clock on which it still has a
  pending wake-up has *one* wake-up, at the new time (C08/C09: re-adding a
  task moves it).  Programs where this happens carry the feature
  ``resume_pending``.
* A tempo change keeps the beats of pending tasks (TempoClock documentation:
  tasks are scheduled in beats).  Programs where a tempo change happens while
  another live task of that clock is pending carry ``tempo_pending``.
* Order of execution at *equal* logical time on *different* clocks is a
  parameter (``tie``); programs whose result depends on it are "racy" and must
  not be used for differential runs (see ``confluent`` / ``races``).
"""
from fractions import Fraction
import itertools

__all__ = ['ProgramError', 'fval', 'exact', 'reference', 'confluent', 'races',
           'run_program', 'clock_names', 'flatten_events', 'gen_nested',
           'gen_interacting', 'RAND_KINDS']


class ProgramError(Exception):
    """The program is outside the fragment the reference defines."""


def fval(x):
    """JSON number -> the Python number handed to sc3."""
    if isinstance(x, str):
        p, q = x.split('/')
        return int(p) / int(q)
    return x


def exact(x):
    return Fraction(fval(x))


def clock_names(prog):
    """Set of clock names on which routines of the program may run."""
    names = {prog['routines'][prog['root']].get('clock', 'sys')}
    for spec in prog['routines'].values():
        for st in spec['steps']:
            if st[0] == 'spawn' and st[2] is not None:
                names.add(st[2])
    return names


# --------------------------------------------------------------------------
# reference semantics
# --------------------------------------------------------------------------

class _RClock:
    def __init__(self, name, kind, num, tempo=1):
        self.name = name
        self.kind = kind
        self.num = num
        self.tempo = num(tempo)
        self.beat_dur = num(1) / self.tempo
        self.base_secs = num(0)
        self.base_beats = num(0)
        self.queue = {}          # routine name -> [beats, seq, cause id]

    def b2s(self, b):
        if self.kind != 'tempo':
            return b
        return (b - self.base_beats) * self.beat_dur + self.base_secs

    def s2b(self, s):
        if self.kind != 'tempo':
            return s
        return (s - self.base_secs) * self.tempo + self.base_beats

    def head(self):
        if not self.queue:
            return None
        name = min(self.queue, key=lambda n: (self.queue[n][0], self.queue[n][1]))
        return name, self.queue[name]


class _RRoutine:
    def __init__(self, name, spec):
        self.name = name
        self.spec = spec
        self.steps = spec['steps']
        self.state = 'init'      # init susp paused done
        self.clock = None
        self.pc = 0
        self.time = None
        self.beats = None
        self.gen = None
        self.hung_on = None
        self.after = None        # pending ('fget', f)
        self.nwake = 0


def reference(prog, tie='fifo', num=Fraction, start=0):
    """Expected behaviour of ``prog``.

    Returns a dict with

    ``events``   {routine: [ {kind, secs, beats, val, k} ... ]} in routine order;
                 ``secs`` is relative to program start (``start`` is added: pass
                 ``num=float, start=<observed start>`` to replay the float
                 operations the statement implies), ``beats`` is the beats of
                 the routine's clock (tempo clocks count from 0 at start).
    ``bundles``  {routine: [ {tag, secs} ]}  bundle time = logical + latency
    ``order``    [(secs, routine, dropped)] in execution order of this run
    ``last``     last scheduled instant (relative seconds)
    ``features`` set of feature names (see module doc)
    ``accesses`` list of accesses to shared objects for ``races``
    ``ends``     number of routines that run to the end of their step list
    """
    conv = (lambda x: num(fval(x)))
    clocks = {'sys': _RClock('sys', 'sys', num), 'app': _RClock('app', 'app', num)}
    for cname, tempo in prog.get('clocks', {}).items():
        c = _RClock(cname, 'tempo', num, fval(tempo))
        c.base_secs = num(start)
        clocks[cname] = c
    routines = {n: _RRoutine(n, s) for n, s in prog['routines'].items()}
    conds = {c: {'test': False, 'waiting': []} for c in prog.get('conds', [])}
    flows = {f: {'bound': False, 'val': None, 'waiting': []}
             for f in prog.get('flows', [])}
    seq = itertools.count()
    cids = itertools.count(1)
    events = {n: [] for n in routines}
    bundles = {n: [] for n in routines}
    order = []
    features = set()
    accesses = []
    off = exact(prog.get('start_offset', 0))
    state = {'last': num(start), 'ends': 0}

    def access(obj, by, t, rw, cid=None, thread=None):
        accesses.append({'obj': obj, 'by': by, 't': t, 'rw': rw, 'cid': cid,
                         'thread': thread})

    def sched(rname, cname, secs, cid):
        c = clocks[cname]
        r = routines[rname]
        r.clock = cname
        c.queue[rname] = [c.s2b(secs), next(seq), cid]
        if cname == 'app' and (Fraction(secs) + off) != 0:
            features.add('app_sched_nonzero')

    def emit(r, kind, val=None):
        c = clocks[r.clock]
        events[r.name].append({
            'kind': kind, 'secs': r.time,
            'beats': c.s2b(r.time) if c.kind == 'tempo' else r.time,
            'val': val, 'k': len(events[r.name])})

    def wait_on(r, holder, true_now):
        # Condition.wait(): reschedule now when the test holds, else hang.
        if true_now:
            sched(r.name, r.clock, r.time, None)
        else:
            holder['waiting'].append(r.name)
            r.hung_on = holder

    def release(holder, by):
        waiting, holder['waiting'] = holder['waiting'], []
        for wname in waiting:
            w = routines[wname]
            w.hung_on = None
            cid = next(cids)
            access(('rt', wname), by.name, by.time, 'w', cid, by.clock)
            sched(wname, w.clock, by.time, cid)

    def run(r, cid):
        c = clocks[r.clock]
        if c.kind == 'tempo':
            access(('clk', c.name), r.name, r.time, 'r', None, r.clock)
        access(('rt', r.name), r.name, r.time, 'w', cid, r.clock)
        r.nwake += 1
        emit(r, 'wake')
        if r.after is not None:
            emit(r, 'fget', flows[r.after[1]]['val'])
            r.after = None
        while r.pc < len(r.steps):
            st = r.steps[r.pc]
            r.pc += 1
            op = st[0]
            if op == 'yield':
                d = conv(st[1])
                if d < 0:
                    raise ProgramError('negative yield')
                c = clocks[r.clock]
                c.queue[r.name] = [r.beats + d, next(seq), None]
                return
            elif op == 'spawn':
                x = routines[st[1]]
                if x.state != 'init':
                    raise ProgramError('routine spawned twice: ' + st[1])
                cname = st[2] if st[2] is not None else r.clock
                if cname not in clocks:
                    raise ProgramError('unknown clock ' + str(cname))
                x.state = 'susp'
                x.gen = x.name if x.spec.get('seed') is not None else r.gen
                cid2 = next(cids)
                access(('rt', x.name), r.name, r.time, 'w', cid2, r.clock)
                sched(x.name, cname, r.time, cid2)
            elif op == 'tempo':
                c2 = clocks[st[1]]
                if c2.kind != 'tempo':
                    raise ProgramError('tempo of a non tempo clock')
                v = conv(st[2])
                if v <= 0:
                    raise ProgramError('tempo <= 0')
                live = [n for n in c2.queue if routines[n].state == 'susp']
                if live and v != c2.tempo:
                    features.add('tempo_pending')
                for n in live:
                    access(('clk', c2.name), n, c2.b2s(c2.queue[n][0]), 'r',
                           None, c2.name)
                access(('clk', c2.name), r.name, r.time, 'w', None, r.clock)
                b = c2.s2b(r.time)
                c2.base_secs = r.time
                c2.base_beats = b
                c2.tempo = v
                c2.beat_dur = num(1) / v
                features.add('tempo')
            elif op == 'send':
                lat = st[1]
                bundles[r.name].append({
                    'tag': st[2],
                    'secs': None if lat is None else r.time + conv(lat)})
                emit(r, 'send', st[2])
            elif op == 'rand':
                access(('gen', r.gen), r.name, r.time, 'w', None, r.clock)
                emit(r, 'rand', None)
            elif op in ('pause', 'resume'):
                x = routines[st[1]]
                if x is r:
                    raise ProgramError(op + ' of the running routine')
                if x.state == 'init':
                    raise ProgramError(op + ' before spawn')
                cid2 = next(cids)
                access(('rt', x.name), r.name, r.time, 'w', cid2, r.clock)
                if op == 'pause':
                    if x.hung_on is not None:
                        raise ProgramError('pause of a routine that hangs')
                    if x.state == 'susp':
                        x.state = 'paused'
                        features.add('pause')
                elif x.state == 'paused':
                    x.state = 'susp'
                    if x.name in clocks[x.clock].queue:
                        features.add('resume_pending')
                    features.add('resume')
                    sched(x.name, x.clock, r.time, cid2)
            elif op == 'wait':
                cd = conds[st[1]]
                access(('cond', st[1]), r.name, r.time, 'w', None, r.clock)
                wait_on(r, cd, cd['test'])
                features.add('cond')
                return
            elif op == 'signal':
                cd = conds[st[1]]
                access(('cond', st[1]), r.name, r.time, 'w', None, r.clock)
                cd['test'] = True
                release(cd, r)
            elif op == 'unset':
                access(('cond', st[1]), r.name, r.time, 'w', None, r.clock)
                conds[st[1]]['test'] = False
            elif op == 'fget':
                fl = flows[st[1]]
                access(('flow', st[1]), r.name, r.time, 'w', None, r.clock)
                r.after = ('fget', st[1])
                wait_on(r, fl, fl['bound'])
                features.add('flow')
                return
            elif op == 'fset':
                fl = flows[st[1]]
                access(('flow', st[1]), r.name, r.time, 'w', None, r.clock)
                if fl['bound']:
                    raise ProgramError('FlowVar bound twice')
                fl['bound'] = True
                fl['val'] = st[2]
                release(fl, r)
            else:
                raise ProgramError('unknown step %r' % (st,))
        r.state = 'done'
        state['ends'] += 1
        emit(r, 'end')

    # boot: the root starts at relative time 0 on its clock
    root = routines[prog['root']]
    root.state = 'susp'
    root.gen = root.name if root.spec.get('seed') is not None else '<main>'
    sched(root.name, root.spec.get('clock', 'sys'), num(start), None)

    budget = 100000
    while True:
        heads = []
        for c in clocks.values():
            h = c.head()
            if h is not None:
                heads.append((c.b2s(h[1][0]), h[1][1], c, h[0], h[1]))
        if not heads:
            break
        budget -= 1
        if budget < 0:
            raise ProgramError('program does not terminate')
        tmin = min(h[0] for h in heads)
        cands = [h for h in heads if h[0] == tmin]
        if tie == 'fifo':
            pick = min(cands, key=lambda h: h[1])
        elif tie == 'rev':
            pick = max(cands, key=lambda h: h[1])
        else:  # by clock name
            pick = min(cands, key=lambda h: h[2].name)
        secs, _, c, rname, entry = pick
        del c.queue[rname]
        r = routines[rname]
        if secs > state['last']:
            state['last'] = secs
        if r.state != 'susp':
            order.append((secs, rname, True))
            # paused or finished: dropped (still an access to the routine)
            access(('rt', rname), rname, secs, 'w', entry[2], c.name)
            continue
        order.append((secs, rname, False))
        r.time = secs
        r.beats = entry[0]
        run(r, entry[2])

    return {'events': events, 'bundles': bundles, 'order': order,
            'last': state['last'], 'features': features, 'accesses': accesses,
            'ends': state['ends']}


def flatten_events(ref):
    """{routine: [(kind, secs, val)]} with plain tuples (for comparisons)."""
    return {r: [(e['kind'], e['secs'], e['val']) for e in evs]
            for r, evs in ref['events'].items()}


def confluent(prog):
    """True when the per-routine result does not depend on the execution order
    at equal logical times on different clocks."""
    a = flatten_events(reference(prog, 'fifo'))
    for tie in ('rev', 'name'):
        if flatten_events(reference(prog, tie)) != a:
            return False
    return True


def races(prog, margin, ref=None, tie_eps=Fraction(1, 10 ** 6)):
    """Pairs of accesses to one shared object by different routines that are
    closer than ``margin`` logical seconds, not causally ordered, at least one
    of them a write.  In real time such pairs can execute in either physical
    order when the routines run on different clock threads, so a differential
    run is only meaningful for programs without them.

    Programs whose routines all run on ONE clock are executed by one thread in
    logical order; there only pairs closer than ``tie_eps`` count: the order
    of two wake-ups at the same (or almost the same) mathematical time is
    decided by one-ulp float noise of whatever unit the scheduler keeps its
    queue in, which the statements ("up to timetag resolution") leave open."""
    ref = ref or reference(prog)
    margin = Fraction(margin)
    if len(clock_names(prog)) <= 1:
        margin = Fraction(tie_eps)
    by_obj = {}
    for a in ref['accesses']:
        by_obj.setdefault(a['obj'], []).append(a)
    out = []
    for obj, lst in by_obj.items():
        lst.sort(key=lambda a: a['t'])
        for i, a in enumerate(lst):
            for b in lst[i + 1:]:
                if b['t'] - a['t'] >= margin:
                    break
                if a['by'] == b['by']:
                    continue
                if a['rw'] == 'r' and b['rw'] == 'r':
                    continue
                if a['cid'] is not None and a['cid'] == b['cid']:
                    continue
                out.append((obj, a['by'], b['by'], float(a['t']), float(b['t'])))
    return out


# --------------------------------------------------------------------------
# interpreter: the same data as real sc3 routines
# --------------------------------------------------------------------------

RAND_KINDS = ('rrand', 'rand', 'rand2', 'choice', 'coin', 'exprand',
              'linrand', 'bilinrand', 'sum3rand', 'choices')


class Handle:
    def __init__(self):
        self.clocks = {}
        self.routines = {}
        self.conds = {}
        self.flows = {}
        self.start = None
        self.boot = None


def run_program(prog, observe):
    """Build the real sc3 objects for ``prog`` and start it (``sc3.init`` must
    have been called).  ``observe(record)`` is called from whichever thread runs
    the routine with dicts {r, kind, val, k, secs, csecs, beats, phys}.  In
    non-real-time mode call ``main.process()`` afterwards; in real-time mode
    wait for the 'end' records.  Returns a Handle."""
    import sc3.base.main as _m
    from sc3.base.clock import SystemClock, AppClock, TempoClock
    from sc3.base.stream import Routine, Condition, FlowVar
    from sc3.base.netaddr import NetAddr
    from sc3.base import builtins as bi
    main = _m.main
    h = Handle()
    pid = str(prog.get('id', ''))
    addr = NetAddr('127.0.0.1', 57110)
    counters = {}

    def clock_obj(name):
        if name == 'sys':
            return SystemClock
        if name == 'app':
            return AppClock
        return h.clocks[name]

    def rec(rname, clock, kind, val=None):
        # 'segend' (just before the routine gives up control) only carries the
        # physical time; it is not part of the observable behaviour.
        k = counters.get(rname, 0)
        if kind != 'segend':
            counters[rname] = k + 1
        observe({'r': rname, 'kind': kind, 'val': val, 'k': k,
                 'secs': main.current_tt._seconds, 'csecs': clock.seconds,
                 'beats': clock.beats, 'phys': main.elapsed_time()})

    def spawn(rname, cname):
        spec = prog['routines'][rname]
        r = Routine(make_func(rname, spec))
        if spec.get('seed') is not None:
            r.rand_seed = spec['seed']
        h.routines[rname] = r
        r.play(None if cname is None else clock_obj(cname), 0)

    def make_func(rname, spec):
        steps = spec['steps']

        def func(inval):
            _, clock = inval
            rec(rname, clock, 'wake')
            for st in steps:
                op = st[0]
                if op == 'yield':
                    rec(rname, clock, 'segend')
                    _, clock = yield fval(st[1])
                    rec(rname, clock, 'wake')
                elif op == 'spawn':
                    spawn(st[1], st[2])
                elif op == 'tempo':
                    h.clocks[st[1]].tempo = fval(st[2])
                elif op == 'send':
                    lat = None if st[1] is None else fval(st[1])
                    addr.send_bundle(lat, ['/tl', pid, rname, st[2]])
                    rec(rname, clock, 'send', st[2])
                elif op == 'rand':
                    args = [fval(a) if isinstance(a, str) else a for a in st[2:]]
                    v = getattr(bi, st[1])(*args)
                    rec(rname, clock, 'rand', v)
                elif op == 'pause':
                    h.routines[st[1]].pause()
                elif op == 'resume':
                    h.routines[st[1]].resume(None, 0)
                elif op == 'wait':
                    rec(rname, clock, 'segend')
                    yield from h.conds[st[1]].wait()
                    # Condition.wait() is a generator without return value:
                    # take the clock from the routine itself.
                    clock = main.current_tt._clock
                    rec(rname, clock, 'wake')
                elif op == 'signal':
                    h.conds[st[1]].test = True
                    h.conds[st[1]].signal()
                elif op == 'unset':
                    h.conds[st[1]].test = False
                elif op == 'fget':
                    rec(rname, clock, 'segend')
                    v = yield from h.flows[st[1]].value
                    clock = main.current_tt._clock
                    rec(rname, clock, 'wake')
                    rec(rname, clock, 'fget', v)
                elif op == 'fset':
                    h.flows[st[1]].value = st[2]
                else:
                    raise ValueError('unknown step %r' % (st,))
            rec(rname, clock, 'end')
        func.__qualname__ = 'tl_' + rname
        return func

    def boot(inval):
        off = fval(prog.get('start_offset', 0))
        if off:
            yield off
        for cname, tempo in prog.get('clocks', {}).items():
            h.clocks[cname] = TempoClock(fval(tempo))
        for c in prog.get('conds', []):
            h.conds[c] = Condition()
        for f in prog.get('flows', []):
            h.flows[f] = FlowVar()
        h.start = main.current_tt._seconds
        observe({'r': '', 'kind': 'start', 'val': None, 'k': 0,
                 'secs': h.start, 'csecs': SystemClock.seconds,
                 'beats': SystemClock.beats, 'phys': main.elapsed_time()})
        root = prog['root']
        spawn(root, prog['routines'][root].get('clock', 'sys'))
        return
        yield  # pragma: no cover (makes this a generator function)

    h.boot = Routine(boot)
    h.boot.play(SystemClock)
    return h


# --------------------------------------------------------------------------
# program generators (shared by the drivers)
# --------------------------------------------------------------------------

def gen_nested(yields, clocks, tempi=None, pid='n', start_offset=0, sends=False):
    """Nested-routine program without shared objects.

    ``yields``  list (one per level) of yield lists; ``clocks`` list (one per
    level) of clock names ('sys', 'app', or 'T<tempo>' which creates a
    TempoClock of that tempo); level i+1 is spawned by level i after
    ``len(yields[i])//2`` yields."""
    prog = {'id': pid, 'start_offset': start_offset, 'clocks': {},
            'routines': {}, 'root': 'r0'}
    names = []
    for c in clocks:
        if c in ('sys', 'app'):
            names.append(c)
        else:
            tempo = c[1:]
            cname = 'T' + tempo.replace('/', '_').replace('.', '_')
            prog['clocks'][cname] = fval(tempo) if '/' in tempo else float(tempo)
            names.append(cname)
    for lvl, ys in enumerate(yields):
        steps = []
        at = len(ys) // 2
        for i, y in enumerate(ys):
            if i == at and lvl + 1 < len(yields):
                steps.append(['spawn', 'r%d' % (lvl + 1), names[lvl + 1]])
            if sends:
                steps.append(['send', 0.2, i])
            steps.append(['yield', y])
        if at >= len(ys) and lvl + 1 < len(yields):
            steps.append(['spawn', 'r%d' % (lvl + 1), names[lvl + 1]])
        prog['routines']['r%d' % lvl] = {'seed': None, 'steps': steps}
    prog['routines']['r0']['clock'] = names[0]
    prog['routines']['r0']['seed'] = 1
    return prog


def _draw(rng):
    kind = rng.choice(['rrand_i', 'rrand_f', 'rand_f', 'rand_i', 'choice',
                       'coin', 'exprand', 'rand2', 'linrand', 'choices'])
    if kind == 'rrand_i':
        return ['rand', 'rrand', 0, 1000]
    if kind == 'rrand_f':
        return ['rand', 'rrand', 0.0, 1.0]
    if kind == 'rand_f':
        return ['rand', 'rand', 10.0]
    if kind == 'rand_i':
        return ['rand', 'rand', 100]
    if kind == 'choice':
        return ['rand', 'choice', [1, 2, 3, 5, 8, 13, 21]]
    if kind == 'coin':
        return ['rand', 'coin', 0.5]
    if kind == 'exprand':
        return ['rand', 'exprand', 1.0, 100.0]
    if kind == 'rand2':
        return ['rand', 'rand2', 1.0]
    if kind == 'linrand':
        return ['rand', 'linrand', 50]
    return ['rand', 'choices', ['a', 'b', 'c']]


def gen_interacting(rng, pid='g', multi=True, want=None, grid=0.05,
                    nroutines=(2, 4), app_leaf=False):
    """Random program with routines, nested play on other clocks, tempo
    changes, pause/resume, Condition/FlowVar, seeded draws and bundle sends.
    The caller filters with ``reference`` (ProgramError), ``confluent`` and
    ``races``.  ``want`` optionally forces a feature: 'pause', 'cond', 'flow',
    'tempo'."""
    tempi = [0.5, 1, 2, 3]
    nT = rng.choice([1, 2]) if multi else rng.choice([0, 1])
    clocks = {}
    for i in range(nT):
        clocks['T%d' % i] = rng.choice(tempi)
    cnames = ['sys'] + list(clocks) if multi else (
        [rng.choice(list(clocks))] if clocks else ['sys'])
    n = rng.randint(*nroutines)
    names = ['main'] + ['r%d' % i for i in range(1, n)]
    rclock = {}
    for nm in names:
        rclock[nm] = rng.choice(cnames)
    prog = {'id': pid, 'start_offset': rng.choice([0, 0.05, 0.125]),
            'clocks': clocks, 'conds': ['c0'], 'flows': ['f0'],
            'root': 'main', 'routines': {}}
    feature = want or rng.choice(['pause', 'cond', 'flow', 'tempo', 'plain',
                                  'pause', 'tempo'])

    def dur(nm, k):
        # yields are multiples of the grid in SECONDS at the initial tempo,
        # plus a small per-routine detuning so that different routines rarely
        # meet at exactly the same logical instant
        c = rclock[nm]
        secs = grid * k + 0.003 * names.index(nm)
        return secs * clocks[c] if c in clocks else secs

    steps = {nm: [] for nm in names}
    # main spawns everybody else (some nested through r1)
    spawner = {}
    for nm in names[1:]:
        spawner[nm] = 'main' if (nm == 'r1' or rng.random() < 0.6) else 'r1'
    for nm in names:
        nblocks = rng.randint(2, 5)
        blocks = []
        for b in range(nblocks):
            ops = []
            r = rng.random()
            if r < 0.5:
                ops.append(_draw(rng))
            if rng.random() < 0.4:
                ops.append(['send', rng.choice([0.0, 0.2, 0.05]),
                            len(blocks) * 10 + len(ops)])
            if rng.random() < 0.25:
                ops.append(_draw(rng))
            blocks.append(ops)
        steps[nm] = blocks
    # place spawns
    for nm in names[1:]:
        sp = spawner[nm]
        b = rng.randrange(0, min(2, len(steps[sp])))
        inherit = rng.random() < 0.2
        if inherit:
            rclock[nm] = rclock[sp]
        steps[sp][b].append(['spawn', nm, None if inherit else rclock[nm]])
    # interaction
    if n >= 2:
        a, b = 'main', rng.choice(names[1:])
        if rng.random() < 0.5 and n >= 3:
            a = rng.choice([x for x in names[1:] if x != b])
        ia = rng.randrange(1, len(steps[a]))
        if feature == 'pause':
            steps[a][ia].append(['pause', b])
            ib = rng.randrange(ia, len(steps[a]))
            if ib == ia and rng.random() < 0.5:
                steps[a][ia].append(['yield', dur(a, rng.randint(1, 6))])
            steps[a][ib].append(['resume', b])
        elif feature == 'cond':
            ib = rng.randrange(0, len(steps[b]))
            steps[b][ib].append(['wait', 'c0'])
            steps[a][ia].append(['signal', 'c0'])
        elif feature == 'flow':
            ib = rng.randrange(0, len(steps[b]))
            steps[b][ib].append(['fget', 'f0'])
            steps[a][ia].append(['fset', 'f0', rng.randint(0, 99)])
        elif feature == 'tempo' and clocks:
            steps[a][ia].append(['tempo', rng.choice(list(clocks)),
                                 rng.choice(tempi)])
    if app_leaf:
        nm = 'leaf'
        names.append(nm)
        rclock[nm] = 'app'
        steps[nm] = [[_draw(rng)], [_draw(rng), _draw(rng)], [_draw(rng)]]
        steps['main'][0].append(['spawn', nm, 'app'])
    # flatten blocks with yields between them
    for nm in names:
        flat = []
        for i, ops in enumerate(steps[nm]):
            flat.extend(ops)
            if i + 1 < len(steps[nm]):
                flat.append(['yield', dur(nm, rng.randint(2, 8))])
        prog['routines'][nm] = {'seed': rng.randint(1, 10 ** 6)
                                if (nm == 'main' or rng.random() < 0.6) else None,
                                'steps': flat}
    prog['routines']['main']['clock'] = rclock['main']
    return prog
