"""Contracts for the key chains of note events (C14): sc3/seq/event.py
PitchKeys / DurationKeys / AmplitudeKeys and the lookup EventDict.__call__.

Model of an event (the dict the methods are bound to):

    'k' in ev        ghost boolean  has.k      (the key is given explicitly)
    ev['k']          ghost real     own.k      (KeyError unless has.k)
    ev('k')          ghost real     res.k      the RESOLVED value of the key; the
                     lookup contract (EventDict.__call__, numeric case, proved
                     below) gives  has.k  =>  res.k == own.k  ("explicitly given
                     keys take precedence"), assumed here as an axiom per key
    ev.default_values['k']          default.k
    ev('scale')      an opaque scale: tuning.spo (> 0), tuning.octave_ratio,
                     degree_to_key = uninterpreted function DK
    midicps, cpsmidi, log2, dbamp, ampdb: uninterpreted (their own contracts and
                     bounded checks are C15's); floats are reals.

Each chain function gets as postcondition the documented chain, written once as
a spec function below (MIDI_FROM_KEY, ...), with the documented precedence
between the alternative source keys.
"""
import ast
import z3
from vf.pyvc.spec import contract
from vf.pyvc.values import *
from vf.pyvc import values as VV
from vf.pyvc.engine import Raised, Unsupported

F = 'sc3/seq/event.py'
R = z3.RealSort()
MIDICPS = z3.Function('midicps', R, R)
CPSMIDI = z3.Function('cpsmidi', R, R)
LOG2 = z3.Function('log2', R, R)
DBAMP = z3.Function('dbamp', R, R)
AMPDB = z3.Function('ampdb', R, R)
DK = z3.Function('degree_to_key', R, R)
SPO = z3.Real('scale.tuning.spo')
RATIO = z3.Real('scale.tuning.octave_ratio')
UF = {'midicps': MIDICPS, 'cpsmidi': CPSMIDI, 'log2': LOG2, 'dbamp': DBAMP, 'ampdb': AMPDB}


def HAS(k):
    return z3.Bool('has.' + k)


def OWN(k):
    return z3.Real('own.' + k)


def RES(k):
    return z3.Real('res.' + k)


def DEF(k):
    return z3.Real('default.' + k)


KEYS = ('freq', 'detune', 'harmonic', 'midinote', 'ctranspose', 'note', 'degree', 'mtranspose',
        'gtranspose', 'octave', 'root', 'dur', 'legato', 'stretch', 'amp', 'db', 'velocity')


def precedence_axioms():
    return [z3.Implies(HAS(k), RES(k) == OWN(k)) for k in KEYS] + [SPO > 0]


# ---- spec functions: the documented chains -------------------------------------------
def MIDI_FROM_KEY(key):
    """scale key (already through degree_to_key, or the 'note' key itself) -> midinote"""
    return ((key + RES('gtranspose') + RES('root')) / SPO + RES('octave') - 5) * (12 * LOG2(RATIO)) + 60


def MIDI_FROM_DEGREE():
    return MIDI_FROM_KEY(DK(RES('degree') + RES('mtranspose')))


def DETUNED():
    return RES('freq') * RES('harmonic') + RES('detune')


# ---- hooks ----------------------------------------------------------------------------
def is_ev(v):
    return v.k == 'ref' and v.oid == 'self'


def key_of(v, node):
    if v.k != 'str' or v.py is None:
        raise Unsupported(node, 'event key %r' % (v,))
    return v.py


def h_contains(eng, container, item, st, node):
    if is_ev(container):
        return HAS(key_of(item, node))
    return None


def h_getitem(eng, obj, idx, st, node):
    if is_ev(obj):
        k = key_of(idx, node)
        outs = []
        for st1, ok in eng.branch(st, HAS(k), node):
            if ok:
                st1.trace.append(('own', k))
                outs.append((st1, vreal(OWN(k))))
            else:
                outs.append((st1, Raised(eng.make_exc('KeyError', node=node))))
        return outs
    if obj.k == 'obj' and obj.oid == 'default_values':
        return [(st, vreal(DEF(key_of(idx, node))))]
    return None


def h_call(eng, f, args, kwargs, st, node):
    if is_ev(f) and len(args) == 1:
        k = key_of(args[0], node)
        st.trace.append(('resolve', k))
        if k == 'scale':
            return [(st, V('obj', oid='scale'))]
        return [(st, vreal(RES(k)))]
    return None


def h_getattr(eng, obj, name, st, node):
    if is_ev(obj) and name == 'default_values':
        return [(st, V('obj', oid='default_values'))]
    if obj.k == 'obj' and obj.oid == 'scale':
        if name == 'tuning':
            return [(st, V('obj', oid='tuning'))]
        if name == 'degree_to_key':
            def dk(eng, args, kwargs, st, node):
                return [(st, vreal(DK(to_real(args[0]))))]
            return [(st, V('func', py=('spec', dk)))]
    if obj.k == 'obj' and obj.oid == 'tuning':
        if name == 'spo':
            return [(st, vreal(SPO))]
        if name == 'octave_ratio':
            return [(st, vreal(RATIO))]
    return None


def uf_policy(name):
    def f(eng, selfv, args, kwargs, st, node):
        return [(st, vreal(UF[name](to_real(args[0]))))]
    return f


HOOKS = {'contains': h_contains, 'getitem': h_getitem, 'call': h_call, 'getattr': h_getattr}
POLICIES = {('sc3/base/builtins.py::' + n): uf_policy(n) for n in UF}
CLASSES = ('PitchKeys', 'DurationKeys', 'AmplitudeKeys')


def keyc(qual, post, requires=None, raises=None, inline=()):
    cls = qual.split('.')[0]
    contract(F, qual, props=('C14',), params={'self': 'self'},
             requires=requires, raises=raises or {},
             ensures=[('documented-chain-with-explicit-keys-first', lambda c, _p=post: c.result == _p)],
             axioms=[precedence_axioms], hooks=HOOKS, policies=POLICIES, native=False,
             fields={cls: {}}, class_modules={cls: F},
             inline=tuple('%s.%s' % (cls, m) for m in inline))


P_INL = ('_freq_from_midinote', '_freq_from_degree', '_transposed_midinote', '_midi_from_note',
         '_midinote_from_degree', '_midinote_from_freq', '_detuned_freq', '_degree_from_freq',
         '_degree_from_midinote')

# pitch: degree -> (scale, mtranspose) -> key -> (gtranspose, root, octave, tuning) -> midinote
#        -> (ctranspose) -> freq -> (harmonic, detune) -> detuned freq
keyc('PitchKeys._detuned_freq', DETUNED())
keyc('PitchKeys._transposed_midinote', RES('midinote') + RES('ctranspose'))
keyc('PitchKeys._midi_from_note', MIDI_FROM_KEY(OWN('note')), requires=lambda c: HAS('note'))
keyc('PitchKeys._midinote_from_degree', MIDI_FROM_DEGREE())
keyc('PitchKeys._midinote_from_freq', CPSMIDI(DETUNED()), inline=P_INL)
keyc('PitchKeys._freq_from_midinote', MIDICPS(RES('midinote') + RES('ctranspose')), inline=P_INL)
keyc('PitchKeys._freq_from_degree', MIDICPS(MIDI_FROM_DEGREE()), inline=P_INL)
keyc('PitchKeys.freq',
     z3.If(z3.Or(HAS('midinote'), HAS('note')), MIDICPS(RES('midinote') + RES('ctranspose')),
           z3.If(HAS('degree'), MIDICPS(MIDI_FROM_DEGREE()), DEF('freq'))), inline=P_INL)
keyc('PitchKeys.midinote',
     z3.If(HAS('note'), MIDI_FROM_KEY(OWN('note')),
           z3.If(HAS('degree'), MIDI_FROM_DEGREE(),
                 z3.If(HAS('freq'), CPSMIDI(DETUNED()), DEF('midinote')))), inline=P_INL)
keyc('PitchKeys.note', DK(RES('degree') + RES('mtranspose')))

# duration
keyc('DurationKeys.delta', RES('dur') * RES('stretch'))
keyc('DurationKeys.sustain', RES('dur') * RES('legato') * RES('stretch'))

# amplitude: db or velocity -> amp; amp or velocity -> db; amp or db -> velocity
A_INL = ('_amp_from_velocity', '_db_from_velocity', '_velocity_from_amp', '_velocity_from_db')
keyc('AmplitudeKeys.amp',
     z3.If(HAS('db'), DBAMP(OWN('db')), z3.If(HAS('velocity'), OWN('velocity') / 127, DEF('amp'))),
     inline=A_INL)
keyc('AmplitudeKeys.db',
     z3.If(HAS('amp'), AMPDB(OWN('amp')),
           z3.If(HAS('velocity'), AMPDB(OWN('velocity') / 127), DEF('db'))), inline=A_INL)


def trunc(x):
    return z3.ToReal(real_trunc(x))


keyc('AmplitudeKeys.velocity',
     z3.If(HAS('amp'), trunc(127 * OWN('amp')),
           z3.If(HAS('db'), trunc(127 * DBAMP(OWN('db'))), DEF('velocity'))), inline=A_INL)


# ---- the lookup itself: explicitly given keys take precedence ---------------------------
def call_hooks():
    def getattr_(eng, obj, name, st, node):
        if is_ev(obj) and name in ('default_functions', 'default_values'):
            return [(st, V('obj', oid=name))]
        if obj.k == 'module' and name == 'FunctionType':
            return [(st, V('class', py='FunctionType'))]
        return None

    def contains(eng, container, item, st, node):
        if is_ev(container):
            return HAS(key_of(item, node))
        if container.k == 'obj' and container.oid == 'default_functions':
            return z3.Bool('has_default_function.' + key_of(item, node))
        return None

    def getitem(eng, obj, idx, st, node):
        if is_ev(obj):
            return h_getitem(eng, obj, idx, st, node)
        if obj.k == 'obj' and obj.oid == 'default_values':
            return [(st, vreal(DEF(key_of(idx, node))))]
        if obj.k == 'obj' and obj.oid == 'default_functions':
            k = key_of(idx, node)

            def keyfunc(eng, args, kwargs, st, node, _k=k):
                st.trace.append(('keyfunction', _k, tuple(args)))
                return [(st, vreal(z3.Real('keyfunction.' + _k)))]
            return [(st, V('func', py=('spec', keyfunc)))]
        return None
    return {'getattr': getattr_, 'contains': contains, 'getitem': getitem}


def lookup_post(c):
    k = 'k'
    kf = [e for e in c.trace if e[0] == 'keyfunction']
    called_with_event = len(kf) == 1 and len(kf[0][2]) == 1 and kf[0][2][0].k == 'ref' and kf[0][2][0].oid == 'self'
    hdf = z3.Bool('has_default_function.' + k)
    return z3.And(
        z3.Implies(HAS(k), z3.And(c.result == OWN(k), z3.BoolVal(not kf))),         # the given value, as is
        z3.Implies(z3.And(z3.Not(HAS(k)), hdf),
                   z3.And(c.result == z3.Real('keyfunction.' + k), z3.BoolVal(called_with_event))),
        z3.Implies(z3.And(z3.Not(HAS(k)), z3.Not(hdf)),
                   z3.And(c.result == DEF(k), z3.BoolVal(not kf))))


contract(F, 'EventDict.__call__', props=('C14',), params={'self': 'self', 'key': 'const:"k"'},
         ensures=[('given-value-else-key-function-else-default', lookup_post)],
         hooks=call_hooks(), native=False, fields={'EventDict': {}}, class_modules={'EventDict': F},
         opts={'opaque_ext': ()},
         note='numeric values (the quantifier of C14); one representative key name: the function does '
              'not inspect the name. A value that is a function is called with the event, a tuple is '
              'wrapped as arrayed_param: those two branches are exercised by the bounded driver only')


# ---- the stream player's step: EventStreamPlayer._play_and_delta (C14) -----------------------------------
# "a rest played by an event stream sends nothing"; "plays event k at its start time plus the sum of the
# preceding deltas": one step plays the event exactly once iff the player is not muted and the event is
# not a rest, and hands the clock the event's delta as a NUMBER (a Rest used as delta is unwrapped).
FE = 'sc3/seq/eventstream.py'
IS_REST = z3.Bool('event_is_rest')


def esp_getattr(eng, obj, name, st, node):
    if obj.k == 'obj' and obj.oid == 'outevent' and name == 'play':
        def play(eng, args, kwargs, st, node):
            st.trace.append(('play',))
            return [(st, NONE)]
        return [(st, V('func', py=('spec', play)))]
    if obj.k == 'module' and name == 'Rest':
        return [(st, V('class', py='Rest'))]
    return None


def esp_call(kind):
    def h(eng, f, args, kwargs, st, node):
        if f.k == 'obj' and f.oid == 'outevent' and len(args) == 1 and args[0].k == 'str':
            st.trace.append(('lookup', args[0].py))
            if kind == 'number':
                return [(st, vreal(z3.Real('the_delta')))]
            return [(st, V('ref', cls='RestDelta', oid='rest-delta',
                           extra={'isinstance': {'Rest': z3.BoolVal(True), 'Operand': z3.BoolVal(True)}}))]
        return None
    return h


def is_rest_pol(eng, selfv, args, kwargs, st, node):
    ok = len(args) == 1 and args[0].k == 'obj' and args[0].oid == 'outevent'
    st.trace.append(('is-rest-asked', ok))
    return [(st, vbool(IS_REST))]


def esp_post(kind):
    def post(c):
        plays = [e for e in c.trace if e[0] == 'play']
        looks = [e for e in c.trace if e[0] == 'lookup']
        muted = c.pre.self._is_muted
        should_play = z3.And(z3.Not(muted), z3.Not(IS_REST))
        if c.resultv.k not in ('int', 'real'):
            return z3.BoolVal(False)                                        # the clock only reschedules numbers
        r = c.result
        want = z3.Real('the_delta') if kind == 'number' else z3.Real('rest-delta.value')
        return z3.And(z3.BoolVal(len(plays) <= 1 and len(looks) == 1 and looks[0][1] == 'delta'),
                      z3.BoolVal(len(plays) == 1) == should_play,          # played once iff audible
                      r == want)                                            # the clock gets the event's delta, as a number
    return post


for kind in ('number', 'rest'):
    contract(FE, 'EventStreamPlayer._play_and_delta', props=('C14',),
             params={'self': 'self', 'outevent': 'obj'},
             ensures=[('played-once-iff-not-muted-and-not-a-rest;returns-the-delta-as-a-number', esp_post(kind))],
             modifies=[], fields={'EventStreamPlayer': {'_is_muted': 'bool'}, 'RestDelta': {'value': 'real'}},
             hooks={'getattr': esp_getattr, 'call': esp_call(kind)},
             policies={'sc3/seq/event.py::is_rest': is_rest_pol},
             class_modules={'EventStreamPlayer': FE, 'RestDelta': F}, native=False)
    from vf.pyvc.spec import REGISTRY
    key = '%s::EventStreamPlayer._play_and_delta#delta-is-a-%s' % (FE, kind)
    REGISTRY[key] = REGISTRY.pop('%s::EventStreamPlayer._play_and_delta' % FE)
    REGISTRY[key].key = key


# ---- NoteEvent.play (C14, first sentence of the statement) -------------------------------------------------
# exactly one synth-creation bundle at the server's latency carrying instrument name, a FRESH node id, the
# add action number, the target group and the message parameters; followed - iff the event sends a gate -
# by one gate-off bundle for the SAME node later by the event's sustain; the event is marked playing.
SEND_GATE = z3.Bool('res.send_gate')


def ne_call(eng, f, args, kwargs, st, node):
    if is_ev(f) and len(args) == 1:
        k = key_of(args[0], node)
        st.trace.append(('resolve', k))
        if k == 'server':
            return [(st, V('obj', oid='server'))]
        if k == 'send_gate':
            return [(st, vbool(SEND_GATE))]
        if k in ('sustain',):
            return [(st, vreal(RES(k)))]
        return [(st, V('obj', oid='res.' + k))]
    return None


def ne_setitem(eng, obj, idx, v, st, node):
    if is_ev(obj):
        st.trace.append(('set', key_of(idx, node), v))
        return [('next', st)]
    return None


NE_METHODS = {'_detuned_freq': ('detuned', lambda: V('obj', oid='the-detuned-freq')),
              '_get_msg_params': ('msg-params', lambda: vlist([V('obj', oid='param0'), V('obj', oid='param1')])),
              '_synthdef_name': ('defname', lambda: V('obj', oid='the-defname'))}


def ne_getattr(eng, obj, name, st, node):
    if is_ev(obj) and name in NE_METHODS:
        # methods mixed in from the partial events (PitchKeys, ServerKeys): own contracts / bounded driver
        def meth(eng, args, kwargs, st, node, _n=name):
            ev, mk = NE_METHODS[_n]
            r = mk()
            st.trace.append((ev, r))
            return [(st, r)]
        return [(st, V('func', py=('spec', meth)))]
    if obj.k == 'obj' and obj.oid == 'server':
        if name == '_next_node_id':
            def nid(eng, args, kwargs, st, node):
                v = vint(eng.fresh('fresh_node_id', z3.IntSort()))
                st.trace.append(('next-id', v))
                return [(st, v)]
            return [(st, V('func', py=('spec', nid)))]
        if name == 'addr':
            return [(st, V('obj', oid='server.addr'))]
        if name == 'latency':
            return [(st, vreal(z3.Real('server.latency')))]
    if obj.k == 'obj' and obj.oid == 'server.addr' and name == 'send_bundle':
        def sb(eng, args, kwargs, st, node):
            st.trace.append(('send_bundle', tuple(args)))
            return [(st, NONE)]
        return [(st, V('func', py=('spec', sb)))]
    if obj.k == 'obj' and obj.oid == 'param' and name in ('_as_control_input', '_as_osc_arg_list'):
        def conv(eng, args, kwargs, st, node, _o=obj, _n=name):
            return [(st, V('obj', oid='converted', extra={'how': _n, 'of': _o.extra['of']}))]
        return [(st, V('func', py=('spec', conv)))]
    if obj.k == 'module' and name == 'Node':
        return [(st, V('class', py='Node'))]
    if obj.k == 'class' and obj.py == 'Node' and name == '_action_number_for':
        def act(eng, args, kwargs, st, node):
            r = V('obj', oid='action-number', extra={'of': args[0]})
            return [(st, r)]
        return [(st, V('func', py=('spec', act)))]
    return None


def ne_node_param(eng, selfv, args, kwargs, st, node):
    return [(st, V('obj', oid='param', extra={'of': args[0]}))]


def ne_traced(name, result):
    def pol(eng, selfv, args, kwargs, st, node):
        r = result(eng)
        st.trace.append((name, r))
        return [(st, r)]
    return pol


def play_post(c):
    t = c.trace
    ids = [e for e in t if e[0] == 'next-id']
    sends = [e for e in t if e[0] == 'send_bundle']
    sets = {e[1]: (i, e[2]) for i, e in enumerate(t) if e[0] == 'set'}
    calls = {e[0]: i for i, e in enumerate(t) if e[0] in ('detuned', 'msg-params', 'defname')}
    if len(ids) != 1 or not sends or len(sends) > 2 or 'freq' not in sets or 'msg-params' not in calls:
        return z3.BoolVal(False)
    nid = ids[0][1]
    first = sends[0][1]
    ok = (sets['freq'][0] < calls['msg-params']                                  # the detuned frequency is in place first
          and len(first) == 2 and first[0].k == 'real' and first[1].k == 'obj' and first[1].oid == 'converted'
          and first[1].extra['how'] == '_as_osc_arg_list')
    if not ok:
        return z3.BoolVal(False)
    msg = first[1].extra['of']
    ok = (msg.k == 'list' and msg.items is not None and len(msg.items) == 7
          and msg.items[0].k == 'str' and msg.items[0].py == '/s_new'
          and msg.items[1].k == 'obj' and msg.items[1].oid == 'the-defname'       # instrument (with variant)
          and msg.items[2] is nid                                                 # the fresh id
          and msg.items[3].k == 'obj' and msg.items[3].oid == 'action-number'
          and msg.items[3].extra['of'].k == 'obj' and msg.items[3].extra['of'].oid == 'res.add_action'
          and msg.items[4].k == 'obj' and msg.items[4].oid == 'converted' and msg.items[4].extra['how'] == '_as_control_input'
          and msg.items[4].extra['of'].k == 'obj' and msg.items[4].extra['of'].oid == 'res.group'
          and [x.oid for x in msg.items[5:]] == ['param0', 'param1']              # then the message parameters
          and sets.get('is_playing', (0, NONE))[1].k == 'bool' and sets.get('node_id', (0, NONE))[1] is nid)
    if not ok:
        return z3.BoolVal(False)
    cl = [first[0].z == z3.Real('server.latency'), sets['is_playing'][1].z]
    if len(sends) == 2:
        second = sends[1][1]
        g = second[1] if len(second) == 2 else None
        ok2 = (g is not None and second[0].k == 'real' and g.k == 'list' and g.items is not None and len(g.items) == 4
               and g.items[0].k == 'str' and g.items[0].py == '/n_set' and g.items[1] is nid
               and g.items[2].k == 'str' and g.items[2].py == 'gate' and g.items[3].k == 'int')
        if not ok2:
            return z3.BoolVal(False)
        cl += [SEND_GATE, second[0].z == z3.Real('server.latency') + RES('sustain'), g.items[3].z == 0]
    else:
        cl.append(z3.Not(SEND_GATE))
    return z3.And(*cl)


contract(F, 'NoteEvent.play', props=('C14', 'C17'), params={'self': 'self'},
         ensures=[('one-s_new-bundle-at-latency-with-fresh-id;gate-off-at-latency+sustain-iff-gated;marked-playing',
                   play_post)],
         hooks={'call': ne_call, 'setitem': ne_setitem, 'getattr': ne_getattr},
         policies={'sc3/synth/_graphparam.py::node_param': ne_node_param},
         fields={'NoteEvent': {}}, class_modules={'NoteEvent': F, 'ServerKeys': F, 'PitchKeys': F}, native=False,
         note='two message parameters stand for the parameter list; key resolution, parameter selection and the '
              'conversions are opaque here (their own contracts / the bounded driver)')


# ---- ServerKeys._get_msg_params: "the event's value for each control of the instrument that the event
#      defines" (C14) -----------------------------------------------------------------------------------------
from vf.pyvc.spec import Loop
HASK = z3.Function('event_defines', VV.Any, z3.BoolSort())
RESK = z3.Function('event_value_of', VV.Any, VV.Any)
CTL = z3.Array('control_names.items', z3.IntSort(), VV.Any)


def names_seq(tag):
    n = z3.Int('control_names.len' + tag)
    return V('seq', extra={'len': n, 'facts': [n >= 0], 'names': tag or 'all',
                           'get': (lambda eng_, i, st_: V('any', z3.Select(CTL, i)))})


def mp_call(state):
    def h(eng, f, args, kwargs, st, node):
        if is_ev(f) and len(args) == 1:
            a = args[0]
            if a.k == 'str' and a.py is not None:
                k = a.py
                st.trace.append(('resolve', k))
                if k == 'msg_params':
                    return [(st, vlist([]) if state == 'fresh' else V('obj', oid='cached-params', extra={'truth': z3.BoolVal(True)}))]
                if k == 'is_playing':
                    return [(st, vbool(z3.Bool('res.is_playing')))]
                if k == 'synth_lib':
                    return [(st, V('obj', oid='synth_lib'))]
                return [(st, V('obj', oid='res.' + k))]
            if a.k == 'any':
                return [(st, V('any', RESK(a.z)))]
        return None
    return h


def mp_contains(eng, container, item, st, node):
    if is_ev(container) and item.k == 'any':
        return HASK(item.z)
    return None


def mp_getattr(desc_kind):
    def h(eng, obj, name, st, node):
        if obj.k == 'obj' and obj.oid == 'synth_lib' and name == 'at':
            def at(eng, args, kwargs, st, node):
                st.trace.append(('lookup-desc', tuple(args)))
                return [(st, NONE if desc_kind == 'none' else V('obj', oid='desc'))]
            return [(st, V('func', py=('spec', at)))]
        if obj.k == 'obj' and obj.oid == 'desc':
            if name == 'has_gate':
                return [(st, vbool(z3.Bool('desc.has_gate')))]
            if name == 'keep_gate':
                return [(st, vbool(z3.Bool('desc.keep_gate')))]
            if name == 'control_names':
                return [(st, names_seq(''))]
        if obj.k == 'seq' and name == 'remove' and (obj.extra.get('names') or (
                obj.extra.get('slice_of') and obj.extra['slice_of'][0].get('names'))):
            def rm(eng, args, kwargs, st, node):
                st.trace.append(('remove-name', args[0]))
                return [(st, NONE)]
            return [(st, V('func', py=('spec', rm)))]
        if obj.k == 'list' and name == 'extend':
            def ext(eng, args, kwargs, st, node):
                st.trace.append(('extend', args[0]))
                return [(st, NONE)]
            return [(st, V('func', py=('spec', ext)))]
        if is_ev(obj) and name == '_default_msg_params':
            def dflt(eng, args, kwargs, st, node):
                r = V('obj', oid='default-params')
                st.trace.append(('default-params', r))
                return [(st, r)]
            return [(st, V('func', py=('spec', dflt)))]
        return None
    return h


def mp_getitem(eng, obj, idx, st, node):
    if is_ev(obj) and idx.k == 'str' and idx.py is not None:
        for e in reversed(st.trace):
            if e[0] == 'set' and e[1] == idx.py:
                return [(st, e[2])]                       # what was stored under that key a moment ago
    return None


def mp_since(trace):
    idx = -1
    for i, e in enumerate(trace):
        if e[0] == 'loop-head':
            idx = i
    return trace[idx + 1:] if idx >= 0 else None


def mp_pass(c, L):
    ev = mp_since(c.trace)
    if not ev:
        return z3.BoolVal(True)
    ev = [e for e in ev if e[0] in ('extend', 'set', 'remove-name')]
    name = z3.Select(CTL, L.i - 1)
    if not ev:
        return z3.Not(HASK(name))                                        # a control the event does not define: skipped
    if len(ev) != 1 or ev[0][0] != 'extend':
        return z3.BoolVal(False)
    pair = ev[0][1]
    ok = pair.k == 'list' and pair.items is not None and len(pair.items) == 2 and all(x.k == 'any' for x in pair.items)
    if not ok:
        return z3.BoolVal(False)
    return z3.And(HASK(name), pair.items[0].z == name, pair.items[1].z == RESK(name))   # (name, the event's value)


def mp_post(state, desc_kind):
    def post(c):
        t = c.trace
        sets = {e[1]: e[2] for e in t if e[0] == 'set'}
        r = c.resultv
        if state == 'cached':
            reused = r.k == 'obj' and r.oid == 'cached-params'
            if reused:
                return z3.And(z3.Not(z3.Bool('res.is_playing')), z3.BoolVal(not sets))    # kept as is, nothing touched
            if not [e for e in t if e[0] == 'lookup-desc']:
                return z3.BoolVal(False)
        if desc_kind == 'none':
            d = [e for e in t if e[0] == 'default-params']
            return z3.BoolVal(len(d) == 1 and r is d[0][1] and sets.get('msg_params') is d[0][1])
        heads = [e for e in t if e[0] == 'loop-head']
        rem = [e for e in t if e[0] == 'remove-name']
        gate_removed = len(rem) == 1 and rem[0][1].k == 'str' and rem[0][1].py == 'gate'
        ok = (bool(heads) and r.k == 'list' and sets.get('msg_params') is r                 # stored and returned
              and sets.get('synth_desc') is not None and sets['synth_desc'].k == 'obj' and sets['synth_desc'].oid == 'desc'
              and sets.get('has_gate') is not None and sets['has_gate'].k == 'bool' and len(rem) <= 1)
        if not ok:
            return z3.BoolVal(False)
        return z3.And(sets['has_gate'].z == z3.Bool('desc.has_gate'),
                      z3.BoolVal(bool(gate_removed)) == z3.And(z3.Bool('desc.has_gate'), z3.Not(z3.Bool('desc.keep_gate'))))
    return post


for state in ('fresh', 'cached'):
    for desc_kind in ('none', 'desc'):
        contract(F, 'ServerKeys._get_msg_params', props=('C14',), params={'self': 'self'},
                 ensures=[('cached-or-defaults-or-(name,value)-for-exactly-the-controls-the-event-defines',
                           mp_post(state, desc_kind))],
                 loops={0: Loop(inv=mp_pass, kinds={'arg': 'any'})},
                 hooks={'call': mp_call(state), 'contains': mp_contains, 'getattr': mp_getattr(desc_kind),
                        'setitem': ne_setitem, 'getitem': mp_getitem},
                 fields={'ServerKeys': {}}, class_modules={'ServerKeys': F}, native=False,
                 note='the copy of the control names with "gate" removed is the same abstract sequence (the removal is a '
                      'ghost event); the driver checks the gate control on real descriptions')
        from vf.pyvc.spec import REGISTRY
        key = '%s::ServerKeys._get_msg_params#%s-%s' % (F, state, desc_kind)
        REGISTRY[key] = REGISTRY.pop('%s::ServerKeys._get_msg_params' % F)
        REGISTRY[key].key = key


# ---- the mono events (Pmono): _mono_on / _mono_set / _mono_off .play (C14, C17) -------------------------------------
# on:   ONE /s_new bundle at the server's latency: instrument, the node id the event was PREPARED with (no new id
#       here), the action number of the resolved add action, the converted resolved group, the prepared message
#       parameters; the event is marked playing.  _prepare_event: instrument stored, detuned frequency in place BEFORE
#       the parameters are taken, ONE fresh node id from the resolved server.
# set:  ONE /n_set bundle at the latency for the SAME node id: (name, resolved value) for every mono parameter, in
#       order; the detuned frequency is in place before the values are resolved.
# off:  ONE bundle at latency + the resolved delay: /n_set id 'gate' <resolved gate> if the synth has a gate, else
#       /n_free id; the event is marked not playing.
def mono_getitem(eng, obj, idx, st, node):
    if is_ev(obj):
        k = key_of(idx, node)
        sets = [e for e in st.trace if e[0] == 'set' and e[1] == k]
        if sets:
            return [(st, sets[-1][2])]
        if k == 'server':
            return [(st, V('obj', oid='server'))]
        if k == 'msg_params':
            return [(st, vlist([V('obj', oid='prepared-param0'), V('obj', oid='prepared-param1')]))]
        if k == 'mono_params':
            return [(st, V('seq', extra={'len': z3.Int('mono_params.len'), 'facts': [z3.Int('mono_params.len') >= 0],
                                         'get': (lambda e_, i, s_: V('any', MONO(i)))}))]
        return [(st, V('obj', oid='stored.' + k))]
    return None


MONO = z3.Function('mono_param', z3.IntSort(), VV.Any)
HAS_GATE = z3.Bool('res.has_gate')


def mono_call(eng, f, args, kwargs, st, node):
    if is_ev(f) and len(args) == 1:
        a = args[0]
        if a.k == 'any':                                   # self(arg) for a mono parameter name
            r = V('any', z3.Function('resolved_value_of', VV.Any, VV.Any)(a.z))
            st.trace.append(('resolve-param', a, r))
            return [(st, r)]
        k = key_of(a, node)
        st.trace.append(('resolve', k))
        if k == 'server':
            return [(st, V('obj', oid='server'))]
        if k == 'has_gate':
            return [(st, vbool(HAS_GATE))]
        if k == 'delay':
            return [(st, vreal(RES('delay')))]
        return [(st, V('obj', oid='res.' + k))]
    return None


def bundle_of(c):
    sends = [e for e in c.trace if e[0] == 'send_bundle']
    if len(sends) != 1 or len(sends[0][1]) != 2:
        return None, None
    when, conv = sends[0][1]
    if conv.k != 'obj' or conv.oid != 'converted' or conv.extra['how'] != '_as_osc_arg_list':
        return None, None
    return when, conv.extra['of']


def sets_of(c):
    return {e[1]: (i, e[2]) for i, e in enumerate(c.trace) if e[0] == 'set'}


def mono_on_post(c):
    when, msg = bundle_of(c)
    sets = sets_of(c)
    if msg is None or when.k != 'real' or [e for e in c.trace if e[0] == 'next-id']:
        return z3.BoolVal(False)                                                  # no new id at play time
    ok = (msg.k == 'list' and msg.items is not None and len(msg.items) == 7
          and msg.items[0].k == 'str' and msg.items[0].py == '/s_new'
          and msg.items[1].k == 'obj' and msg.items[1].oid == 'stored.instrument'
          and msg.items[2].k == 'obj' and msg.items[2].oid == 'stored.node_id'    # the id it was prepared with
          and msg.items[3].k == 'obj' and msg.items[3].oid == 'action-number'
          and msg.items[3].extra['of'].k == 'obj' and msg.items[3].extra['of'].oid == 'res.add_action'
          and msg.items[4].k == 'obj' and msg.items[4].oid == 'converted' and msg.items[4].extra['how'] == '_as_control_input'
          and msg.items[4].extra['of'].k == 'obj' and msg.items[4].extra['of'].oid == 'res.group'
          and [x.oid for x in msg.items[5:]] == ['prepared-param0', 'prepared-param1']
          and sets.get('is_playing', (0, NONE))[1].k == 'bool')
    if not ok:
        return z3.BoolVal(False)
    return z3.And(when.z == z3.Real('server.latency'), sets['is_playing'][1].z)


MONO_COMMON = dict(hooks={'call': mono_call, 'setitem': ne_setitem, 'getattr': ne_getattr, 'getitem': mono_getitem},
                   policies={'sc3/synth/_graphparam.py::node_param': ne_node_param}, native=False)
contract(F, '_MonoOnEvent.play', props=('C14', 'C17'), params={'self': 'self'},
         ensures=[('one-s_new-bundle-at-latency-for-the-PREPARED-node-id;marked-playing', mono_on_post)],
         fields={'_MonoOnEvent': {}}, class_modules={'_MonoOnEvent': F}, **MONO_COMMON)


def prepare_post(c):
    t = c.trace
    sets = sets_of(c)
    ids = [e for e in t if e[0] == 'next-id']
    calls = {e[0]: i for i, e in enumerate(t) if e[0] in ('detuned', 'msg-params')}
    ok = (len(ids) == 1 and 'freq' in sets and 'msg-params' in calls and 'detuned' in calls
          and sets['freq'][0] < calls['msg-params']                                # detuned frequency first
          and sets.get('instrument', (0, NONE))[1] is c._params['instrument']
          and sets.get('node_id', (0, NONE))[1] is ids[0][1]                       # ONE fresh id, kept
          and sets.get('server', (0, NONE))[1].k == 'obj' and sets['server'][1].oid == 'server'
          and sets.get('msg_params', (0, NONE))[1].k == 'list'
          and sets.get('has_gate', (0, NONE))[1].k == 'bool' and z3.eq(sets['has_gate'][1].z, HAS_GATE))   # for the release later
    return z3.BoolVal(bool(ok))


contract(F, '_MonoOnEvent._prepare_event', props=('C14', 'C17'), params={'self': 'self', 'instrument': 'obj'},
         ensures=[('instrument,detuned-frequency-before-the-parameters,one-fresh-node-id-from-the-resolved-server', prepare_post)],
         fields={'_MonoOnEvent': {}}, class_modules={'_MonoOnEvent': F}, **MONO_COMMON)


def mono_off_post(c):
    when, msg = bundle_of(c)
    sets = sets_of(c)
    if msg is None or when.k != 'real' or msg.k != 'list' or msg.items is None:
        return z3.BoolVal(False)
    playing = sets.get('is_playing', (0, NONE))[1]
    if playing.k != 'bool':
        return z3.BoolVal(False)
    base = [when.z == z3.Real('server.latency') + RES('delay'), z3.Not(playing.z)]
    idv = msg.items[1] if len(msg.items) > 1 else None
    if idv is None or idv.k != 'obj' or idv.oid != 'stored.node_id':
        return z3.BoolVal(False)
    if len(msg.items) == 4:
        ok = (msg.items[0].k == 'str' and msg.items[0].py == '/n_set' and msg.items[2].k == 'str' and msg.items[2].py == 'gate'
              and msg.items[3].k == 'obj' and msg.items[3].oid == 'res.gate')
        return z3.And(z3.BoolVal(bool(ok)), HAS_GATE, *base)
    if len(msg.items) == 2:
        ok = msg.items[0].k == 'str' and msg.items[0].py == '/n_free'
        return z3.And(z3.BoolVal(bool(ok)), z3.Not(HAS_GATE), *base)
    return z3.BoolVal(False)


contract(F, '_MonoOffEvent.play', props=('C14', 'C17'), params={'self': 'self'},
         ensures=[('gate-off-or-free-for-the-same-node,at-latency+delay;marked-not-playing', mono_off_post)],
         fields={'_MonoOffEvent': {}}, class_modules={'_MonoOffEvent': F}, **MONO_COMMON)


# _update_msg_params: (name, resolved value) per mono parameter, in order
def ump_new_list(eng, items, st):
    if items == [] and not [e for e in st.trace if e[0] == 'params-list-made']:
        st.trace.append(('params-list-made',))
        return V('ref', cls='ParamList', oid='the-params-list')
    return None


def ump_getattr(eng, obj, name, st, node):
    if obj.k == 'ref' and obj.cls == 'ParamList' and name == 'extend':
        def ext(eng, a, kw, st, node):
            st.trace.append(('extend', a[0]))
            return [(st, NONE)]
        return [(st, V('func', py=('spec', ext)))]
    return ne_getattr(eng, obj, name, st, node)


def ump_pass(c, L):
    if L.phase != 'after':
        return z3.BoolVal(True)
    idx = max([i for i, e in enumerate(c.trace) if e[0] == 'loop-head'] or [-1])
    ev = [e for e in c.trace[idx + 1:] if e[0] in ('extend', 'resolve-param', 'set')]
    if [e[0] for e in ev] != ['resolve-param', 'extend']:
        return z3.BoolVal(False)
    rp, ex = ev
    k = L.i - 1
    ok = (ex[1].k == 'list' and ex[1].items is not None and len(ex[1].items) == 2 and ex[1].items[0].k == 'any'
          and ex[1].items[1] is rp[2] and rp[1].k == 'any')
    if not ok:
        return z3.BoolVal(False)
    return z3.And(ex[1].items[0].z == MONO(k), rp[1].z == MONO(k))           # (name k, the event's value for name k)


def ump_over(c, sq, k, elem):
    return sq.extra['len'] == z3.Int('mono_params.len'), (elem.z == MONO(k) if elem.k == 'any' else z3.BoolVal(False))


def ump_post(c):
    sets = sets_of(c)
    r = c.resultv
    ok = r.k == 'ref' and r.oid == 'the-params-list' and sets.get('msg_params', (0, NONE))[1] is r
    return z3.BoolVal(bool(ok))


contract(F, '_MonoSetEvent._update_msg_params', props=('C14', 'C17'), params={'self': 'self'},
         ensures=[('the-list-is-stored-as-msg_params-and-returned', ump_post)],
         loops={0: Loop(inv=ump_pass, over=ump_over, kinds={'arg': 'any'})},
         fields={'_MonoSetEvent': {}, 'ParamList': {}}, class_modules={'_MonoSetEvent': F, 'ParamList': F},
         **dict(MONO_COMMON, hooks=dict(MONO_COMMON['hooks'], getattr=ump_getattr, new_list=ump_new_list)))


def mono_set_post(c):
    when, msg = bundle_of(c)
    sets = sets_of(c)
    ups = [i for i, e in enumerate(c.trace) if e[0] == 'update-params']
    if msg is None or when.k != 'real' or len(ups) != 1 or 'freq' not in sets:
        return z3.BoolVal(False)
    ok = (sets['freq'][0] < ups[0]                                               # detuned frequency before the values are resolved
          and msg.k == 'list' and msg.items is not None and len(msg.items) == 3
          and msg.items[0].k == 'str' and msg.items[0].py == '/n_set'
          and msg.items[1].k == 'obj' and msg.items[1].oid == 'stored.node_id'    # the SAME node
          and msg.items[2].k == 'star' and msg.items[2].extra['seq'].k == 'obj'
          and msg.items[2].extra['seq'].oid == 'the-updated-params')
    return z3.And(z3.BoolVal(bool(ok)), when.z == z3.Real('server.latency'))


def update_pol(eng, selfv, args, kwargs, st, node):
    st.trace.append(('update-params',))
    return [(st, V('obj', oid='the-updated-params'))]


contract(F, '_MonoSetEvent.play', props=('C14', 'C17'), params={'self': 'self'},
         ensures=[('one-n_set-bundle-at-latency-for-the-same-node-with-the-updated-parameters', mono_set_post)],
         fields={'_MonoSetEvent': {}}, class_modules={'_MonoSetEvent': F},
         **dict(MONO_COMMON, policies=dict(MONO_COMMON['policies'], **{'_MonoSetEvent._update_msg_params': update_pol}),
                opts={'star_in_display_to_ghost': True}))
