"""Contract for SynthDef._build_controls (C04: "slots are laid out by rate group (initial, trigger, audio, control)
and declaration order inside a group, lagged control-rate parameters carry their lag times, and the signal the
function body receives for a parameter is exactly the control output at that parameter's slots"):
sc3/synth/synthdef.py.

The names entered by _args_to_controls (synth_controls) are taken by rate group; with g a group, cn(g, j) its j-th
name in declaration order, width(g, j) = len(as_list(default of cn(g, j))):

  * prepended (non-control) names: argument slot arg_num(cn) gets the name's default value itself;
  * for EVERY non-empty group, in the order initial - trigger - audio - control, ONE control unit is created, by
    the group's class and constructor (Control.ir / TrigControl.kr / AudioControl.ar / for control rate
    LagControl.kr with the lags iff some lag is non-zero, else Control.kr), from the flattened defaults of exactly
    that group's names in order; an empty group creates nothing;
  * the slot counter is read BEFORE the unit is created (creating it advances the counter: synth_controls), and
    name j of the group gets  index = that value + width(g, 0) + ... + width(g, j-1);
  * the unit's outputs are reshaped like the group's defaults, and name j gets output j: argument slot arg_num(cn)
    and the output's name;
  * control rate: the lags handed over are, name by name, the name's lag - wrapped to the width for array defaults;
  * finally the non-control names leave the list of control names, and the argument list is returned.

Filter comprehensions are the groups (ghost sequences: uninterpreted per group and position); the nested helper is
executed in place with its nonlocal state; flat / as_list / reshape_like / wrap_extend are ghost calls (their own
laws: base_utils, bounded C03/C04), creation of the control units is a ghost call (its contract: synth_controls).
"""
import ast
import z3
from vf.pyvc.spec import contract, Loop
from vf.pyvc.values import *
from vf.pyvc import values as VV
from vf.pyvc.engine import Raised, Unsupported

F = 'sc3/synth/synthdef.py'
U = 'sc3/base/utils.py'
GROUPS = {'noncontrol': 0, 'scalar': 1, 'trigger': 2, 'audio': 3, 'control': 4}
GNAME = {v: k for k, v in GROUPS.items()}
I = z3.IntSort()
NG = z3.Function('group_len', I, I)
DEF = z3.Function('cn_default', I, I, VV.Any)
ARG = z3.Function('cn_arg_num', I, I, I)
LAG = z3.Function('cn_lag', I, I, VV.Any)
WIDTH = z3.Function('cn_width', I, I, I)
WSUM = z3.Function('width_of_names_before', I, I, I)
OUT = z3.Function('reshaped_output', I, I, VV.Any)
NALL = z3.Int('control_names.len')
ANY_LAG = z3.Bool('some_lag_is_nonzero')


def cn_of(v):
    return v.extra.get('cn') if v is not None and v.k == 'any' and v.extra else None


def cn_ref(g, j):
    tag = str(z3.simplify(j)).replace(' ', '')
    return V('ref', cls='ControlName', oid='cn[%s][%s]' % (GNAME[g], tag), extra={'group': g, 'pos': j})


def group_seq(g):
    n = NG(g)
    return V('seq', extra={'len': n, 'facts': [n >= 0], 'group': g, 'get': (lambda eng_, j, st_, _g=g: cn_ref(_g, j))})


def rate_of_filter(e):
    """[x for x in <names> if x.rate ==/!= '<const>'] -> (op, const)"""
    g = e.generators[0]
    if len(g.ifs) != 1 or not isinstance(g.ifs[0], ast.Compare) or len(g.ifs[0].ops) != 1:
        return None
    t = g.ifs[0]
    if not (isinstance(t.left, ast.Attribute) and t.left.attr == 'rate' and isinstance(t.comparators[0], ast.Constant)):
        return None
    return type(t.ops[0]), t.comparators[0].value


def h_listcomp(eng, e, it, st, node):
    if isinstance(e, ast.GeneratorExp) and it.k == 'ref' and it.cls == 'ValueList':
        st.trace.append(('nonzero-test-over', it))
        return [(st, V('obj', oid='lags-nonzero-test'))]
    if it.k == 'obj' and it.oid == 'self._control_names' and e.generators[0].ifs:
        rf = rate_of_filter(e)
        if rf is None:
            return None
        op, const = rf
        if op is ast.Eq and const in GROUPS:
            st.trace.append(('group-taken', const))
            st.pc.append(NG(GROUPS[const]) >= 0)
            return [(st, group_seq(GROUPS[const]))]
        if op is ast.NotEq and const == 'noncontrol':
            return [(st, V('obj', oid='names-without-the-prepended-ones'))]
    return None


def h_len(eng, v, st, node):
    if v.k == 'obj' and v.oid == 'self._control_names':
        st.pc.append(NALL >= 0)
        return [(st, vint(NALL))]
    if v.k == 'obj' and v.extra and 'as_list_of' in v.extra:
        src = v.extra['as_list_of']
        if src.k == 'any' and src.extra and 'cn' in src.extra:
            g, j = src.extra['cn']
            st.pc.append(WIDTH(g, j) >= 1)
            return [(st, vint(WIDTH(g, j)))]
    return None


def h_getattr(eng, obj, name, st, node):
    if obj.k == 'ref' and obj.cls == 'ControlName':
        g, j = obj.extra['group'], obj.extra['pos']
        if name == 'default_value':
            return [(st, V('any', DEF(g, j), extra={'cn': (g, j), 'what': 'default'}))]
        if name == 'arg_num':
            return [(st, vint(ARG(g, j)))]
        if name == 'lag':
            return [(st, V('any', LAG(g, j), extra={'cn': (g, j), 'what': 'lag'}))]
    if obj.k == 'ref' and obj.cls in ('ValueList', 'LagList') and name in ('append', 'extend'):
        def app(eng, a, kw, st, node, _o=obj, _n=name):
            st.trace.append((_o.cls + '.' + _n, _o, a[0]))
            return [(st, NONE)]
        return [(st, V('func', py=('spec', app)))]
    if obj.k == 'module' and name in ('Control', 'TrigControl', 'AudioControl', 'LagControl'):
        return [(st, V('class', py=name))]
    if obj.k == 'class' and obj.py in ('Control', 'TrigControl', 'AudioControl', 'LagControl') and name in ('ir', 'kr', 'ar'):
        return [(st, V('func', py=('spec', creator(obj.py, name))))]
    return None


def creator(cls, method):
    def create(eng, a, kw, st, node):
        before = st.objs.get('self', {}).get('_control_index')
        if before is None:
            before = eng.field_sym('self', 'SynthDef', '_control_index', node)
        n = next(eng.counter)
        st.objs.setdefault('self', {})['_control_index'] = vint(z3.Int('slot_counter_after_unit!%d' % n))
        r = V('obj', oid='unit-outputs!%d' % n)
        st.trace.append(('create', cls, method, tuple(a), before, r, st.ghost.get('hand')))
        return [(st, r)]
    return create


def h_builtin(eng, name, args, kwargs, st, node):
    if name == 'getattr' and len(args) == 2 and args[0].k == 'class' and args[1].k == 'str' and args[1].py is not None:
        return [(st, V('func', py=('spec', creator(args[0].py, args[1].py))))]
    if name == 'any' and len(args) == 1 and args[0].k == 'obj' and args[0].oid == 'lags-nonzero-test':
        return [(st, vbool(ANY_LAG))]
    return None


def h_new_list(eng, items, st):
    if items == []:
        n = len([e for e in st.trace if e[0] == 'new-list'])
        r = V('ref', cls='ValueList', oid='list!%d' % n)
        st.trace.append(('new-list', n, r))
        return r
    return None


def h_setitem(eng, obj, idx, v, st, node):
    if obj.k == 'seq' and obj.extra.get('arguments') and idx.k == 'int':
        st.trace.append(('arg-set', idx.z, v))
        return [('next', st)]
    return None


def h_setattr(eng, obj, name, v, st, node):
    if obj.k == 'ref' and obj.cls == 'ControlName' and name == 'index':
        st.trace.append(('index-set', obj, v))
        return [('next', st)]
    return None


def h_binop(eng, op, a, b, st, node):
    # [0] * len(names): the argument list
    if isinstance(op, ast.Mult) and a.k == 'list' and a.items is not None and len(a.items) == 1 and b.k == 'int' \
            and z3.eq(b.z, NALL):
        st.trace.append(('arguments-made',))
        return [(st, V('seq', extra={'len': NALL, 'arguments': True,
                                     'get': (lambda eng_, i, st_: V('any', z3.Const('untouched-argument', VV.Any)))}))]
    return None


def flat_pol(eng, selfv, args, kwargs, st, node):
    return [(st, V('obj', oid='flat!%d' % next(eng.counter), extra={'flat_of': args[0]}))]


def as_list_pol(eng, selfv, args, kwargs, st, node):
    return [(st, V('obj', oid='as_list!%d' % next(eng.counter), extra={'as_list_of': args[0]}))]


def take_in_hand(c, g, with_lags):
    """entering a collecting loop: the group it runs over and the list(s) made just before it are 'in hand' -
    what is collected into them is what the per-pass obligations of that loop say"""
    lists = [e[2] for e in c.trace if e[0] == 'new-list']
    need = 2 if with_lags else 1
    if len(lists) < need:
        raise KeyError('no list to collect into')
    used = tuple(c.st.ghost.get('lists_used', ()))
    fresh = not any(l is u for l in lists[-need:] for u in used)      # a list of its own: nothing of another group in it
    c.st.ghost = dict(c.st.ghost)
    # with lags two lists are in hand; which holds the defaults and which the lags is decided by what the code puts
    # into them (the order in which they are made does not matter)
    values, lags = (lists[-need], None)
    if with_lags:
        # what the FIRST pass does names the roles: the list it puts a default into is "the values", the other "the lags"
        values = None
        for tr in Loop.first_pass(c._eng, c.st):
            for e in tr:
                if e[0] == 'ValueList.append' and cn_of(e[2]) is not None and e[2].extra['what'] == 'default' \
                        and any(e[1] is l for l in lists[-2:]):
                    values = e[1]
                    break
            if values is not None:
                break
        if values is None:
            raise KeyError('no list of the two receives a default in the first pass')
        lags = [l for l in lists[-2:] if l is not values][0]
    c.st.ghost['hand'] = {'group': g, 'values': values, 'lags': lags, 'pair': tuple(lists[-2:]) if with_lags else None}
    c.st.ghost['lists_used'] = used + tuple(lists[-need:])
    return fresh


def reshape_pol(eng, selfv, args, kwargs, st, node):
    like = args[1]
    hand = st.ghost.get('hand')
    st.trace.append(('reshape', args[0], like, hand))
    g = hand['group'] if hand is not None and like is hand['values'] else None
    if g is None:
        return [(st, V('obj', oid='reshaped-unknown'))]
    return [(st, V('seq', extra={'len': NG(g), 'reshaped_group': g,
                                 'get': (lambda eng_, j, st_, _g=g: V('any', OUT(_g, j), extra={'out': (_g, j)}))}))]


def wrap_extend_pol(eng, selfv, args, kwargs, st, node):
    return [(st, V('obj', oid='wrapped!%d' % next(eng.counter), extra={'wrap_of': args[0], 'to': args[1]}))]


def set_names_pol(eng, selfv, args, kwargs, st, node):
    st.trace.append(('names-set', args[0], args[1]))
    return [(st, NONE)]


def since(trace, ordinal):
    idx = -1
    for i, e in enumerate(trace):
        if e[0] == 'loop-head' and e[1] == ordinal:
            idx = i
    return trace[idx + 1:] if idx >= 0 else []


# ---- loop 0: the prepended names ----------------------------------------------------------------------------------
def nn_pass(c, L):
    if L.phase != 'after':
        return z3.BoolVal(True)
    ev = [e for e in since(c.trace, 0) if e[0] in ('arg-set', 'index-set', 'names-set', 'create')]
    j = L.i - 1
    if len(ev) != 1 or ev[0][0] != 'arg-set' or ev[0][2].k != 'any':
        return z3.BoolVal(False)
    return z3.And(ev[0][1] == ARG(0, j), ev[0][2].z == DEF(0, j))


def whole_group(g):
    def over(c, sq, k, elem):
        fresh = take_in_hand(c, g, True) if g == 4 else True
        return z3.And(z3.BoolVal(fresh), sq.extra['len'] == NG(g)), z3.BoolVal(elem.k == 'ref' and elem.cls == 'ControlName'
                                                     and elem.extra['group'] == g and z3.eq(z3.simplify(elem.extra['pos']), z3.simplify(k)))
    return over


def the_group(c, sq, k, elem):
    """loops of the helper run over the group they were given, entirely and in order"""
    g = sq.extra.get('group')
    if g is None:
        return z3.BoolVal(False), z3.BoolVal(False)
    fresh = take_in_hand(c, g, False)
    return z3.And(z3.BoolVal(fresh), sq.extra['len'] == NG(g)), z3.BoolVal(elem.k == 'ref' and elem.cls == 'ControlName' and elem.extra['group'] == g
                                                 and z3.eq(z3.simplify(elem.extra['pos']), z3.simplify(k)))


def the_group_enumerated(c, sq, k, elem):
    ok = elem.k == 'tuple' and len(elem.items) == 2 and elem.items[0].k == 'int' and elem.items[1].k == 'ref' \
        and elem.items[1].cls == 'ControlName'
    if not ok:
        return z3.BoolVal(False), z3.BoolVal(False)
    g = elem.items[1].extra['group']
    return sq.extra['len'] == NG(g), z3.And(elem.items[0].z == k, elem.items[1].extra['pos'] == k)


# ---- collecting the defaults (and lags) of a group ---------------------------------------------------------------
def collect_pass(ordinal, with_lags):
    def inv(c, L):
        if L.phase != 'after':
            return z3.BoolVal(True)
        ev = [e for e in since(c.trace, ordinal) if e[0] in ('ValueList.append', 'ValueList.extend', 'arg-set', 'create')]
        j = L.i - 1
        hand = c.st.ghost.get('hand')
        vals = [e for e in ev if e[0] == 'ValueList.append' and cn_of(e[2]) is not None and e[2].extra['what'] == 'default']
        if len(vals) != 1 or hand is None:
            return z3.BoolVal(False)
        if vals[0][1] is not hand['values']:
            return z3.BoolVal(False)                                       # into the list in hand (with lags: "the values")
        g, pos = vals[0][2].extra['cn']
        if g != hand['group']:
            return z3.BoolVal(False)
        cl = [pos == j]                                                    # the default of name j, once
        rest = [e for e in ev if e is not vals[0]]
        if not with_lags:
            return z3.And(z3.BoolVal(not rest), *cl)
        if len(rest) != 1 or rest[0][1] is not hand['lags']:
            return z3.BoolVal(False)                                       # ... and one entry into the OTHER one: "the lags"
        le = rest[0]
        wide = WIDTH(g, j) > 1
        if le[0] == 'ValueList.append':
            lg = le[2]
            ok = cn_of(lg) is not None and lg.extra['what'] == 'lag'
            return z3.And(z3.BoolVal(bool(ok)), z3.Not(wide), lg.extra['cn'][1] == j if ok else z3.BoolVal(False), *cl)
        if le[0] == 'ValueList.extend':
            w = le[2]
            ok = w.k == 'obj' and w.extra and 'wrap_of' in w.extra
            if not ok:
                return z3.BoolVal(False)
            src, to = w.extra['wrap_of'], w.extra['to']
            inner = src.extra.get('as_list_of') if src.k == 'obj' and src.extra else None
            ok = inner is not None and cn_of(inner) is not None and inner.extra['what'] == 'lag' and to.k == 'int'
            if not ok:
                return z3.BoolVal(False)
            return z3.And(wide, inner.extra['cn'][1] == j, to.z == WIDTH(g, j), *cl)   # the name's lag, wrapped to its width
        return z3.BoolVal(False)
    return inv


# ---- handing out indices, argument slots and names ------------------------------------------------------------------
def wsum_step(ordinal):
    def hook(eng, st):
        k = st.env['__i%d' % ordinal].z
        for g in (1, 2, 3, 4):
            st.pc.append(z3.And(WSUM(g, 0) == 0, WSUM(g, k + 1) == WSUM(g, k) + WIDTH(g, k), WIDTH(g, k) >= 1))
    return hook


def assign_pass(ordinal):
    def inv(c, L):
        creates = [e for e in c.trace if e[0] == 'create']
        if not creates:
            return z3.BoolVal(False)
        base = creates[-1][4]                                              # slot counter BEFORE this group's unit was made
        resh = [e for e in c.trace if e[0] == 'reshape']
        if not resh:
            return z3.BoolVal(False)
        like, hand = resh[-1][2], resh[-1][3]
        g = hand['group'] if hand is not None and like is hand['values'] else None      # reshaped like THIS group's defaults
        if g is None or base.k != 'int' or creates[-1][6] is not hand or resh[-1][1].k != 'obj' \
                or not (resh[-1][1].extra or {}).get('as_list_of') is creates[-1][5]:   # ... the outputs of THIS group's unit
            return z3.BoolVal(False)
        if False:
            return z3.BoolVal(False)
        # running index: counter before the unit + widths of the names before this one
        if not z3.is_expr(L.index):
            return z3.BoolVal(False)                                       # the running index is a number (the slot counter was read)
        state = L.index == base.z + WSUM(g, L.i)
        if L.phase != 'after':
            return state
        ev = [e for e in since(c.trace, ordinal) if e[0] in ('index-set', 'arg-set', 'names-set', 'create')]
        j = L.i - 1
        if [e[0] for e in ev] != ['index-set', 'arg-set', 'names-set']:
            return z3.BoolVal(False)
        ix, ar, nm = ev
        cn = ix[1]
        def out_of(v):
            return v.extra.get('out') if v.k == 'any' and v.extra else None
        ok = (cn.extra['group'] == g and ix[2].k == 'int' and out_of(ar[2]) is not None and out_of(nm[1]) is not None
              and nm[2].k == 'ref' and nm[2].oid == cn.oid)
        if not ok:
            return z3.BoolVal(False)
        og, oj = out_of(ar[2])
        ng_, nj = out_of(nm[1])
        return z3.And(state, cn.extra['pos'] == j, ix[2].z == base.z + WSUM(g, j),       # first slot of name j
                      ar[1] == ARG(g, j), z3.BoolVal(og == g and ng_ == g), oj == j, nj == j)   # output j of THIS group's unit
    return inv


def remember_group(eng, st):
    pass


# ---- the whole function ---------------------------------------------------------------------------------------
EXPECT = [(1, 'Control', 'ir'), (2, 'TrigControl', 'kr'), (3, 'AudioControl', 'ar')]


def post(c):
    t = c.trace
    taken = [e[1] for e in t if e[0] == 'group-taken']
    creates = [e for e in t if e[0] == 'create']
    cl = [z3.BoolVal(sorted(taken) == sorted(GROUPS))]                    # every group taken from the names, once
    # which units were made, in which order: per path the list is concrete; its elements must be exactly the
    # non-empty groups in the order initial, trigger, audio, control
    want = []
    k = 0
    conds = []
    for g, cls, meth in EXPECT + [(4, None, 'kr')]:
        mine = None
        if k < len(creates):
            e = creates[k]
            a = e[3]
            src = a[0].extra.get('flat_of') if a and a[0].k == 'obj' and a[0].extra else None
            hand = e[6]
            # the list flattened is the list the group's defaults were collected into
            grp = hand['group'] if hand is not None and src is hand['values'] else None
            if grp == g:
                mine = e
        if mine is None:
            conds.append(NG(g) == 0)                                      # nothing made for this group: it is empty
            continue
        k += 1
        conds.append(NG(g) > 0)
        if g < 4:
            conds.append(z3.BoolVal(mine[1] == cls and mine[2] == meth and len(mine[3]) == 1))
        else:
            lagged = mine[1] == 'LagControl' and mine[2] == 'kr' and len(mine[3]) == 2 and mine[3][1].k == 'ref'
            plain = mine[1] == 'Control' and mine[2] == 'kr' and len(mine[3]) == 1
            conds.append(z3.If(ANY_LAG, z3.BoolVal(bool(lagged)), z3.BoolVal(bool(plain))))
            tests = [x for x in t if x[0] == 'nonzero-test-over']
            # "some lag non-zero" is asked of the lags, and a lagged unit gets the lags (not the values)
            conds.append(z3.BoolVal(len(tests) == 1 and tests[0][1] is mine[6]['lags']))
            if lagged:
                conds.append(z3.BoolVal(mine[3][1] is mine[6]['lags']))
    cl.append(z3.BoolVal(k == len(creates)))                              # and no other unit
    names = c.post.self.v('_control_names')
    cl.append(z3.BoolVal(names.k == 'obj' and names.oid == 'names-without-the-prepended-ones'))
    r = c.resultv
    cl.append(z3.BoolVal(r.k == 'seq' and bool(r.extra.get('arguments'))))
    return z3.And(*(cl + conds))


def lists_kind(eng, name):
    return V('obj', oid='havoc')


KINDS = {'cn': lists_kind, 'i': 'int', 'index': 'int', 'valsize': 'int'}
contract(F, 'SynthDef._build_controls', props=('C04',), params={'self': 'self'},
         ensures=[('one-unit-per-non-empty-group-in-rate-order;prepended-names-dropped;arguments-returned', post)],
         loops={0: Loop(inv=nn_pass, over=whole_group(0), kinds={'cn': lists_kind}),
                1: Loop(inv=collect_pass(1, False), over=the_group, kinds={'cn': lists_kind}),
                2: Loop(inv=assign_pass(2), over=the_group_enumerated, kinds=KINDS, havoc_hook=wsum_step(2)),
                3: Loop(inv=collect_pass(3, True), over=whole_group(4), kinds=KINDS),
                4: Loop(inv=assign_pass(4), over=the_group_enumerated, kinds=KINDS, havoc_hook=wsum_step(4))},
         fields={'SynthDef': {'_control_names': 'obj', '_control_index': 'int'}, 'ControlName': {}, 'ValueList': {},
                 'LagList': {}},
         hooks={'listcomp': h_listcomp, 'len': h_len, 'getattr': h_getattr, 'builtin_first': h_builtin,
                'new_list': h_new_list, 'setitem': h_setitem, 'setattr': h_setattr, 'binop': h_binop},
         policies={U + '::flat': flat_pol, U + '::as_list': as_list_pol, U + '::reshape_like': reshape_pol,
                   U + '::wrap_extend': wrap_extend_pol, 'SynthDef._set_control_names': set_names_pol},
         class_modules={'SynthDef': F, 'ControlName': 'sc3/synth/ugens/inout.py', 'ValueList': F, 'LagList': F},
         axioms=[WSUM(g_, 0) == 0 for g_ in (1, 2, 3, 4)],
         native=False,
         note='groups are uninterpreted sequences (lengths, defaults, argument numbers, lags, widths >= 1 per group and '
              'position); that they partition the names entered by _args_to_controls is the filter comprehensions\' '
              'meaning (Python), not proved here')


# ---- SynthDef._build_ugen_graph / _init_build --------------------------------------------------------------------------
# _build_ugen_graph: the control names in force are put aside and an EMPTY list is in force while this function's
# parameters are turned into names (so a wrapped sub-function gets controls of its own and does not see the outer
# ones); the names are made from (func, rates, number of prepended arguments); the graph function is called ONCE with
# the prepended arguments followed by exactly what _build_controls returns; afterwards the names put aside are in
# force again; what the function returns is returned.
def bug_as_list(eng, selfv, args, kwargs, st, node):
    n = z3.Int('prepend.len')
    st.pc.append(n >= 0)
    return [(st, V('seq', extra={'len': n, 'prepended': args[0], 'get': (lambda e_, i, s_: V('any', z3.Function('prepended', z3.IntSort(), VV.Any)(i)))}))]


def bug_a2c(eng, selfv, args, kwargs, st, node):
    names = st.objs.get('self', {}).get('_control_names')
    st.trace.append(('args-to-controls', tuple(args), names))
    return [(st, NONE)]


def bug_build(eng, selfv, args, kwargs, st, node):
    names = st.objs.get('self', {}).get('_control_names')
    st.trace.append(('build-controls', names))
    return [(st, V('seq', extra={'len': z3.Int('arguments.len'), 'built': True,
                                 'get': (lambda e_, i, s_: V('any', z3.Function('argument', z3.IntSort(), VV.Any)(i)))}))]


def bug_call(eng, f, args, kwargs, st, node):
    if f.k == 'obj' and f.oid == 'func':
        r = V('obj', oid='graph-result')
        st.trace.append(('graph-function-called', tuple(args), r))
        return [(st, r)]
    return None


def bug_new_list(eng, items, st):
    if items == []:
        return V('ref', cls='NameList', oid='fresh-empty-names')
    return None


def bug_binop(eng, op, a, b, st, node):
    if isinstance(op, ast.Add) and a.k == 'seq' and b.k == 'seq' and a.extra.get('prepended') is not None and b.extra.get('built'):
        return [(st, V('seq', extra={'len': a.extra['len'] + b.extra['len'], 'prepend_then_built': (a, b),
                                     'get': (lambda e_, i, s_: V('any', z3.Const('argument-of-the-call', VV.Any)))}))]
    return None


def bug_post(c):
    t = c.trace
    a2c = [e for e in t if e[0] == 'args-to-controls']
    bc = [e for e in t if e[0] == 'build-controls']
    calls = [e for e in t if e[0] == 'graph-function-called']
    if len(a2c) != 1 or len(bc) != 1 or len(calls) != 1 or not (t.index(a2c[0]) < t.index(bc[0]) < t.index(calls[0])):
        return z3.BoolVal(False)
    fresh = lambda v: v is not None and v.k == 'ref' and v.oid == 'fresh-empty-names'
    a = a2c[0][1]
    star = calls[0][1][0] if len(calls[0][1]) == 1 else None
    final = c.post.self.v('_control_names')
    ok = (fresh(a2c[0][2]) and fresh(bc[0][1])                                    # an EMPTY list of its own is in force meanwhile
          and len(a) == 3 and a[0] is c._params['func'] and a[1] is c._params['rates'] and a[2].k == 'int'
          and star is not None and star.k == 'star' and star.extra['seq'].extra.get('prepend_then_built') is not None
          and star.extra['seq'].extra['prepend_then_built'][0].extra['prepended'] is c._params['prepend']
          and final.k == 'obj' and final.oid == 'self._control_names'             # the names put aside are back
          and c.resultv is calls[0][2])
    if not ok:
        return z3.BoolVal(False)
    return a[2].z == z3.Int('prepend.len')                                        # as many skipped as are prepended


contract(F, 'SynthDef._build_ugen_graph', props=('C04',), params={'self': 'self', 'func': 'obj', 'rates': 'obj', 'prepend': 'obj'},
         ensures=[('own-empty-name-list-meanwhile;names-from-(func,rates,#prepended);called-once-with-prepended+controls;names-restored',
                   bug_post)],
         modifies=[('self', '_control_names')],
         fields={'SynthDef': {'_control_names': 'obj'}, 'NameList': {}}, class_modules={'SynthDef': F, 'NameList': F},
         hooks={'call': bug_call, 'new_list': bug_new_list, 'binop': bug_binop},
         policies={U + '::as_list': bug_as_list, 'SynthDef._args_to_controls': bug_a2c, 'SynthDef._build_controls': bug_build},
         native=False,
         note='an exception of the graph function leaves the empty list in force (the definition is discarded then: C20)')


# _init_build: a build starts from nothing - no constants, no control defaults, slot counter 0 (the invariant
# "counter == number of defaults" of synth_controls holds from the start)
def ib_builtin(eng, name, args, kwargs, st, node):
    if name in ('dict', 'set') and not args:
        return [(st, V('obj', oid='empty-' + name))]
    return None


def ib_new_list(eng, items, st):
    if items == []:
        return V('ref', cls='NameList', oid='empty-list')
    return None


def ib_post(c):
    me = c.post.self
    ok = (me.v('_constants').k == 'obj' and me.v('_constants').oid == 'empty-dict'
          and me.v('_constant_set').k == 'obj' and me.v('_constant_set').oid == 'empty-set'
          and me.v('_controls').k == 'ref' and me.v('_controls').oid == 'empty-list')
    return z3.And(z3.BoolVal(bool(ok)), me._control_index == 0)


contract(F, 'SynthDef._init_build', props=('C04', 'C20'), params={'self': 'self'},
         ensures=[('no-constants,no-defaults,slot-counter-0', ib_post)],
         fields={'SynthDef': {'_constants': 'obj', '_constant_set': 'obj', '_controls': 'obj', '_control_index': 'int',
                              '_max_local_bufs': 'obj'}, 'NameList': {}},
         class_modules={'SynthDef': F, 'NameList': F}, hooks={'builtin_first': ib_builtin, 'new_list': ib_new_list}, native=False)
