"""Random value patterns whose pass is "draw the bounds, ask the library's random function ONCE" (C13: "every stream made
from one pattern yields the same sequence (under the same random seed)"), sc3/seq/patterns/valuepatterns.py:

  Pwhite    `length` passes; each draws ONE lower and ONE upper bound (with the current input) and yields bi.rrand(lo, hi)
  Pexprand  the same with bi.exprand(lo, hi)

Randomness enters ONLY through that one call per value (the library's seeded generator of the current thread, C10/C13):
no other source of random numbers, no second draw.  A bound stream that ends ends the pattern quietly.
"""
import z3
from vf.pyvc.spec import contract, Loop
from vf.pyvc.values import *
from vf.pyvc.engine import Raised, Unsupported
from .seq_filterpatterns import h_getattr, events, quiet_end, since
from .seq_morefilters import role_stream
from .seq_common import counter_pol, counts

F = 'sc3/seq/patterns/valuepatterns.py'
STREAM = 'sc3/base/stream.py::stream'
BI = 'sc3/base/builtins.py::'


def rnd_pol(name):
    def pol(eng, selfv, args, kwargs, st, node):
        r = V('obj', oid='random!%d' % next(eng.counter))
        st.trace.append(('random', name, tuple(args), r))
        return [(st, r)]
    return pol


def rnd_pass(fn, first, second):
    def inv(c, L):
        ev = events(c, 0)
        if ev is None:
            return z3.BoolVal(True)
        full = since(c.trace, 0)
        draws = [e for e in ev if e[0] == 'draw']
        ys = [e for e in ev if e[0] == 'yield']
        rn = [e for e in full if e[0] == 'random']
        if sorted(e[1].extra.get('role') for e in draws) != sorted([first, second]) or len(ys) != 1 or len(rn) != 1:
            return z3.BoolVal(False)
        by = {e[1].extra['role']: e[2] for e in draws}
        a = rn[0][2]
        ok = rn[0][1] == fn and len(a) == 2 and a[0] is by[first] and a[1] is by[second] and ys[0][1] is rn[0][3]
        return z3.BoolVal(bool(ok))                                            # ONE random call, on exactly these two, yielded as it is
    return inv


def rnd_contract(cls, fn, first, second):
    contract(F, cls + '.__embed__', props=('C13',), params={'self': 'self', 'inval': 'obj'},
             ensures=[('ends-quietly-when-a-bound-stream-ends', quiet_end)],
             fields={cls: {first: 'obj', second: 'obj', 'length': 'obj'}},
             loops={0: Loop(inv=rnd_pass(fn, first, second), over=counts('length'), kinds={'inval': 'obj', '_': 'int', first + 'val': 'any', second + 'val': 'any'})},
             policies=dict({STREAM: role_stream({first: 'any', second: 'any'}), 'counter': counter_pol},
                           **{BI + f_: rnd_pol(f_) for f_ in ('rrand', 'exprand', 'rand', 'rand2', 'linrand', 'bilinrand', 'sum3rand')}),
             class_modules={cls: F}, hooks={'getattr': h_getattr}, opts={'generator_trace': True}, native=False)


rnd_contract('Pwhite', 'rrand', 'lo', 'hi')
rnd_contract('Pexprand', 'exprand', 'lo', 'hi')


# ---- Pbrown: a bounded random walk -----------------------------------------------------------------------------------------------
# start: one value of each parameter stream is drawn and the walk starts at rrand(lo, hi); every pass draws lo, hi and step
# again (one each), moves from the CURRENT position by _calc_next(current, step) (one random call inside), folds the result
# into [lo, hi] and yields it - and that is the new current position.
def calc_pol(eng, selfv, args, kwargs, st, node):
    r = V('obj', oid='moved!%d' % next(eng.counter))
    st.trace.append(('calc-next', tuple(args), r))
    return [(st, r)]


def fold_pol(eng, selfv, args, kwargs, st, node):
    r = V('obj', oid='folded!%d' % next(eng.counter))
    st.trace.append(('fold', tuple(args), r))
    return [(st, r)]


def remember_current(eng, st):
    st.ghost = dict(st.ghost)
    st.ghost['current_at_head'] = st.env.get('current')


def brown_pass(c, L):
    ev = events(c, 0)
    if ev is None:
        return z3.BoolVal(True)
    full = since(c.trace, 0)
    draws = [e for e in ev if e[0] == 'draw']
    ys = [e for e in ev if e[0] == 'yield']
    cn = [e for e in full if e[0] == 'calc-next']
    fo = [e for e in full if e[0] == 'fold']
    if sorted(e[1].extra.get('role') for e in draws) != ['hi', 'lo', 'step'] or len(ys) != 1 or len(cn) != 1 or len(fo) != 1:
        return z3.BoolVal(False)
    by = {e[1].extra['role']: e[2] for e in draws}
    cur0 = c.st.ghost.get('current_at_head')
    cur1 = c.st.env.get('current')
    if cur0 is None or cur1 is None:
        raise KeyError('current')                             # the local this clause is about has another name: undecided
    ok = (len(cn[0][1]) == 2 and cn[0][1][0] is cur0 and cn[0][1][1] is by['step']
          and len(fo[0][1]) == 3 and fo[0][1][0] is cn[0][2] and fo[0][1][1] is by['lo'] and fo[0][1][2] is by['hi']
          and ys[0][1] is fo[0][2] and cur1 is fo[0][2])
    return z3.BoolVal(bool(ok))


def brown_post(c):
    # the walk starts at rrand(lo, hi) of the first values drawn, before the first pass
    t = c.trace
    heads = [i for i, e in enumerate(t) if e[0] == 'loop-head']
    rn = [(i, e) for i, e in enumerate(t) if e[0] == 'random']
    if not heads:
        return z3.BoolVal(True)                               # a parameter stream ended before the walk began
    pre = [e for e in t[:heads[0]] if e[0] == 'draw']
    ok = (len(rn) == 1 and rn[0][0] < heads[0] and rn[0][1][1] == 'rrand' and len(pre) == 3
          and sorted(e[1].extra.get('role') for e in pre) == ['hi', 'lo', 'step'])
    if ok:
        by = {e[1].extra['role']: e[2] for e in pre}
        a = rn[0][1][2]
        ok = len(a) == 2 and a[0] is by['lo'] and a[1] is by['hi']
    return z3.BoolVal(bool(ok))


contract(F, 'Pbrown.__embed__', props=('C13',), params={'self': 'self', 'inval': 'obj'},
         ensures=[('ends-quietly-when-a-parameter-stream-ends', quiet_end), ('starts-at-rrand-of-the-first-bounds', brown_post)],
         fields={'Pbrown': {'lo': 'obj', 'hi': 'obj', 'step': 'obj', 'length': 'obj'}},
         loops={0: Loop(inv=brown_pass, over=counts('length'),
                        kinds={'inval': 'obj', '_': 'int', 'loval': 'any', 'hival': 'any', 'stepval': 'any', 'current': 'obj'},
                        havoc_hook=remember_current)},
         policies=dict({STREAM: role_stream({'lo': 'any', 'hi': 'any', 'step': 'any'}), 'counter': counter_pol,
                        'Pbrown._calc_next': calc_pol, BI + 'fold': fold_pol},
                       **{BI + f_: rnd_pol(f_) for f_ in ('rrand', 'exprand', 'rand', 'rand2', 'xrand2')}),
         class_modules={'Pbrown': F}, hooks={'getattr': h_getattr}, opts={'generator_trace': True}, native=False)


# ---- Ptuple (listpatterns.py): one value of EVERY item per step, as a tuple ------------------------------------------------------------
# every repetition makes one stream per list item (in list order); every step draws ONE value from each of them, in
# order, with the SAME input value, and yields the tuple of exactly those values; when any item ends, the repetition ends
# (nothing is yielded for the incomplete step).
FLP = 'sc3/seq/patterns/listpatterns.py'
from .seq_listpatterns import lst_kind
from .seq_morepatterns import sw1_listcomp


def tp_new_list(eng, items, st):
    if not items:
        r = V('obj', oid='tuple-so-far!%d' % next(eng.counter), extra={'collected': []})
        return r
    return None


def tp_getattr(eng, obj, name, st, node):
    if obj.k == 'obj' and obj.extra is not None and 'collected' in obj.extra and name == 'append':
        def app(eng, a, kw, st, node, _o=obj):
            st.trace.append(('collected', _o, a[0]))
            return [(st, NONE)]
        return [(st, V('func', py=('spec', app)))]
    return h_getattr(eng, obj, name, st, node)


def tp_builtin(eng, name, args, kwargs, st, node):
    if name == 'tuple' and len(args) == 1 and args[0].k == 'obj' and args[0].extra is not None and 'collected' in args[0].extra:
        r = V('obj', oid='the-tuple!%d' % next(eng.counter), extra={'of': args[0]})
        st.trace.append(('tupled', args[0], r))
        return [(st, r)]
    return None


def tuple_inner(c, L):
    """pass k of the collecting loop: ONE value from item stream k, with the step's input value, appended"""
    ev = since(c.trace, 2)
    if not ev or L.phase != 'after':
        return z3.BoolVal(True)
    draws = [e for e in ev if e[0] == 'draw']
    col = [e for e in ev if e[0] == 'collected']
    if len(draws) != 1 or len(col) != 1 or [e for e in ev if e[0] in ('yield', 'tupled')]:
        return z3.BoolVal(False)
    d = draws[0]
    if not (d[1].k == 'obj' and d[1].oid == 'item-stream' and col[0][2] is d[2] and d[3] is c.st.env['inval']):
        return z3.BoolVal(False)
    return d[1].extra['index'] == L.i - 1


def tuple_step(c, L):
    """one step: a FRESH collection, the collecting loop over ALL item streams, then exactly the tuple of it yielded"""
    ev = since(c.trace, 1)
    if not ev or L.phase != 'after':
        return z3.BoolVal(True)
    tu = [e for e in ev if e[0] == 'tupled']
    ys = [e for e in ev if e[0] == 'yield']
    heads = [e for e in ev if e[0] == 'loop-head' and e[1] == 2]
    if len(tu) != 1 or len(ys) != 1 or not heads or ys[0][1] is not tu[0][2]:
        return z3.BoolVal(False)
    cols = [e for e in ev if e[0] == 'collected']
    return z3.BoolVal(all(e[1] is tu[0][1] for e in cols))               # what is tupled is what THIS step collected


def tuple_over(c, seq, k, elem):
    return z3.BoolVal(bool(seq.k == 'seq' and seq.extra.get('item-streams-of') is not None)), z3.BoolVal(True)


contract(FLP, 'Ptuple.__embed__', props=('C13',), params={'self': 'self', 'inval': 'obj'},
         requires=lambda c: c.pre.self.v('lst').extra['len'] >= 1,
         ensures=[('returns-the-threaded-input-value', lambda c: z3.BoolVal(c.resultv is c.st.env['inval']))],
         fields={'Ptuple': {'lst': lst_kind, 'repeats': 'obj'}},
         loops={0: Loop(inv=lambda c, L: z3.BoolVal(True), over=counts('repeats'), kinds={'inval': 'obj', '_': 'int'}),
                1: Loop(inv=tuple_step, kinds={'inval': 'obj'}),
                2: Loop(inv=tuple_inner, over=tuple_over, kinds={'i': 'obj'})},
         policies={'counter': counter_pol}, class_modules={'Ptuple': FLP},
         hooks={'getattr': tp_getattr, 'listcomp': sw1_listcomp, 'new_list': tp_new_list, 'builtin_first': tp_builtin},
         opts={'generator_trace': True}, native=False)
