"""Exhaustive table obligations for envelope shape names (C19)."""
from vf.pyvc.spec import table

# SuperCollider Env help / EnvGen: shape numbers of the server
SHAPES = {'step': 0, 'lin': 1, 'linear': 1, 'exp': 2, 'exponential': 2,
          'sin': 3, 'sine': 3, 'wel': 4, 'welch': 4, 'sqr': 6, 'squared': 6,
          'cub': 7, 'cubed': 7, 'hold': 8}


def _shape_rows(repo):
    import sc3
    sc3.init('nrt')
    from sc3.synth.envelope import Env
    rows = []
    for name, num in SHAPES.items():
        try:
            got = Env._shape_number(name)
        except Exception as e:
            got = repr(e)
        rows.append(('shape_number(%r)' % name, got == num, {'got': got, 'want': num}))
        try:
            cv = Env._curve_value(name)
        except Exception as e:
            cv = repr(e)
        rows.append(('curve_value(%r)' % name, cv == 0, {'got': cv, 'want': 0}))
    for x in (0, -4, 2.5, 8):
        try:
            got = Env._shape_number(x)
        except Exception as e:
            got = repr(e)
        rows.append(('shape_number(%r)' % (x,), got == 5, {'got': got, 'want': 5}))
        try:
            cv = Env._curve_value(x)
        except Exception as e:
            cv = repr(e)
        rows.append(('curve_value(%r)' % (x,), cv == x, {'got': cv, 'want': x}))
    for bad in ('sqrt', 'linn', '', 'Lin'):
        if bad in SHAPES:
            continue
        try:
            Env._shape_number(bad)
            ok = False
            got = 'accepted'
        except ValueError:
            ok, got = True, 'ValueError'
        except Exception as e:
            ok, got = False, repr(e)
        rows.append(('unknown shape %r refused' % bad, ok, {'got': got}))
    rows.append(('mixed list', Env._shape_number(['lin', 3, 'hold']) == [1, 5, 8],
                 {'got': Env._shape_number(['lin', 3, 'hold'])}))
    return rows


table('env-shape-names', props=('C19',), rows=_shape_rows,
      reads=('sc3/synth/envelope.py',))


# ---- client-side evaluation: Env._env_at (lin / step / hold / numeric curve ~ 0) ---------
import z3
from vf.pyvc.spec import contract, Loop
from vf.pyvc.values import *

F = 'sc3/synth/envelope.py'
DATA = z3.Array('env_data', z3.IntSort(), z3.RealSort())
NSTAGES = z3.Int('env_num_stages')
SHAPE = z3.Function('env_shape', z3.IntSort(), z3.IntSort())       # shape number stored at index i


def data_kind(eng, name):
    """one channel of _envgen_format(): (level0, n, rel, loop, [level, dur, shape, curve] * n)"""
    def get(eng_, i, st_):
        si = z3.simplify(i)
        if z3.is_int_value(si) and si.as_long() == 1:
            return vint(NSTAGES)
        # shape numbers live at 6, 10, 14, ...: integers
        return V('real', DATA[i], ival=None, extra={'index': i})
    return V('seq', extra={'len': 4 + 4 * NSTAGES, 'get': get})


def h_compare(eng, op, a, b, st, node):
    import ast
    # shape == <number>: shapes are the integers stored in the data
    for p, q in ((a, b), (b, a)):
        if p.k == 'real' and p.extra and 'index' in p.extra and q.k == 'int' \
                and isinstance(op, (ast.Eq, ast.NotEq)):
            r = SHAPE(p.extra['index']) == q.z
            return z3.Not(r) if isinstance(op, ast.NotEq) else r
    return None


def seg(c):
    """(start level, target level, begin, end) of the segment the result comes from"""
    e = c.st.env
    return (to_real(e['start_level']), to_real(e['target_level']),
            to_real(e['begin_time']), to_real(e['end_time']))


def at_post(c):
    e = c.st.env
    r = c.result
    sl, tl, bt, et = seg(c) if 'target_level' in e else (to_real(e['start_level']),) * 2 + (z3.RealVal(0),) * 2
    inside = c.time < et
    after = z3.Implies(z3.Not(inside), r == to_real(e['start_level']))   # holds the last level
    if 'i' not in e:
        return after
    lo = z3.If(sl <= tl, sl, tl)
    hi = z3.If(sl <= tl, tl, sl)
    sh = SHAPE(e['i'].z + 2)
    between = z3.And(lo <= r, r <= hi)
    return z3.And(after, z3.Implies(inside, z3.And(
        z3.Implies(z3.Or(sh == 1, sh == 0, sh == 8), between),            # lin, step, hold
        z3.Implies(sh == 0, r == tl),                                      # step jumps immediately
        z3.Implies(sh == 8, r == sl),                                      # hold keeps the previous level
        z3.Implies(z3.And(sh == 1, c.time == bt), r == sl))))              # at the breakpoint: its level


def at_inv(c, L):
    # begin_time is the end of the previous segment, never after `time`;
    # start_level is the level reached there
    return z3.And(L.begin_time == L.end_time, L.begin_time <= c.time,
                  L.i >= 0)


contract(F, 'Env._env_at', props=('C19',),
         params={'self': 'self', 'data': data_kind, 'time': 'real'},
         requires=lambda c: z3.And(NSTAGES >= 1, c.time >= 0,
                                   z3.ForAll([z3.Int('k')], z3.Implies(
                                       z3.And(z3.Int('k') >= 0, z3.Int('k') < NSTAGES),
                                       DATA[5 + 4 * z3.Int('k')] > 0))),      # positive durations
         raises={'ValueError': None, 'ZeroDivisionError': None},   # exp(curve) == 1 is possible for the uninterpreted exp
         ensures=[('breakpoints-betweenness-and-hold-after-the-end', at_post)],
         loops={0: Loop(inv=at_inv, kinds={
             'target_level': 'real', 'target_dur': 'real', 'end_time': 'real',
             'begin_time': 'real', 'start_level': 'real', 'shape': 'real', 'pos': 'real',
             'curve': 'real'})},
         fields={'Env': {}},
         hooks={'compare': h_compare}, class_modules={'Env': F}, native=False,
         inline=('pow', 'cos', 'sin', 'exp', 'sqrt'),
         note='transcendental shapes (exp, sin, wel, sqr, cub, curve != 0) are bounded only')
