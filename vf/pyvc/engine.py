"""pyvc engine: path-wise symbolic execution of the *real* Python source
(read from the repository working tree at check time) into verification
conditions for z3.

Not a model of the code: every statement on a path is either executed with the
semantics stated in DESIGN §3.3 or the function is reported `out-of-subset`
(raise Unsupported) and nothing about it is counted as proved.
"""
import ast
import os
import itertools
from fractions import Fraction

import z3

from .values import *
from . import values as VV


class Unsupported(Exception):
    def __init__(self, node, why):
        self.node = node
        self.why = why
        line = getattr(node, 'lineno', '?')
        super().__init__('line %s: %s' % (line, why))


class Raised:
    """Result of an expression that raised."""
    __slots__ = ('exc',)

    def __init__(self, exc):
        self.exc = exc


# python exception hierarchy (built-ins used by sc3); user classes are read
# from the module ASTs
EXC_BASES = {
    'BaseException': None, 'Exception': 'BaseException',
    'ArithmeticError': 'Exception', 'ZeroDivisionError': 'ArithmeticError',
    'OverflowError': 'ArithmeticError',
    'LookupError': 'Exception', 'KeyError': 'LookupError',
    'IndexError': 'LookupError', 'ValueError': 'Exception',
    'UnicodeError': 'ValueError', 'UnicodeEncodeError': 'UnicodeError',
    'UnicodeDecodeError': 'UnicodeError',
    'TypeError': 'Exception', 'AttributeError': 'Exception',
    'RuntimeError': 'Exception', 'NotImplementedError': 'RuntimeError',
    'StopIteration': 'Exception', 'AssertionError': 'Exception',
    'OSError': 'Exception', 'struct.error': 'Exception',
    'KeyboardInterrupt': 'BaseException', 'GeneratorExit': 'BaseException',
    'NameError': 'Exception', 'UnboundLocalError': 'NameError',
}


class Module:
    """Parsed repository module (re-read from disk on every run)."""
    cache = {}

    def __init__(self, repo, relpath):
        self.repo = repo
        self.relpath = relpath
        if relpath.startswith('@lemmas/'):
            # ghost lemma functions live in /verif; the bodies they call are
            # read from the repository
            path = os.path.join(os.path.dirname(os.path.dirname(os.path.abspath(__file__))),
                                'contracts', 'lemmas', relpath[len('@lemmas/'):])
        else:
            path = os.path.join(repo, relpath)
        with open(path) as f:
            self.src = f.read()
        self.tree = ast.parse(self.src)
        self.funcs = {}
        self.classes = {}
        self.assigns = {}
        self.imports = {}     # alias -> ('module', relpath) | ('name', relpath, name) | ('ext', dotted)
        for n in self.tree.body:
            self._index(n)

    def _index(self, n):
        if isinstance(n, (ast.FunctionDef,)):
            self.funcs[n.name] = n
        elif isinstance(n, ast.ClassDef):
            self.classes[n.name] = n
        elif isinstance(n, ast.Assign) and len(n.targets) == 1 and \
                isinstance(n.targets[0], ast.Name):
            self.assigns[n.targets[0].id] = n.value
        elif isinstance(n, ast.Import):
            for a in n.names:
                self.imports[a.asname or a.name.split('.')[0]] = ('ext', a.name)
        elif isinstance(n, ast.ImportFrom):
            base = self._resolve_pkg(n.level, n.module)
            for a in n.names:
                alias = a.asname or a.name
                if base is None:
                    self.imports[alias] = ('ext', '%s.%s' % (n.module, a.name))
                    continue
                cand = os.path.join(base, a.name + '.py')
                if os.path.exists(os.path.join(self.repo, cand)):
                    self.imports[alias] = ('module', cand)
                else:
                    pkg = os.path.join(base, a.name, '__init__.py')
                    if os.path.exists(os.path.join(self.repo, pkg)):
                        self.imports[alias] = ('module', pkg)
                    elif os.path.exists(os.path.join(self.repo, base + '.py')):
                        self.imports[alias] = ('name', base + '.py', a.name)
                    else:
                        self.imports[alias] = ('ext', '%s.%s' % (n.module, a.name))
        elif isinstance(n, (ast.If, ast.Try)):
            for b in getattr(n, 'body', []):
                self._index(b)

    def _resolve_pkg(self, level, module):
        if level == 0:
            if module and module.split('.')[0] == 'sc3':
                return module.replace('.', '/')
            return None
        d = os.path.dirname(self.relpath)
        for _ in range(level - 1):
            d = os.path.dirname(d)
        if module:
            d = os.path.join(d, module.replace('.', '/'))
        return d

    @classmethod
    def get(cls, repo, relpath):
        key = (repo, relpath)
        if key not in cls.cache:
            cls.cache[key] = Module(repo, relpath)
        return cls.cache[key]

    def find(self, qual):
        """qual: 'func' | 'Class.method' | 'Class.Inner.method' |
        'func.<nested>' (nested FunctionDef inside a function)."""
        parts = qual.split('.')
        node = None
        body = self.tree.body
        clsname = None
        for i, p in enumerate(parts):
            found = None
            want_setter = p.endswith('@setter')
            p = p[:-7] if want_setter else p
            for n in self._walk_defs(body):
                if isinstance(n, (ast.FunctionDef, ast.ClassDef)) and n.name == p:
                    if isinstance(n, ast.FunctionDef):
                        is_setter = any(isinstance(d, ast.Attribute) and d.attr == 'setter'
                                        for d in n.decorator_list)
                        if is_setter != want_setter:
                            continue
                    found = n
                    break
            if found is None:
                raise KeyError('%s not found in %s' % (qual, self.relpath))
            node = found
            if isinstance(found, ast.ClassDef):
                clsname = found.name
            body = found.body
        return node, clsname

    @staticmethod
    def _walk_defs(body):
        for n in body:
            if isinstance(n, (ast.FunctionDef, ast.ClassDef)):
                yield n
            elif isinstance(n, (ast.If, ast.Try, ast.With)):
                for m in Module._walk_defs(n.body):
                    yield m
                for m in Module._walk_defs(getattr(n, 'orelse', [])):
                    yield m

    def class_method(self, clsname, name, _seen=None):
        """Look a method up through the class and its bases (same module or
        imported sc3 modules)."""
        c = self.classes.get(clsname)
        if c is None:
            return None
        want_setter = name.endswith('@setter')
        nm = name[:-7] if want_setter else name
        for n in c.body:
            if isinstance(n, ast.FunctionDef) and n.name == nm:
                is_setter = any(isinstance(d, ast.Attribute) and d.attr in ('setter', 'deleter')
                                for d in n.decorator_list)
                if is_setter != want_setter:
                    continue
                return self, c, n
        for b in c.bases:
            bm, bn = self.resolve_class(b)
            if bm is not None:
                r = bm.class_method(bn, name)
                if r:
                    return r
        return None

    def class_attr(self, clsname, name):
        c = self.classes.get(clsname)
        if c is None:
            return None
        for n in c.body:
            if isinstance(n, ast.Assign) and len(n.targets) == 1 and \
                    isinstance(n.targets[0], ast.Name) and n.targets[0].id == name:
                return self, n.value
        for b in c.bases:
            bm, bn = self.resolve_class(b)
            if bm is not None:
                r = bm.class_attr(bn, name)
                if r:
                    return r
        return None

    def resolve_class(self, expr):
        if isinstance(expr, ast.Name):
            if expr.id in self.classes:
                return self, expr.id
            imp = self.imports.get(expr.id)
            if imp and imp[0] == 'name':
                m = Module.get(self.repo, imp[1])
                if imp[2] in m.classes:
                    return m, imp[2]
        elif isinstance(expr, ast.Attribute) and isinstance(expr.value, ast.Name):
            imp = self.imports.get(expr.value.id)
            if imp and imp[0] == 'module':
                m = Module.get(self.repo, imp[1])
                if expr.attr in m.classes:
                    return m, expr.attr
        return None, None

    def exc_base(self, name):
        """base class name of exception class `name` (user or builtin)."""
        if name in EXC_BASES:
            return EXC_BASES[name]
        c = self.classes.get(name)
        if c is not None and c.bases:
            b = c.bases[0]
            if isinstance(b, ast.Name):
                return b.id
            if isinstance(b, ast.Attribute):
                return b.attr
        for alias, imp in self.imports.items():
            if imp[0] == 'name' and imp[2] == name:
                return Module.get(self.repo, imp[1]).exc_base(name)
        return None


class St:
    """Path state."""
    __slots__ = ('env', 'pc', 'objs', 'trace', 'ghost')

    def __init__(self):
        self.env = {}
        self.pc = []
        self.objs = {}
        self.trace = []
        self.ghost = {}

    def fork(self):
        n = St()
        n.env = dict(self.env)
        n.pc = list(self.pc)
        n.objs = {k: dict(v) for k, v in self.objs.items()}
        n.trace = list(self.trace)
        n.ghost = dict(self.ghost)
        return n

    def assume(self, b):
        if isinstance(b, bool):
            if not b:
                self.pc.append(z3.BoolVal(False))
            return self
        self.pc.append(b)
        return self


class Obligation:
    def __init__(self, name, kind, pc, goal, line=None, hints=None, info=None):
        self.name = name
        self.kind = kind
        self.pc = list(pc)
        self.goal = goal
        self.line = line
        self.hints = hints or []
        self.info = info or {}


def _has_quantifier(t, depth=0):
    if z3.is_quantifier(t):
        return True
    if depth > 50 or not z3.is_app(t):
        return False
    return any(_has_quantifier(ch, depth + 1) for ch in t.children())


class Engine:
    def __init__(self, repo, contract, registry, case=None, opts=None):
        self.repo = repo
        self.contract = contract
        self.registry = registry       # qualified name -> contract (callees)
        self.case = case or {}
        self.opts = opts or {}
        self.mod = Module.get(repo, contract.file)
        self.obls = []
        self.axioms = list(contract.axioms_z3())
        self.counter = itertools.count()
        self.inlined = set()
        self.opaque_calls = set()
        self.assumed_contracts = set()
        self.n_paths = 0
        self.feas_timeout = self.opts.get('feas_timeout_ms', 1500)
        self.max_paths = self.opts.get('max_paths', 4000)
        self.inline_depth = 0
        self.frame_ids = [0]          # one id per active function body (closures remember where they were made)
        self.frame_counter = 0
        self.cur_mod = self.mod
        self.cur_cls = None
        self.floor_terms = []          # witness candidates for ExistsInt
        self.local_stack = []

    # ------------------------------------------------------------------
    def fresh(self, prefix, sort):
        return z3.Const('%s!%d' % (prefix, next(self.counter)), sort)

    def fresh_val(self, kind, prefix='v'):
        if kind == 'int':
            return vint(self.fresh(prefix, z3.IntSort()))
        if kind == 'real':
            return vreal(self.fresh(prefix, z3.RealSort()))
        if kind == 'bool':
            return vbool(self.fresh(prefix, z3.BoolSort()))
        if kind == 'any':
            return V('any', self.fresh(prefix, VV.Any))
        if kind == 'none':
            return NONE
        if kind == 'obj':
            return V('obj', oid='%s!%d' % (prefix, next(self.counter)))
        raise ValueError(kind)

    def feasible(self, st, cond=None):
        # feasibility only prunes paths: unknown/timeout keeps the path
        s = z3.Solver()
        quant = any(_has_quantifier(p) for p in st.pc)
        s.set('timeout', 700 if quant else self.feas_timeout)
        for a in self.axioms:
            s.add(a)
        for p in st.pc:
            s.add(p)
        if cond is not None:
            s.add(cond)
        r = s.check()
        return r != z3.unsat

    def oblige(self, st, name, kind, goal, node=None, hints=None, info=None):
        if isinstance(goal, bool):
            goal = z3.BoolVal(goal)
        name = name + getattr(self, 'name_suffix', '')
        self.obls.append(Obligation(name, kind, st.pc, goal,
                                    getattr(node, 'lineno', None), hints, info))

    # ------------------------------------------------------------------
    # truthiness
    def truth(self, v, node=None, st=None):
        if isinstance(v, Raised):
            raise Unsupported(node, 'truth of raised')
        h = self.contract.hooks.get('truth') if st is not None else None
        if h:
            r = h(self, v, st, node)             # a ghost container: its emptiness is the contract's (an event in the trace)
            if r is not None:
                return r
        k = v.k
        if k == 'bool':
            return v.z
        if k == 'int':
            return v.z != 0
        if k == 'real':
            return v.z != 0
        if k == 'none':
            return z3.BoolVal(False)
        if k == 'str':
            if v.py is not None:
                return z3.BoolVal(bool(v.py))
            if v.extra and 'chars' in v.extra:
                return v.extra['chars'] > 0
            return z3.Length(v.z) > 0
        if k == 'bytes':
            return self.bytes_len(v) > 0
        if k == 'str' and v.py is None and v.extra and 'chars' in v.extra:
            return v.extra['chars'] > 0
        if k in ('tuple', 'list'):
            if v.items is not None:
                return z3.BoolVal(len(v.items) > 0)
        if k == 'seq':
            return v.extra['len'] > 0
        if k == 'dyn':
            return VV.any_len(v.z) > 0
        if k in ('ref', 'func', 'class', 'obj', 'module'):
            if k == 'ref' and v.extra and 'truth' in v.extra:
                return v.extra['truth']
            return z3.BoolVal(True)
        if k == 'any':
            # dynamic: bool(x) depends on the tag
            t = VV.tag_of(v.z)
            return z3.If(t == TAGS['none'], z3.BoolVal(False),
                   z3.If(t == TAGS['int'], VV.any_int(v.z) != 0,
                   z3.If(t == TAGS['float'], VV.any_real(v.z) != 0,
                   z3.If(t == TAGS['bool'], VV.any_bool(v.z),
                   z3.If(z3.Or(t == TAGS['str'], t == TAGS['bytes'],
                               t == TAGS['list'], t == TAGS['tuple']),
                         VV.any_len(v.z) > 0, z3.BoolVal(True))))))
        raise Unsupported(node, 'truthiness of %r' % (v,))

    def branch(self, st, cond, node=None):
        """Fork on a z3 Bool; returns list of (st, bool) feasible sides."""
        cond = z3.simplify(cond) if not isinstance(cond, bool) else z3.BoolVal(cond)
        if z3.is_true(cond):
            return [(st, True)]
        if z3.is_false(cond):
            return [(st, False)]
        out = []
        if self.feasible(st, cond):
            a = st.fork()
            a.pc.append(cond)
            out.append((a, True))
        ncond = z3.Not(cond)
        if self.feasible(st, ncond):
            b = st.fork() if out else st
            b.pc.append(ncond)
            out.append((b, False))
        self.n_paths += len(out) - 1 if out else 0
        if self.n_paths > self.max_paths:
            raise Unsupported(node, 'path explosion (> %d)' % self.max_paths)
        return out

    # ------------------------------------------------------------------
    # exceptions
    def make_exc(self, cls, args=None, node=None):
        return V('exc', cls=cls, items=args or [], extra={'line': getattr(node, 'lineno', None)})

    def is_subclass(self, name, base):
        seen = 0
        while name is not None and seen < 20:
            if name == base:
                return True
            name = self.cur_mod.exc_base(name) if name not in EXC_BASES else EXC_BASES[name]
            seen += 1
        return False

    # ------------------------------------------------------------------
    # statements
    def exec_block(self, stmts, st):
        outs = [('next', st)]
        for s in stmts:
            nxt = []
            for o in outs:
                if o[0] == 'next':
                    nxt.extend(self.exec_stmt(s, o[1]))
                else:
                    nxt.append(o)
            outs = nxt
            if not outs:
                break
        return outs

    def exec_stmt(self, s, st):
        m = getattr(self, 'st_' + type(s).__name__, None)
        if m is None:
            raise Unsupported(s, 'statement %s' % type(s).__name__)
        return m(s, st)

    def _expr_then(self, results, f):
        """results: [(st, V|Raised)]; f(st, v) -> outcomes"""
        outs = []
        for st, v in results:
            if isinstance(v, Raised):
                outs.append(('raise', st, v.exc))
            else:
                outs.extend(f(st, v))
        return outs

    def st_Pass(self, s, st):
        return [('next', st)]

    def st_Global(self, s, st):
        return [('next', st)]

    st_Nonlocal = st_Global

    def st_Import(self, s, st):
        return [('next', st)]

    st_ImportFrom = st_Import

    def st_Expr(self, s, st):
        if isinstance(s.value, ast.Constant):
            return [('next', st)]       # docstring
        if isinstance(s.value, ast.Await) or (isinstance(s.value, ast.YieldFrom)
                                              and not self.contract.opts.get('generator_trace')):
            raise Unsupported(s, 'generator/coroutine')
        return self._expr_then(self.eval(s.value, st), lambda st, v: [('next', st)])

    def st_Return(self, s, st):
        if s.value is None:
            return [('ret', st, NONE)]
        return self._expr_then(self.eval(s.value, st), lambda st, v: [('ret', st, v)])

    def st_Assign(self, s, st):
        def after(st, v):
            outs = [('next', st)]
            for t in s.targets:
                nxt = []
                for o in outs:
                    if o[0] == 'next':
                        nxt.extend(self.assign(t, v, o[1]))
                    else:
                        nxt.append(o)
                outs = nxt
            return outs
        return self._expr_then(self.eval(s.value, st), after)

    def st_AnnAssign(self, s, st):
        if s.value is None:
            return [('next', st)]
        return self._expr_then(self.eval(s.value, st),
                               lambda st, v: self.assign(s.target, v, st))

    def st_AugAssign(self, s, st):
        load = ast.copy_location(self._as_load(s.target), s)
        binop = ast.copy_location(ast.BinOp(left=load, op=s.op, right=s.value), s)
        return self._expr_then(self.eval(binop, st),
                               lambda st, v: self.assign(s.target, v, st))

    @staticmethod
    def _as_load(t):
        if isinstance(t, ast.Name):
            return ast.Name(id=t.id, ctx=ast.Load())
        if isinstance(t, ast.Attribute):
            return ast.Attribute(value=t.value, attr=t.attr, ctx=ast.Load())
        if isinstance(t, ast.Subscript):
            return ast.Subscript(value=t.value, slice=t.slice, ctx=ast.Load())
        raise Unsupported(t, 'augassign target')

    def assign(self, target, v, st):
        if isinstance(target, ast.Name):
            st.env[target.id] = v
            return [('next', st)]
        if isinstance(target, (ast.Tuple, ast.List)):
            stars = [i for i, t in enumerate(target.elts) if isinstance(t, ast.Starred)]
            if stars:
                # a, *rest, z = <sequence of statically known length>
                if len(stars) > 1 or not (v.k in ('tuple', 'list') and v.items is not None):
                    raise Unsupported(target, 'starred assignment target over %r' % (v,))
                k, n = stars[0], len(target.elts)
                if len(v.items) < n - 1:
                    return [('raise', st, self.make_exc('ValueError', node=target))]
                tail = n - 1 - k
                mid = v.items[k:len(v.items) - tail]
                items = list(v.items[:k]) + [vlist(list(mid))] + list(v.items[len(v.items) - tail:] if tail else [])
                elts = [t.value if isinstance(t, ast.Starred) else t for t in target.elts]
                outs = [('next', st)]
                for t, it in zip(elts, items):
                    nxt = []
                    for o in outs:
                        if o[0] == 'next':
                            nxt.extend(self.assign(t, it, o[1]))
                        else:
                            nxt.append(o)
                    outs = nxt
                return outs
            items = self.unpack(v, len(target.elts), target, st)
            if isinstance(items, Raised):
                return [('raise', st, items.exc)]
            outs = [('next', st)]
            for t, it in zip(target.elts, items):
                nxt = []
                for o in outs:
                    if o[0] == 'next':
                        nxt.extend(self.assign(t, it, o[1]))
                    else:
                        nxt.append(o)
                outs = nxt
            return outs
        if isinstance(target, ast.Attribute):
            def setit(st, obj):
                return self.set_attr(obj, target.attr, v, st, target)
            return self._expr_then(self.eval(target.value, st), setit)
        if isinstance(target, ast.Subscript):
            def setsub(st, obj):
                def withidx(st, idx):
                    return self.set_item(obj, idx, v, st, target)
                return self._expr_then(self.eval(target.slice, st), withidx)
            return self._expr_then(self.eval(target.value, st), setsub)
        raise Unsupported(target, 'assignment target')

    def unpack(self, v, n, node, st):
        if v.k in ('tuple', 'list') and v.items is not None:
            if len(v.items) != n:
                return Raised(self.make_exc('ValueError', node=node))
            return v.items
        h = self.contract.hooks.get('unpack')
        if h:
            r = h(self, v, n, node, st)
            if r is not None:
                return r
        raise Unsupported(node, 'unpack of %r' % (v,))

    def st_If(self, s, st):
        outs = []
        for st1, c in self.eval(s.test, st):
            if isinstance(c, Raised):
                outs.append(('raise', st1, c.exc))
                continue
            st1 = self.refine_on_test(s.test, st1)
            for st2, side in self.branch(st1, self.truth(c, s.test, st1), s):
                st2 = self.narrow(s.test, side, st2)
                outs.extend(self.exec_block(s.body if side else s.orelse, st2))
        return outs

    def refine_on_test(self, test, st):
        return st

    def narrow(self, test, side, st):
        """flow-sensitive typing after isinstance()/is None tests on names."""
        h = getattr(self, '_narrow_hook', None)
        if isinstance(test, ast.Call) and isinstance(test.func, ast.Name) \
                and test.func.id == 'isinstance' and side \
                and isinstance(test.args[0], ast.Name):
            name = test.args[0].id
            v = st.env.get(name)
            if v is not None and v.k == 'any':
                kinds = self._isinstance_kinds(test.args[1])
                if kinds and len(kinds) == 1:
                    nv = self.any_as(v, kinds[0])
                    st.env[name] = nv
                    if nv.extra and 'facts' in nv.extra:
                        st.pc.extend(nv.extra['facts'])
        if isinstance(test, ast.BoolOp) and isinstance(test.op, ast.And) and side:
            for t in test.values:
                st = self.narrow(t, True, st)
        if isinstance(test, ast.UnaryOp) and isinstance(test.op, ast.Not):
            st = self.narrow(test.operand, not side, st)
        return st

    def _isinstance_kinds(self, expr):
        names = []
        elts = expr.elts if isinstance(expr, ast.Tuple) else [expr]
        for e in elts:
            if isinstance(e, ast.Name) and e.id in ('int', 'float', 'str', 'bytes', 'list', 'tuple',
                                                    'bool', 'bytearray', 'memoryview'):
                names.append(e.id)
            else:
                return None
        return names

    def any_as(self, v, kind):
        """view of an Any value known (on this path) to have dynamic type kind"""
        if kind == 'int':
            return V('int', VV.any_int(v.z), extra={'any': v.z})
        if kind == 'float':
            return V('real', VV.any_real(v.z), extra={'any': v.z})
        if kind == 'bool':
            return V('bool', VV.any_bool(v.z), extra={'any': v.z})
        if kind == 'none':
            return NONE
        if kind == 'str':
            o = v.z
            n, u8 = VV.any_len(o), VV.any_u8(o)
            return V('str', py=None, z=None, extra={
                'chars': n, 'u8': u8, 'has_nul': VV.any_nul(o), 'ascii': VV.any_ascii(o), 'any': o,
                'facts': [n >= 0, u8 >= n, u8 <= 4 * n]})
        if kind in ('bytes', 'bytearray', 'memoryview'):
            o = v.z
            return V('bytes', py=None, extra={'len': VV.any_len(o), 'has_nul': VV.any_nul(o), 'any': o,
                                              'facts': [VV.any_len(o) >= 0]})
        if kind in ('list', 'tuple'):
            return V('dyn', v.z, cls=kind)
        return v

    def st_While(self, s, st):
        return self.loop(s, st)

    def st_For(self, s, st):
        return self.loop(s, st)

    def st_Raise(self, s, st):
        if s.exc is None:
            cur = st.ghost.get('handling')
            if cur is None:
                raise Unsupported(s, 'bare raise outside handler')
            return [('raise', st, cur)]

        def after(st, v):
            if v.k == 'class':
                v = self.make_exc(v.py, node=s)
            if v.k != 'exc':
                raise Unsupported(s, 'raise of %r' % (v,))
            if s.cause is not None and not (isinstance(s.cause, ast.Constant)):
                pass
            return [('raise', st, v)]
        return self._expr_then(self.eval(s.exc, st), after)

    def st_Assert(self, s, st):
        outs = []
        for st1, c in self.eval(s.test, st):
            if isinstance(c, Raised):
                outs.append(('raise', st1, c.exc))
                continue
            for st2, side in self.branch(st1, self.truth(c, s.test, st1), s):
                if side:
                    outs.append(('next', st2))
                else:
                    outs.append(('raise', st2, self.make_exc('AssertionError', node=s)))
        return outs

    def st_Delete(self, s, st):
        outs = [('next', st)]
        for t in s.targets:
            nxt = []
            for o in outs:
                if o[0] != 'next':
                    nxt.append(o)
                    continue
                nxt.extend(self.delete(t, o[1]))
            outs = nxt
        return outs

    def delete(self, t, st):
        if isinstance(t, ast.Name):
            st.env.pop(t.id, None)
            return [('next', st)]
        if isinstance(t, ast.Subscript):
            def d(st, obj):
                return self._expr_then(self.eval(t.slice, st),
                                       lambda st, idx: self.del_item(obj, idx, st, t))
            return self._expr_then(self.eval(t.value, st), d)
        if isinstance(t, ast.Attribute):
            def d(st, obj):
                return self.del_attr(obj, t.attr, st, t)
            return self._expr_then(self.eval(t.value, st), d)
        raise Unsupported(t, 'del target')

    def st_Try(self, s, st):
        outs = []
        for o in self.exec_block(s.body, st):
            if o[0] == 'raise':
                exc = o[2]
                st1 = o[1]
                handled = False
                for h in s.handlers:
                    m = self.handler_matches(h, exc, st1)
                    if m == 'yes':
                        st1.ghost = dict(st1.ghost)
                        prev = st1.ghost.get('handling')
                        st1.ghost['handling'] = exc
                        if h.name:
                            st1.env[h.name] = exc
                        for ho in self.exec_block(h.body, st1):
                            ho[1].ghost = dict(ho[1].ghost)
                            ho[1].ghost['handling'] = prev
                            outs.append(ho)
                        handled = True
                        break
                    elif m == 'maybe':
                        raise Unsupported(h, 'handler match undecidable for %r' % (exc,))
                if not handled:
                    outs.append(o)
            elif o[0] == 'next':
                if s.orelse:
                    outs.extend(self.exec_block(s.orelse, o[1]))
                else:
                    outs.append(o)
            else:
                outs.append(o)
        if s.finalbody:
            fin = []
            for o in outs:
                for fo in self.exec_block(s.finalbody, o[1]):
                    if fo[0] == 'next':
                        fin.append((o[0], fo[1]) + tuple(o[2:]))
                    else:
                        fin.append(fo)      # finally overrides
            outs = fin
        return outs

    st_TryStar = None

    def handler_matches(self, h, exc, st):
        if h.type is None:
            return 'yes'
        names = []
        t = h.type
        elts = t.elts if isinstance(t, ast.Tuple) else [t]
        for e in elts:
            if isinstance(e, ast.Name):
                names.append(e.id)
            elif isinstance(e, ast.Attribute):
                dotted = '%s.%s' % (e.value.id, e.attr) if isinstance(e.value, ast.Name) else e.attr
                names.append(dotted if dotted in EXC_BASES else e.attr)
            else:
                raise Unsupported(h, 'handler type expr')
        cls = exc.cls
        if cls == '?':
            return 'maybe'
        if isinstance(cls, (set, frozenset)):
            # exception of one of several classes: all must agree
            res = set('yes' if any(self.is_subclass(c, n) for n in names) else 'no'
                      for c in cls)
            return res.pop() if len(res) == 1 else 'maybe'
        for n in names:
            if self.is_subclass(cls, n):
                return 'yes'
        return 'no'

    def st_With(self, s, st):
        # context managers: locks/conditions (acquire/release trace events);
        # anything else via contract hook
        outs = [('next', st)]
        names = []
        for item in s.items:
            nxt = []
            for o in outs:
                if o[0] != 'next':
                    nxt.append(o)
                    continue
                for st1, cm in self.eval(item.context_expr, o[1]):
                    if isinstance(cm, Raised):
                        nxt.append(('raise', st1, cm.exc))
                        continue
                    names.append(cm)
                    st1.trace.append(('enter', self.describe(cm)))
                    if item.optional_vars is not None:
                        nxt.extend(self.assign(item.optional_vars, cm, st1))
                    else:
                        nxt.append(('next', st1))
            outs = nxt
        res = []
        for o in outs:
            if o[0] != 'next':
                res.append(o)
                continue
            for bo in self.exec_block(s.body, o[1]):
                for cm in reversed(names[-len(s.items):]):
                    bo[1].trace.append(('exit', self.describe(cm)))
                res.append(bo)
        return res

    def describe(self, v):
        if v.k == 'ref':
            return '%s#%s' % (v.cls, v.oid)
        if v.k in ('obj',):
            return str(v.oid)
        return v.k

    def st_FunctionDef(self, s, st):
        st.env[s.name] = V('func', py=('closure', s, dict(st.env), self.cur_mod, self.cur_cls),
                           extra={'home': self.frame_ids[-1]})
        return [('next', st)]

    def st_Break(self, s, st):
        return [('break', st)]

    def st_Continue(self, s, st):
        return [('cont', st)]

    # ------------------------------------------------------------------
    # loops: cut at the sidecar invariant
    def loop(self, s, st):
        ordinal = self.loop_ordinals.get(id(s))
        spec = self.contract.loops.get(ordinal) if ordinal is not None else None
        if spec is None:
            return self.loop_unrolled(s, st, ordinal)
        return spec.run(self, s, st, ordinal)

    def loop_unrolled(self, s, st, ordinal):
        """Loops over a statically known finite sequence are executed
        concretely (no invariant needed, complete). Others need an invariant."""
        if isinstance(s, ast.For):
            outs = []
            for st1, it in self.eval(s.iter, st):
                if isinstance(it, Raised):
                    outs.append(('raise', st1, it.exc))
                    continue
                items = self.static_items(it)
                if items is None:
                    raise Unsupported(s, 'loop #%s over symbolic sequence without invariant' % ordinal)
                cur = [('next', st1)]
                done = []
                for item in items:
                    nxt = []
                    for o in cur:
                        if o[0] != 'next':
                            done.append(o)
                            continue
                        for ao in self.assign(s.target, item, o[1]):
                            if ao[0] != 'next':
                                done.append(ao)
                                continue
                            for bo in self.exec_block(s.body, ao[1]):
                                if bo[0] in ('next', 'cont'):
                                    nxt.append(('next', bo[1]))
                                elif bo[0] == 'break':
                                    done.append(('brk', bo[1]))
                                else:
                                    done.append(bo)
                    cur = nxt
                for o in cur:
                    if s.orelse:
                        done.extend(self.exec_block(s.orelse, o[1]))
                    else:
                        done.append(o)
                for o in done:
                    outs.append(('next', o[1]) if o[0] == 'brk' else o)
            return outs
        # A while loop the contract has no invariant for (none on the unchanged tree: a loop
        # that a change introduced): unwound K times with an unwinding assertion, as a
        # bounded model checker does.  Paths leaving within K iterations are real paths; if a
        # (K+1)-th iteration is feasible the assertion 'loopN.unwind(K)' fails, which is not
        # among the required obligations and leaves the function undecided, never proved.
        K = int(self.contract.opts.get('unwind', 3))
        outs = []
        cur = [st]
        for k in range(K + 1):
            nxt = []
            for stc in cur:
                for st1, tv in self.eval(s.test, stc):
                    if isinstance(tv, Raised):
                        outs.append(('raise', st1, tv.exc))
                        continue
                    for st2, side in self.branch(st1, self.truth(tv, s, st1), s):
                        if not side:
                            if s.orelse:
                                outs.extend(self.exec_block(s.orelse, st2))
                            else:
                                outs.append(('next', st2))
                            continue
                        if k == K:
                            self.oblige(st2, 'loop%s.unwind(%d)' % (ordinal, K), 'unwind', False, s,
                                        info={'note': 'while loop without invariant: iterations '
                                                      'beyond %d are not covered' % K})
                            continue
                        for bo in self.exec_block(s.body, st2):
                            if bo[0] in ('next', 'cont'):
                                nxt.append(bo[1])
                            elif bo[0] == 'break':
                                outs.append(('next', bo[1]))
                            else:
                                outs.append(bo)
            cur = nxt
        return outs

    def static_items(self, v):
        if v.k in ('tuple', 'list') and v.items is not None:
            return v.items
        if v.k == 'range' and v.items is not None:
            return v.items
        return None

    # ------------------------------------------------------------------
    # expressions
    def eval(self, e, st):
        m = getattr(self, 'ex_' + type(e).__name__, None)
        if m is None:
            raise Unsupported(e, 'expression %s' % type(e).__name__)
        return m(e, st)

    def eval_seq(self, exprs, st):
        """evaluate expressions left to right; returns [(st, [V...]|Raised)]"""
        res = [(st, [])]
        for e in exprs:
            nxt = []
            for st1, acc in res:
                if isinstance(acc, Raised):
                    nxt.append((st1, acc))
                    continue
                for st2, v in self.eval(e, st1):
                    if isinstance(v, Raised):
                        nxt.append((st2, v))
                    else:
                        nxt.append((st2, acc + [v]))
            res = nxt
        return res

    def ex_Constant(self, e, st):
        return [(st, self.const(e.value, e))]

    def const(self, c, node=None):
        if c is None:
            return NONE
        if c is True or c is False:
            return vbool(c)
        if isinstance(c, int):
            return vint(c)
        if isinstance(c, float):
            if c != c or c in (float('inf'), float('-inf')):
                return V('real', z3.Const('inf' if c > 0 else 'neginf', z3.RealSort()),
                         extra={'inf': 1 if c > 0 else -1})
            # decimal literal semantics: 0.05 is 1/20 (floats are reals)
            fr = Fraction(repr(c))
            return vreal(z3.RealVal(str(fr)),
                         ival=(z3.IntVal(fr.numerator) if fr.denominator == 1 else None))
        if isinstance(c, str):
            return vstr(c)
        if isinstance(c, bytes):
            return V('bytes', py=c)
        if c is Ellipsis:
            return V('obj', oid='Ellipsis')
        raise Unsupported(node, 'constant %r' % (c,))

    def ex_Name(self, e, st):
        if e.id in st.env:
            return [(st, st.env[e.id])]
        if self.local_stack and e.id in self.local_stack[-1]:
            # a local of this function that is not bound on this path
            return [(st, Raised(self.make_exc('UnboundLocalError', node=e)))]
        v = self.global_name(e.id, e, st)
        return [(st, v)]

    @staticmethod
    def locals_of(fdef):
        names = set()
        for n in ast.walk(fdef):
            if isinstance(n, ast.Name) and isinstance(n.ctx, ast.Store):
                names.add(n.id)
        for n in ast.walk(fdef):
            if isinstance(n, (ast.Global, ast.Nonlocal)):
                names -= set(n.names)
        return names

    def global_name(self, name, node, st):
        mod = self.cur_mod
        h = self.contract.hooks.get('global')
        if h:
            r = h(self, name, node, st)
            if r is not None:
                return r
        if name == '_libsc3':
            return V('module', py='<libsc3>')
        if name in mod.funcs:
            return V('func', py=('module', mod.relpath, name))
        if name in mod.classes:
            return V('class', py=name, extra={'mod': mod.relpath})
        if name in mod.assigns:
            key = ('modconst', mod.relpath, name)
            cache = self.__dict__.setdefault('_modconsts', {})
            if key not in cache:
                saved = (self.cur_mod, self.cur_cls)
                tmp = St()
                try:
                    rs = self.eval(mod.assigns[name], tmp)
                except Unsupported:
                    rs = None
                finally:
                    self.cur_mod, self.cur_cls = saved
                if rs and len(rs) == 1 and not isinstance(rs[0][1], Raised) and not rs[0][0].pc:
                    cache[key] = rs[0][1]
                else:
                    cache[key] = V('obj', oid='%s.%s' % (mod.relpath, name))
            return cache[key]
        if name in mod.imports:
            imp = mod.imports[name]
            if imp[0] == 'module':
                return V('module', py=imp[1])
            if imp[0] == 'name':
                m2 = Module.get(self.repo, imp[1])
                if imp[2] in m2.funcs:
                    return V('func', py=('module', imp[1], imp[2]))
                if imp[2] in m2.classes:
                    return V('class', py=imp[2], extra={'mod': imp[1]})
                return V('obj', oid='%s.%s' % (imp[1], imp[2]))
            return V('module', py='ext:' + imp[1])
        if name in EXC_BASES:
            return V('class', py=name)
        if name in ('int', 'float', 'bool', 'str', 'bytes', 'list', 'tuple',
                    'dict', 'set', 'type', 'object', 'bytearray', 'memoryview'):
            return V('class', py=name)
        if name in ('len', 'abs', 'min', 'max', 'isinstance', 'hasattr', 'range',
                    'callable', 'getattr', 'enumerate', 'zip', 'sum', 'next',
                    'iter', 'reversed', 'sorted', 'round', 'divmod', 'pow',
                    'print', 'id', 'repr', 'any', 'all', 'issubclass', 'super', 'hash'):
            return V('func', py=('builtin', name))
        if name == '_libsc3':
            return V('module', py='<libsc3>')
        raise Unsupported(node, 'unknown name %s' % name)

    def ex_Tuple(self, e, st):
        out = []
        for st1, vs in self.eval_seq(e.elts, st):
            out.append((st1, vs if isinstance(vs, Raised) else vtuple(vs)))
        return out

    def ex_List(self, e, st):
        out = []
        starred = [i for i, x in enumerate(e.elts) if isinstance(x, ast.Starred)]
        elts = [x.value if isinstance(x, ast.Starred) else x for x in e.elts]
        for st1, vs in self.eval_seq(elts, st):
            if isinstance(vs, Raised):
                out.append((st1, vs))
                continue
            if starred:
                # [a, *xs, b]: a statically known xs is spliced in
                flat = []
                for i, v in enumerate(vs):
                    if i in starred:
                        items = self.static_items(v)
                        if items is None:
                            if self.contract.opts.get('star_in_display_to_ghost'):
                                # the display goes straight to a ghost callee, which sees the spliced sequence as
                                # one marked element (the contract opts in and must not let the list be used otherwise)
                                flat.append(V('star', extra={'seq': v}))
                                continue
                            raise Unsupported(e, 'starred element of symbolic length in a list display')
                        flat.extend(items)
                    else:
                        flat.append(v)
                vs = flat
            out.append((st1, self.new_list(vs, st1)))
        return out

    def new_list(self, items, st):
        h = self.contract.hooks.get('new_list')
        if h:
            r = h(self, items, st)
            if r is not None:
                return r
        return vlist(items)

    def ex_Dict(self, e, st):
        if not e.keys:
            return [(st, V('dict0'))]
        if all(isinstance(k, ast.Constant) for k in e.keys):
            out = []
            for st1, vs in self.eval_seq(list(e.values), st):
                if isinstance(vs, Raised):
                    out.append((st1, vs))
                else:
                    out.append((st1, V('cdict', py={k.value: v for k, v in zip(e.keys, vs)})))
            return out
        if all(k is not None for k in e.keys):
            # {key: value, ...} with computed keys: a display value that only ghost callees and hooks can take apart
            n = len(e.keys)
            out = []
            for st1, vs in self.eval_seq(list(e.keys) + list(e.values), st):
                if isinstance(vs, Raised):
                    out.append((st1, vs))
                else:
                    out.append((st1, V('dict', items=list(zip(vs[:n], vs[n:])))))
            return out
        raise Unsupported(e, 'dict literal')

    def ex_JoinedStr(self, e, st):
        return [(st, V('str', py=None, z=self.fresh('fstr', z3.StringSort())))]

    def ex_IfExp(self, e, st):
        out = []
        for st1, c in self.eval(e.test, st):
            if isinstance(c, Raised):
                out.append((st1, c))
                continue
            for st2, side in self.branch(st1, self.truth(c, e.test, st1), e):
                st2 = self.narrow(e.test, side, st2)
                out.extend(self.eval(e.body if side else e.orelse, st2))
        return out

    def ex_BoolOp(self, e, st):
        is_and = isinstance(e.op, ast.And)
        res = [(st, None, False)]     # (st, value, decided)
        for i, sub in enumerate(e.values):
            nxt = []
            last = (i == len(e.values) - 1)
            for st1, val, decided in res:
                if decided:
                    nxt.append((st1, val, True))
                    continue
                for st2, v in self.eval(sub, st1):
                    if isinstance(v, Raised):
                        nxt.append((st2, v, True))
                        continue
                    if last:
                        nxt.append((st2, v, True))
                        continue
                    for st3, side in self.branch(st2, self.truth(v, sub, st2), e):
                        st3 = self.narrow(sub, side, st3)
                        if side == is_and:
                            nxt.append((st3, None, False))   # continue
                        else:
                            nxt.append((st3, v, True))
            res = nxt
        return [(s_, v) for s_, v, _ in res]

    def ex_UnaryOp(self, e, st):
        out = []
        for st1, v in self.eval(e.operand, st):
            if isinstance(v, Raised):
                out.append((st1, v))
                continue
            if isinstance(e.op, ast.Not):
                out.append((st1, vbool(z3.Not(self.truth(v, e, st1)))))
            elif isinstance(e.op, ast.USub):
                out.append((st1, self.neg(v, e, st1)))
            elif isinstance(e.op, ast.UAdd):
                out.append((st1, v))
            elif isinstance(e.op, ast.Invert):
                if v.k == 'int':
                    out.append((st1, vint(-v.z - 1)))
                else:
                    raise Unsupported(e, '~ on %r' % (v,))
            else:
                raise Unsupported(e, 'unary op')
        return out

    def neg(self, v, node, st):
        if v.k == 'int':
            return vint(-v.z)
        if v.k == 'bool':
            return vint(-to_int(v))
        if v.k == 'real':
            if v.extra and 'inf' in v.extra:
                return self.const(float('-inf') if v.extra['inf'] > 0 else float('inf'))
            return vreal(-v.z, ival=(-v.ival if v.ival is not None else None))
        h = self.contract.hooks.get('unop')
        if h:
            r = h(self, 'neg', v, node, st)
            if r is not None:
                return r
        raise Unsupported(node, 'negation of %r' % (v,))

    def ex_BinOp(self, e, st):
        out = []
        for st1, vs in self.eval_seq([e.left, e.right], st):
            if isinstance(vs, Raised):
                out.append((st1, vs))
                continue
            out.extend(self.binop(e.op, vs[0], vs[1], st1, e))
        return out

    def binop(self, op, a, b, st, node):
        """returns [(st, V|Raised)]"""
        h = self.contract.hooks.get('binop')
        if h:
            r = h(self, op, a, b, st, node)
            if r is not None:
                return r
        if is_num(a) and is_num(b):
            return self.num_binop(op, a, b, st, node)
        if isinstance(op, ast.Mult) and a.k == 'list' and a.items and b.k == 'int' \
                and not z3.is_int_value(z3.simplify(b.z)) \
                and all(x.k in ('any', 'int', 'real', 'bool', 'none') for x in a.items):
            facts = []
            items = [x if x.k == 'any' else V('any', self.box_any(x, facts, node)) for x in a.items]
            st.pc.extend(facts)
            m = len(items)
            k = b.z

            def get(eng, i, st_, _items=items, _m=m):
                r = _items[-1].z
                for j in range(_m - 2, -1, -1):
                    r = z3.If(i % _m == j, _items[j].z, r)
                return V('any', r)
            return [(st, V('seq', extra={'len': z3.If(k > 0, k * m, 0), 'get': get}))]
        if isinstance(op, ast.Mult) and a.k in ('dyn', 'seq') and b.k == 'int':
            sa = self.as_seq(a, st)
            l, k = sa.extra['len'], b.z
            ln = z3.If(k > 0, l * k, 0)
            return [(st, V('seq', extra={'len': ln, 'get': (
                lambda eng, i, st_, _s=sa, _l=l: _s.extra['get'](eng, i % _l, st_))}))]
        if isinstance(op, ast.Add) and a.k in ('dyn', 'seq') and b.k in ('dyn', 'seq'):
            sa, sb = self.as_seq(a, st), self.as_seq(b, st)
            la = sa.extra['len']

            def get(eng, i, st_, _a=sa, _b=sb, _la=la):
                x = _a.extra['get'](eng, i, st_)
                y = _b.extra['get'](eng, i - _la, st_)
                return V('any', z3.If(i < _la, x.z, y.z))
            return [(st, V('seq', extra={'len': la + sb.extra['len'], 'get': get}))]
        if (a.k == 'obj' and (is_num(b) or b.k == 'obj')) or (b.k == 'obj' and is_num(a)):
            # arithmetic on an opaque value stays opaque
            return [(st, V('obj', oid='arith!%d' % next(self.counter)))]
        if isinstance(op, ast.Add) and a.k in ('list', 'tuple') and a.k == b.k \
                and a.items is not None and b.items is not None:
            return [(st, V(a.k, items=a.items + b.items))]
        if isinstance(op, ast.Mult) and a.k in ('list', 'tuple') and a.items is not None \
                and b.k == 'int' and z3.is_int_value(z3.simplify(b.z)):
            n = z3.simplify(b.z).as_long()
            return [(st, V(a.k, items=a.items * max(n, 0)))]
        if a.k == 'bytes' and b.k == 'bytes' and isinstance(op, ast.Add):
            if a.py is not None and b.py is not None:
                return [(st, V('bytes', py=a.py + b.py))]
            nul = z3.Or(self.bytes_has_nul(a), self.bytes_has_nul(b))
            return [(st, V('bytes', py=None, extra={'len': self.bytes_len(a) + self.bytes_len(b),
                                                    'has_nul': nul}))]
        if isinstance(op, ast.Mult) and ((a.k == 'bytes' and b.k == 'int') or (b.k == 'bytes' and a.k == 'int')):
            bb, n = (a, b) if a.k == 'bytes' else (b, a)
            ln = self.bytes_len(bb)
            tot = z3.If(n.z > 0, n.z * ln, 0)
            return [(st, V('bytes', py=None, extra={
                'len': tot, 'has_nul': z3.And(tot > 0, self.bytes_has_nul(bb))}))]
        if isinstance(op, ast.Add) and a.k == 'str' and b.k == 'str' and \
                a.py is not None and b.py is not None:
            return [(st, vstr(a.py + b.py))]
        if isinstance(op, ast.Mod) and a.k == 'str':
            return [(st, V('str', z=self.fresh('fmt', z3.StringSort())))]
        if (a.k == 'none' and b.k in ('int', 'real', 'bool', 'none')) or \
                (b.k == 'none' and a.k in ('int', 'real', 'bool')):
            # None has no arithmetic with numbers (or None) in Python: TypeError
            return [(st, Raised(self.make_exc('TypeError', node=node)))]
        raise Unsupported(node, 'binop %s on %r, %r' % (type(op).__name__, a, b))

    def num_binop(self, op, a, b, st, node):
        both_int = a.k in ('int', 'bool') and b.k in ('int', 'bool')
        if a.k == 'int' and b.k == 'int':
            az, bz = z3.simplify(a.z), z3.simplify(b.z)
            if z3.is_int_value(az) and z3.is_int_value(bz):
                x, y = az.as_long(), bz.as_long()
                try:
                    r = {ast.Add: lambda: x + y, ast.Sub: lambda: x - y,
                         ast.Mult: lambda: x * y, ast.FloorDiv: lambda: x // y,
                         ast.Mod: lambda: x % y,
                         ast.Pow: lambda: x ** y if 0 <= y <= 64 else None,
                         ast.LShift: lambda: x << y if 0 <= y <= 64 else None,
                         ast.RShift: lambda: x >> y if 0 <= y <= 64 else None,
                         ast.BitAnd: lambda: x & y, ast.BitOr: lambda: x | y,
                         ast.BitXor: lambda: x ^ y}.get(type(op), lambda: None)()
                except ZeroDivisionError:
                    return [(st, Raised(self.make_exc('ZeroDivisionError', node=node)))]
                if isinstance(r, int):
                    return [(st, vint(r))]
                if isinstance(op, ast.Div) and y != 0:
                    fr = Fraction(x, y)
                    return [(st, vreal(z3.RealVal(str(fr)),
                                       ival=(z3.IntVal(fr.numerator) if fr.denominator == 1 else None)))]
        if isinstance(op, (ast.Add, ast.Sub, ast.Mult)):
            if both_int:
                x, y = to_int(a), to_int(b)
                z = x + y if isinstance(op, ast.Add) else x - y if isinstance(op, ast.Sub) else x * y
                return [(st, vint(z))]
            x, y = to_real(a), to_real(b)
            z = x + y if isinstance(op, ast.Add) else x - y if isinstance(op, ast.Sub) else x * y
            iv = None
            ai = a.z if a.k == 'int' else a.ival
            bi_ = b.z if b.k == 'int' else b.ival
            if ai is not None and bi_ is not None:
                iv = ai + bi_ if isinstance(op, ast.Add) else ai - bi_ if isinstance(op, ast.Sub) else ai * bi_
            ratio = None
            # keep n/d form through +- integer
            if isinstance(op, (ast.Add, ast.Sub)):
                if a.ratio is not None and bi_ is not None:
                    n, d = a.ratio
                    ratio = ((n + bi_ * d) if isinstance(op, ast.Add) else (n - bi_ * d), d)
                elif b.ratio is not None and ai is not None and isinstance(op, ast.Add):
                    n, d = b.ratio
                    ratio = (n + ai * d, d)
            return [(st, vreal(z, ival=iv, ratio=ratio))]
        if isinstance(op, ast.Div):
            return self.division(a, b, st, node, 'true')
        if isinstance(op, ast.FloorDiv):
            return self.division(a, b, st, node, 'floor')
        if isinstance(op, ast.Mod):
            return self.division(a, b, st, node, 'mod')
        if isinstance(op, ast.Pow):
            # only constant small exponents
            bz = z3.simplify(b.z) if b.k == 'int' else None
            if bz is not None and z3.is_int_value(bz) and 0 <= bz.as_long() <= 4:
                n = bz.as_long()
                if a.k == 'int':
                    r = z3.IntVal(1)
                    for _ in range(n):
                        r = r * a.z
                    return [(st, vint(r))]
                r = z3.RealVal(1)
                for _ in range(n):
                    r = r * to_real(a)
                return [(st, vreal(r))]
            f = self.ufunc('pow', 2)
            return [(st, vreal(f(to_real(a), to_real(b))))]
        if isinstance(op, (ast.BitAnd, ast.BitOr, ast.LShift, ast.RShift, ast.BitXor)) and both_int:
            return self.bitop(op, to_int(a), to_int(b), st, node)
        raise Unsupported(node, 'numeric op %s' % type(op).__name__)

    def bitop(self, op, x, y, st, node):
        ys = z3.simplify(y)
        if isinstance(op, ast.BitAnd) and z3.is_int_value(ys):
            m = ys.as_long()
            if m >= 0 and (m & (m + 1)) == 0:       # 2^k - 1 : x mod 2^k (python semantics, any sign)
                return [(st, vint(x % (m + 1)))]
        if isinstance(op, ast.LShift) and z3.is_int_value(ys) and 0 <= ys.as_long() < 64:
            return [(st, vint(x * (2 ** ys.as_long())))]
        if isinstance(op, ast.RShift) and z3.is_int_value(ys) and 0 <= ys.as_long() < 64:
            return [(st, vint(py_floordiv_int(x, z3.IntVal(2 ** ys.as_long()))))]
        if isinstance(op, ast.BitOr):
            # x | y == x + y when the operands share no bit; we only know that
            # when y is a multiple of 2^k and 0 <= x < 2^k (proved as an
            # obligation-free side condition: fork on it)
            xs = z3.simplify(x)
            k = self.contract.opts.get('bitor_disjoint')
            if k is not None:
                lo = 2 ** k
                cond = z3.And(x >= 0, x < lo, y >= 0, y % lo == 0)
                outs = []
                for st2, side in self.branch(st, cond, node):
                    if side:
                        outs.append((st2, vint(x + y)))
                    else:
                        raise Unsupported(node, '| with possibly overlapping bits')
                return outs
        raise Unsupported(node, 'bit operation')

    def division(self, a, b, st, node, mode):
        both_int = a.k in ('int', 'bool') and b.k in ('int', 'bool')
        bz = to_int(b) if both_int else to_real(b)
        outs = []
        for st1, nz in self.branch(st, bz != 0, node):
            if not nz:
                outs.append((st1, Raised(self.make_exc('ZeroDivisionError', node=node))))
                continue
            if both_int:
                x, y = to_int(a), to_int(b)
                if mode == 'true':
                    outs.append((st1, vreal(z3.ToReal(x) / z3.ToReal(y), ratio=(x, y))))
                elif mode == 'floor':
                    q = py_floordiv_int(x, y)
                    outs.append((st1, vint(q)))
                else:
                    outs.append((st1, vint(py_mod_int(x, y))))
            else:
                x, y = to_real(a), to_real(b)
                if mode == 'true':
                    outs.append((st1, vreal(x / y)))
                elif mode == 'floor':
                    q = z3.ToInt(x / y)
                    self.floor_terms.append(q)
                    outs.append((st1, vreal(z3.ToReal(q), ival=q)))
                else:
                    q = z3.ToInt(x / y)
                    self.floor_terms.append(q)
                    outs.append((st1, vreal(x - y * z3.ToReal(q))))
        return outs

    def as_seq(self, v, st):
        if v.k == 'seq':
            return v
        o = v.z
        ln = VV.any_len(o)
        st.pc.append(ln >= 0)
        return V('seq', extra={'len': ln, 'get': (lambda eng, i, st_, _o=o: V('any', VV.any_item(_o, i)))})

    def bytes_len(self, v):
        if v.py is not None:
            return z3.IntVal(len(v.py))
        return v.extra['len']

    def bytes_has_nul(self, v):
        if v.py is not None:
            return z3.BoolVal(b'\x00' in v.py)
        return v.extra.get('has_nul', z3.BoolVal(False))

    def ufunc(self, name, arity, ret='real'):
        key = ('ufunc', name, arity)
        cache = self.__dict__.setdefault('_ufuncs', {})
        if key not in cache:
            sorts = [z3.RealSort()] * arity + [z3.RealSort() if ret == 'real' else z3.IntSort()]
            cache[key] = z3.Function('uf_' + name, *sorts)
        return cache[key]

    def ex_Compare(self, e, st):
        out = []
        # chained: a < b < c  ==  a < b and b < c with single evaluation
        for st1, vs in self.eval_seq([e.left] + list(e.comparators), st):
            if isinstance(vs, Raised):
                out.append((st1, vs))
                continue
            conj = []
            for i, op in enumerate(e.ops):
                conj.append(self.compare(op, vs[i], vs[i + 1], st1, e))
            if any(isinstance(c, Raised) for c in conj):
                out.append((st1, [c for c in conj if isinstance(c, Raised)][0]))
                continue
            z = conj[0] if len(conj) == 1 else z3.And(*conj)
            out.append((st1, vbool(z)))
        return out

    def compare(self, op, a, b, st, node):
        h = self.contract.hooks.get('compare')
        if h:
            r = h(self, op, a, b, st, node)
            if r is not None:
                return r
        if isinstance(op, (ast.Is, ast.IsNot)):
            r = self.identical(a, b, node)
            return z3.Not(r) if isinstance(op, ast.IsNot) else r
        if isinstance(op, (ast.In, ast.NotIn)):
            r = self.contains(b, a, st, node)
            return z3.Not(r) if isinstance(op, ast.NotIn) else r
        if is_num(a) and is_num(b):
            if a.k in ('int', 'bool') and b.k in ('int', 'bool'):
                x, y = to_int(a), to_int(b)
            else:
                x, y = to_real(a), to_real(b)
                # comparisons against +-inf constants
                for (p, q, flip) in ((a, b, False), (b, a, True)):
                    if q.extra and 'inf' in (q.extra or {}) and not (p.extra and 'inf' in (p.extra or {})):
                        s = q.extra['inf']
                        return self._cmp_inf(op, s, flip)
            return {ast.Lt: lambda: x < y, ast.LtE: lambda: x <= y,
                    ast.Gt: lambda: x > y, ast.GtE: lambda: x >= y,
                    ast.Eq: lambda: x == y, ast.NotEq: lambda: x != y}[type(op)]()
        if isinstance(op, (ast.Eq, ast.NotEq)):
            r = self.equal(a, b, node)
            return z3.Not(r) if isinstance(op, ast.NotEq) else r
        raise Unsupported(node, 'comparison %s of %r, %r' % (type(op).__name__, a, b))

    @staticmethod
    def _cmp_inf(op, sign, flip):
        # finite p  OP  (sign)inf ; flip: (sign)inf OP p
        lt = (sign > 0)        # p < +inf true ; p < -inf false
        t = type(op)
        if flip:
            t = {ast.Lt: ast.Gt, ast.Gt: ast.Lt, ast.LtE: ast.GtE, ast.GtE: ast.LtE}.get(t, t)
        if t in (ast.Lt, ast.LtE):
            return z3.BoolVal(lt)
        if t in (ast.Gt, ast.GtE):
            return z3.BoolVal(not lt)
        if t is ast.Eq:
            return z3.BoolVal(False)
        return z3.BoolVal(True)

    def identical(self, a, b, node):
        if a.k == 'none' or b.k == 'none':
            o = b if a.k == 'none' else a
            if o.k == 'none':
                return z3.BoolVal(True)
            if o.k == 'any':
                return VV.tag_of(o.z) == TAGS['none']
            if o.k == 'opt':
                return o.extra['isnone']
            return z3.BoolVal(False)
        for (p, q) in ((a, b), (b, a)):
            if p.k == 'ref' and p.oid == 'main' and q.k == 'class' and q.py in ('RtMain', 'NrtMain'):
                rt = z3.Bool('main.__is_rt')
                return rt if q.py == 'RtMain' else z3.Not(rt)
        if a.k == 'ref' and b.k == 'ref':
            if a.extra and 'idz' in a.extra and b.extra and 'idz' in b.extra:
                return a.extra['idz'] == b.extra['idz']
            return z3.BoolVal(a.oid == b.oid)
        if a.k == 'obj' and b.k == 'obj':
            if a.z is not None and b.z is not None:
                return a.z == b.z
            return z3.BoolVal(a.oid == b.oid)
        if a.k == 'class' and b.k == 'class':
            return z3.BoolVal(a.py == b.py)
        if a.k == 'bool' and b.k == 'bool':
            return a.z == b.z
        if a.k != b.k:
            if set((a.k, b.k)) <= set(('ref', 'obj', 'class', 'int', 'real', 'str', 'bool', 'tuple', 'list', 'func')):
                if 'obj' in (a.k, b.k):
                    o = a if a.k == 'obj' else b
                    if o.z is not None:
                        raise Unsupported(node, 'identity of symbolic obj with %s' % (a.k if o is b else b.k))
                return z3.BoolVal(False)
        raise Unsupported(node, 'identity of %r, %r' % (a, b))

    def equal(self, a, b, node):
        if a.k == 'str' and b.k == 'str':
            if a.py is not None and b.py is not None:
                return z3.BoolVal(a.py == b.py)
            for p_, q_ in ((a, b), (b, a)):
                if p_.py is None and p_.extra and 'any' in p_.extra and q_.py is not None:
                    return self.str_is(q_.py)(p_.extra['any'])
            az = a.z if a.z is not None else z3.StringVal(a.py)
            bz = b.z if b.z is not None else z3.StringVal(b.py)
            return az == bz
        if a.k == 'none' or b.k == 'none':
            return self.identical(a, b, node)
        if a.k in ('tuple', 'list') and a.k == b.k and a.items is not None and b.items is not None:
            if len(a.items) != len(b.items):
                return z3.BoolVal(False)
            if not a.items:
                return z3.BoolVal(True)
            return z3.And(*[self.compare(ast.Eq(), x, y, None, node)
                            for x, y in zip(a.items, b.items)])
        if a.k in ('ref', 'obj', 'class') and b.k in ('ref', 'obj', 'class'):
            return self.identical(a, b, node)
        if a.k == 'any' and b.k == 'str' and b.py is not None:
            f = self.str_is(b.py)
            return z3.And(VV.tag_of(a.z) == TAGS['str'], f(a.z))
        if b.k == 'any' and a.k == 'str' and a.py is not None:
            return self.equal(b, a, node)
        if a.k == 'dyn' and a.cls == 'str' and b.k == 'str' and b.py is not None:
            return self.str_is(b.py)(a.z)
        if a.k == 'any' and is_num(b):
            t = VV.tag_of(a.z)
            rb = to_real(b)
            return z3.Or(z3.And(t == TAGS['int'], z3.ToReal(VV.any_int(a.z)) == rb),
                         z3.And(t == TAGS['float'], VV.any_real(a.z) == rb),
                         z3.And(t == TAGS['bool'], z3.If(VV.any_bool(a.z), 1.0, 0.0) == rb))
        if b.k == 'any' and is_num(a):
            return self.equal(b, a, node)
        if is_num(a) != is_num(b):
            if a.k in ('str', 'tuple', 'list', 'ref', 'class', 'bytes') or \
                    b.k in ('str', 'tuple', 'list', 'ref', 'class', 'bytes'):
                return z3.BoolVal(False)
        raise Unsupported(node, 'equality of %r, %r' % (a, b))

    def str_is(self, s):
        """uninterpreted predicate 'this Any value is the string s'"""
        cache = self.__dict__.setdefault('_stris', {})
        if s not in cache:
            cache[s] = z3.Function('str_is_%s' % s.encode().hex(), VV.Any, z3.BoolSort())
            # distinct literals are mutually exclusive
            x = z3.Const('x_strs', VV.Any)
            for t, g in list(cache.items()):
                if t != s:
                    self.axioms.append(z3.ForAll([x], z3.Not(z3.And(g(x), cache[s](x)))))
        return cache[s]

    def contains(self, container, item, st, node):
        if container.k in ('tuple', 'list') and container.items is not None:
            if not container.items:
                return z3.BoolVal(False)
            return z3.Or(*[self.compare(ast.Eq(), item, x, st, node) for x in container.items])
        h = self.contract.hooks.get('contains')
        if h:
            r = h(self, container, item, st, node)
            if r is not None:
                return r
        if container.k == 'bytes' and item.k == 'bytes' and item.py == b'\x00':
            return self.bytes_has_nul(container)
        raise Unsupported(node, '`in` on %r' % (container,))

    # attributes -----------------------------------------------------------
    def ex_Attribute(self, e, st):
        out = []
        for st1, obj in self.eval(e.value, st):
            if isinstance(obj, Raised):
                out.append((st1, obj))
                continue
            out.extend(self.get_attr(obj, e.attr, st1, e))
        return out

    def field_sym(self, oid, cls, name, node):
        """initial (pre-state) symbolic value of a field, by declared kind"""
        kind = self.contract.field_kind(cls, name)
        if kind is None:
            raise Unsupported(node, 'undeclared field %s.%s' % (cls, name))
        return self.sym_of_kind(kind, '%s.%s' % (oid, name))

    def sym_of_kind(self, kind, name):
        if callable(kind) and not isinstance(kind, str):
            return kind(self, name)
        if kind == 'int':
            return vint(z3.Int(name))
        if kind == 'real':
            return vreal(z3.Real(name))
        if kind == 'bool':
            return vbool(z3.Bool(name))
        if kind == 'any':
            return V('any', z3.Const(name, VV.Any))
        if kind == 'none':
            return NONE
        if kind == 'obj':
            return V('obj', oid=name, z=z3.Const(name, VV.Any))
        if kind == 'bytes':
            ln = z3.Int(name + '#len')
            return V('bytes', py=None, extra={'len': ln, 'facts': [ln >= 0],
                                              'has_nul': z3.Bool(name + '#nul')})
        if kind == 'str':
            n = z3.Int(name + '#chars')
            u8 = z3.Int(name + '#utf8len')
            return V('str', py=None, z=None, extra={
                'chars': n, 'u8': u8, 'has_nul': z3.Bool(name + '#nul'),
                'ascii': z3.Bool(name + '#ascii'),
                'facts': [n >= 0, u8 >= n, u8 <= 4 * n,
                          z3.Implies(z3.Bool(name + '#nul'), z3.And(n >= 1, u8 <= 4 * n - 3)),
                          z3.Implies(z3.Bool(name + '#ascii'), u8 == n)]})
        if isinstance(kind, str) and kind.startswith('ref:'):
            return V('ref', cls=kind[4:], oid=name)
        if isinstance(kind, str) and kind.startswith('aref:'):
            # reference that may alias other 'aref' values (read-only use)
            return V('ref', cls=kind[5:], oid=name,
                     extra={'idz': z3.Const(name + '#id', VV.Any)})
        if isinstance(kind, str) and kind.startswith('class:'):
            return V('class', py=kind[6:])
        if isinstance(kind, str) and kind.startswith('opt:'):
            raise ValueError('opt kinds are case-split by the contract')
        if isinstance(kind, str) and kind.startswith('const:'):
            return self.const(eval(kind[6:]))
        raise ValueError('kind %r' % (kind,))

    def get_attr(self, obj, name, st, node):
        h = self.contract.hooks.get('getattr')
        if h:
            r = h(self, obj, name, st, node)
            if r is not None:
                return r
        if obj.k == 'ref' and obj.oid == 'main' and name == 'elapsed_time':
            def now(eng, args, kwargs, st, node):
                v = eng.fresh_val('real', 'elapsed')
                st.trace.append(('time', v.z))
                return [(st, v)]
            return [(st, V('func', py=('spec', now)))]
        if obj.k == 'ref':
            fields = st.objs.setdefault(obj.oid, {})
            if name in fields:
                return [(st, fields[name])]
            if self.contract.field_kind(obj.cls, name) is not None:
                v = self.field_sym(obj.oid, obj.cls, name, node)
                fields[name] = v
                return [(st, v)]
            # method / class attribute
            m = self.find_method(obj.cls, name)
            if m is not None:
                bm = self.bound_method(m, obj)
                if bm.extra['mkind'] == 'property':
                    return self.call(bm, [], {}, st, node)
                return [(st, bm)]
            ca = self.find_class_attr(obj.cls, name)
            if ca is not None:
                return [(st, ca)]
            raise Unsupported(node, 'attribute %s.%s' % (obj.cls, name))
        if obj.k == 'class':
            oid = 'cls:' + obj.py
            fields = st.objs.setdefault(oid, {})
            if name in fields:
                return [(st, fields[name])]
            if self.contract.field_kind(obj.py, name) is not None:
                v = self.field_sym(oid, obj.py, name, node)
                fields[name] = v
                return [(st, v)]
            m = self.find_method(obj.py, name)
            if m is None and obj.extra and obj.extra.get('mod'):
                m = Module.get(self.repo, obj.extra['mod']).class_method(obj.py, name)
            if m is not None:
                return [(st, self.bound_method(m, obj))]
            ca = self.find_class_attr(obj.py, name)
            if ca is not None:
                return [(st, ca)]
            if obj.py in ('float', 'int') and name in ('__name__',):
                return [(st, vstr(obj.py))]
            raise Unsupported(node, 'class attribute %s.%s' % (obj.py, name))
        if obj.k == 'module':
            return [(st, self.module_attr(obj, name, node, st))]
        if obj.k == 'exc':
            if name in ('yield_value', 'terminal_value', 'value', 'args'):
                if obj.extra and name in obj.extra:
                    return [(st, obj.extra[name])]
                if obj.items:
                    return [(st, obj.items[0])]
        if obj.k == 'obj':
            if name in ('notify', 'notify_all', 'acquire', 'release', 'set', 'clear',
                        'start', 'join', 'add', 'remove', 'discard', 'append',
                        'debug', 'info', 'warning', 'error', 'critical', 'exception',
                        'wait', 'cancel', 'close', 'write'):
                oid = obj.oid
                def effect(eng, args, kwargs, st, node, _n=name, _o=oid):
                    if _o is None or not str(_o).endswith('_logger'):
                        st.trace.append(('call', str(_o), _n, tuple(args)))
                    h = eng.contract.hooks.get('effect')
                    if h:
                        r = h(eng, _o, _n, args, kwargs, st, node)
                        if r is not None:
                            return r
                    return [(st, NONE)]
                return [(st, V('func', py=('spec', effect)))]
            if name in ('is_alive', 'is_set', 'locked'):
                def q(eng, args, kwargs, st, node, _n=name, _o=obj.oid):
                    return [(st, vbool(z3.Bool('%s.%s!%d' % (_o, _n, next(eng.counter)))))]
                return [(st, V('func', py=('spec', q)))]
        if obj.k == 'any' and name == 'encode':
            outs = []
            for st1, isstr in self.branch(st, VV.tag_of(obj.z) == TAGS['str'], node):
                if isstr:
                    sv = self.any_as(obj, 'str')
                    st1.pc.extend(sv.extra['facts'])
                    outs.extend(self.get_attr(sv, 'encode', st1, node))
                else:
                    outs.append((st1, Raised(self.make_exc('AttributeError', node=node))))
            return outs
        if obj.k == 'any' and self.contract.opts.get('any_slices') and False:
            pass
        if obj.k == 'str' and name == 'encode':
            def enc(eng, args, kwargs, st, node, _s=obj):
                if _s.py is not None:
                    try:
                        return [(st, V('bytes', py=_s.py.encode('utf-8')))]
                    except UnicodeEncodeError:
                        return [(st, Raised(eng.make_exc('UnicodeEncodeError', node=node)))]
                # symbolic str: assumed encodable (no lone surrogates): listed assumption
                return [(st, V('bytes', py=None, extra={'len': _s.extra['u8'],
                                                        'has_nul': _s.extra['has_nul']}))]
            return [(st, V('func', py=('spec', enc)))]
        if obj.k == 'list' and name == 'append' and self.contract.opts.get('untracked_lists'):
            return [(st, V('func', py=('builtin', 'noop')))]
        if obj.k == 'bytes' and name == 'startswith':
            def sw(eng, args, kwargs, st, node):
                return [(st, vbool(eng.fresh('startswith', z3.BoolSort())))]
            return [(st, V('func', py=('spec', sw)))]
        if obj.k in ('int', 'real', 'bool', 'none', 'bytes', 'tuple', 'list') and name == 'encode':
            return [(st, Raised(self.make_exc('AttributeError', node=node)))]
        if obj.k == 'obj' and name in ('__name__', '__qualname__'):
            return [(st, V('str', z=self.fresh('name', z3.StringSort())))]
        if obj.k == 'obj' and not name.startswith('__'):
            # attribute of an opaque object: another opaque object
            sub = '%s.%s' % (obj.oid, name)
            return [(st, V('obj', oid=sub, z=z3.Const(sub, VV.Any)))]
        if obj.k == 'func' and name == '__name__':
            return [(st, vstr(obj.py[-1] if isinstance(obj.py[-1], str) else '?'))]
        raise Unsupported(node, 'attribute .%s of %r' % (name, obj))

    def find_method(self, clsname, name):
        mod = self.class_module(clsname)
        if mod is None:
            return None
        return mod.class_method(clsname, name)

    def class_module(self, clsname):
        if clsname in self.cur_mod.classes:
            return self.cur_mod
        if clsname in self.mod.classes:
            return self.mod
        for alias, imp in self.cur_mod.imports.items():
            if imp[0] == 'name' and imp[2] == clsname:
                return Module.get(self.repo, imp[1])
        cm = self.contract.class_modules.get(clsname)
        if cm:
            return Module.get(self.repo, cm)
        return None

    def find_class_attr(self, clsname, name):
        mod = self.class_module(clsname)
        if mod is None:
            return None
        if clsname not in mod.classes:
            return None
        r = mod.class_attr(clsname, name)
        if r is None:
            return None
        m2, expr = r
        saved = (self.cur_mod, self.cur_cls)
        self.cur_mod = m2
        try:
            rs = self.eval(expr, St())
        except Unsupported:
            return None
        finally:
            self.cur_mod, self.cur_cls = saved
        if len(rs) == 1 and not isinstance(rs[0][1], Raised):
            return rs[0][1]
        return None

    def bound_method(self, m, obj):
        mod, cdef, fdef = m
        kind = 'method'
        for d in fdef.decorator_list:
            if isinstance(d, ast.Name) and d.id == 'staticmethod':
                kind = 'static'
            elif isinstance(d, ast.Name) and d.id == 'classmethod':
                kind = 'classmethod'
            elif isinstance(d, ast.Name) and d.id == 'property':
                kind = 'property'
        return V('func', py=('method', mod.relpath, cdef.name, fdef.name), extra={'self': obj, 'mkind': kind})

    def module_attr(self, obj, name, node, st):
        p = obj.py
        if p == '<libsc3>':
            if name == 'main':
                return V('ref', cls='Main', oid='main')
            if name in ('RtMain', 'NrtMain'):
                return V('class', py=name)
            raise Unsupported(node, '_libsc3.%s' % name)
        if p.startswith('ext:'):
            ext = p[4:]
            return V('func', py=('ext', ext, name))
        m = Module.get(self.repo, p)
        if name in m.funcs:
            return V('func', py=('module', p, name))
        if name in m.classes:
            return V('class', py=name, extra={'mod': p})
        if name in m.assigns:
            saved = self.cur_mod
            self.cur_mod = m
            try:
                return self.global_name(name, node, st)
            finally:
                self.cur_mod = saved
        raise Unsupported(node, 'module attribute %s.%s' % (p, name))

    def set_attr(self, obj, name, v, st, node):
        h = self.contract.hooks.get('setattr')
        if h:
            r = h(self, obj, name, v, st, node)
            if r is not None:
                return r
        if obj.k == 'ref' and self.contract.field_kind(obj.cls, name) is None:
            m = self.find_method(obj.cls, name + '@setter')
            if m is not None:
                bm = self.bound_method(m, obj)
                bm.extra['mkind'] = 'method'
                mod_, cdef_, fdef_ = m
                bm.py = ('method', mod_.relpath, cdef_.name, fdef_.name + '@setter')
                outs = []
                for st1, r in self.call(bm, [v], {}, st, node):
                    if isinstance(r, Raised):
                        outs.append(('raise', st1, r.exc))
                    else:
                        outs.append(('next', st1))
                return outs
        if obj.k == 'ref':
            st.objs.setdefault(obj.oid, {})[name] = v
            st.ghost = dict(st.ghost)
            st.ghost.setdefault('written', set())
            st.ghost['written'] = set(st.ghost['written']) | {(obj.oid, name)}
            return [('next', st)]
        if obj.k == 'class':
            oid = 'cls:' + obj.py
            st.objs.setdefault(oid, {})[name] = v
            st.ghost = dict(st.ghost)
            st.ghost['written'] = set(st.ghost.get('written', set())) | {(oid, name)}
            return [('next', st)]
        raise Unsupported(node, 'attribute store on %r' % (obj,))

    def del_attr(self, obj, name, st, node):
        raise Unsupported(node, 'del attribute')

    # subscripts -----------------------------------------------------------
    def ex_Subscript(self, e, st):
        out = []
        for st1, obj in self.eval(e.value, st):
            if isinstance(obj, Raised):
                out.append((st1, obj))
                continue
            if isinstance(e.slice, ast.Slice):
                hs = self.contract.hooks.get('slice')
                rs = hs(self, obj, e.slice, st1, e) if hs else None
                out.extend(rs if rs is not None else self.get_slice(obj, e.slice, st1, e))
                continue
            for st2, idx in self.eval(e.slice, st1):
                if isinstance(idx, Raised):
                    out.append((st2, idx))
                    continue
                out.extend(self.get_item(obj, idx, st2, e))
        return out

    def get_item(self, obj, idx, st, node):
        h = self.contract.hooks.get('getitem')
        if h:
            r = h(self, obj, idx, st, node)
            if r is not None:
                return r
        if obj.k in ('tuple', 'list') and obj.items is not None and idx.k == 'int':
            iz = z3.simplify(idx.z)
            n = len(obj.items)
            if z3.is_int_value(iz):
                i = iz.as_long()
                if -n <= i < n:
                    return [(st, obj.items[i])]
                return [(st, Raised(self.make_exc('IndexError', node=node)))]
            # symbolic index into concrete list: fork over positions
            outs = []
            for i in range(n):
                for st2, side in self.branch(st, z3.Or(idx.z == i, idx.z == i - n), node):
                    if side:
                        outs.append((st2, obj.items[i]))
            for st2, side in self.branch(st, z3.Or(idx.z >= n, idx.z < -n), node):
                if side:
                    outs.append((st2, Raised(self.make_exc('IndexError', node=node))))
            return outs
        if obj.k == 'obj' and self.contract.opts.get('opaque_algebra'):
            return [(st, V('obj', oid='item!%d' % next(self.counter)))]
        if obj.k == 'cdict':
            if idx.k == 'str' and idx.py is not None:
                if idx.py in obj.py:
                    return [(st, obj.py[idx.py])]
                return [(st, Raised(self.make_exc('KeyError', node=node)))]
            raise Unsupported(node, 'symbolic key into a constant dict')
        if obj.k == 'any' and idx.k == 'int':
            t = VV.tag_of(obj.z)
            outs = []
            for st1, islist in self.branch(st, z3.Or(t == TAGS['list'], t == TAGS['tuple']), node):
                if islist:
                    outs.extend(self.get_item(V('dyn', obj.z, cls='list'), idx, st1, node))
                    continue
                for st2, isstr in self.branch(st1, z3.Or(t == TAGS['str'], t == TAGS['bytes']), node):
                    if isstr:
                        ch = self.fresh_val('any', 'char')
                        st2.pc.append(VV.tag_of(ch.z) == z3.If(t == TAGS['str'], TAGS['str'], TAGS['int']))
                        ln = VV.any_len(obj.z)
                        for st3, ok in self.branch(st2, z3.And(idx.z >= -ln, idx.z < ln), node):
                            outs.append((st3, ch if ok else Raised(self.make_exc('IndexError', node=node))))
                    else:
                        outs.append((st2, Raised(self.make_exc('TypeError', node=node))))
            return outs
        if obj.k in ('dyn', 'seq') and idx.k == 'int' and (obj.k == 'seq' or obj.cls in ('list', 'tuple')):
            ln = VV.any_len(obj.z) if obj.k == 'dyn' else obj.extra['len']
            if obj.k == 'dyn':
                st.pc.append(ln >= 0)
            outs = []
            i = idx.z
            for st1, ok in self.branch(st, z3.And(i >= -ln, i < ln), node):
                if not ok:
                    outs.append((st1, Raised(self.make_exc('IndexError', node=node))))
                    continue
                j = z3.If(i < 0, i + ln, i)
                if obj.k == 'dyn':
                    outs.append((st1, V('any', VV.any_item(obj.z, j))))
                else:
                    if not obj.extra.get('get'):
                        raise Unsupported(node, 'element of a sequence the contract gives no element function for')
                    outs.append((st1, obj.extra['get'](self, j, st1)))
            return outs
        raise Unsupported(node, 'subscript of %r' % (obj,))

    def get_slice(self, obj, sl, st, node):
        h = self.contract.hooks.get('getslice')
        if h:
            r = h(self, obj, sl, st, node)
            if r is not None:
                return r
        if obj.k in ('tuple', 'list') and obj.items is not None and sl.step is None:
            def cidx(x, default):
                if x is None:
                    return default
                rs = self.eval(x, st)
                if len(rs) == 1 and rs[0][1].k == 'int':
                    z = z3.simplify(rs[0][1].z)
                    if z3.is_int_value(z):
                        return z.as_long()
                raise Unsupported(node, 'symbolic slice bound on concrete sequence')
            lo = cidx(sl.lower, None)
            hi = cidx(sl.upper, None)
            return [(st, V(obj.k, items=obj.items[lo:hi]))]
        if obj.k == 'any' and sl.step is None and sl.upper is None:
            t = VV.tag_of(obj.z)
            outs = []
            for st1, islist in self.branch(st, t == TAGS['list'], node):
                if islist:
                    outs.extend(self.get_slice(V('dyn', obj.z, cls='list'), sl, st1, node))
                else:
                    outs.append((st1, Raised(self.make_exc('TypeError', node=node))))
            return outs
        if obj.k == 'dyn' and obj.cls in ('list', 'tuple') and sl.step is None and sl.upper is None \
                and isinstance(sl.lower, ast.Constant) and isinstance(sl.lower.value, int) and sl.lower.value >= 0:
            k = sl.lower.value
            o = obj.z
            ln = VV.any_len(o)
            st.pc.append(ln >= 0)
            return [(st, V('seq', extra={
                'len': z3.If(ln - k > 0, ln - k, 0), 'base': (o, k),
                'get': (lambda eng, i, st_, _o=o, _k=k: V('any', VV.any_item(_o, i + _k)))}))]
        if obj.k in ('dyn', 'seq') and sl.step is None and sl.lower is None and sl.upper is not None:
            outs = []
            for st1, m in self.eval(sl.upper, st):
                if isinstance(m, Raised):
                    outs.append((st1, m))
                    continue
                if m.k != 'int':
                    raise Unsupported(node, 'slice bound')
                sq = self.as_seq(obj, st1)
                l = sq.extra['len']
                mm = z3.If(m.z < 0, z3.If(m.z + l > 0, m.z + l, 0), z3.If(m.z < l, m.z, l))
                outs.append((st1, V('seq', extra={'len': mm, 'get': sq.extra.get('get')})))
            return outs
        if obj.k in ('dyn', 'seq') and sl.step is None and (obj.k == 'seq' or obj.cls in ('list', 'tuple')):
            # general lower/upper bounds with Python's clamping
            res = [(st, [])]
            for part in (sl.lower, sl.upper):
                nxt = []
                for st1, acc in res:
                    if isinstance(acc, Raised):
                        nxt.append((st1, acc))
                    elif part is None:
                        nxt.append((st1, acc + [None]))
                    else:
                        for st2, v in self.eval(part, st1):
                            if isinstance(v, Raised):
                                nxt.append((st2, v))
                            elif v.k != 'int':
                                raise Unsupported(node, 'slice bound %r' % (v,))
                            else:
                                nxt.append((st2, acc + [v.z]))
                res = nxt
            outs = []
            for st1, acc in res:
                if isinstance(acc, Raised):
                    outs.append((st1, acc))
                    continue
                sq = self.as_seq(obj, st1)
                l = sq.extra['len']

                def norm(x, l=l):
                    return z3.If(x < 0, z3.If(x + l > 0, x + l, 0), z3.If(x < l, x, l))
                lo = z3.IntVal(0) if acc[0] is None else norm(acc[0])
                hi = l if acc[1] is None else norm(acc[1])
                g = sq.extra.get('get')
                outs.append((st1, V('seq', extra={
                    'len': z3.If(hi - lo > 0, hi - lo, 0), 'slice_of': (sq.extra, lo),
                    'get': (None if g is None else
                            (lambda eng_, i, st_, _g=g, _lo=lo: _g(eng_, i + _lo, st_)))})))
            return outs
        if obj.k == 'bytes' and sl.step is None:
            L = self.bytes_len(obj)
            res = [(st, [])]
            for part in (sl.lower, sl.upper):
                nxt = []
                for st1, acc in res:
                    if isinstance(acc, Raised):
                        nxt.append((st1, acc))
                    elif part is None:
                        nxt.append((st1, acc + [None]))
                    else:
                        for st2, v in self.eval(part, st1):
                            if isinstance(v, Raised):
                                nxt.append((st2, v))
                            elif v.k != 'int':
                                nxt.append((st2, Raised(self.make_exc('TypeError', node=node))))
                            else:
                                nxt.append((st2, acc + [v.z]))
                res = nxt
            outs = []

            def norm(i):
                return z3.If(i < 0, z3.If(i + L > 0, i + L, 0), z3.If(i < L, i, L))
            for st1, acc in res:
                if isinstance(acc, Raised):
                    outs.append((st1, acc))
                    continue
                lo = norm(acc[0]) if acc[0] is not None else z3.IntVal(0)
                hi = norm(acc[1]) if acc[1] is not None else L
                ln = z3.If(hi - lo > 0, hi - lo, 0)
                outs.append((st1, V('bytes', py=None, extra={
                    'len': ln, 'has_nul': self.fresh('nul', z3.BoolSort()),
                    'slice_of': (obj, lo)})))
            return outs
        if obj.k == 'obj' and self.contract.opts.get('opaque_algebra'):
            outs = []
            for part in (sl.lower, sl.upper):
                if part is not None:
                    for st1, v in self.eval(part, st):
                        if isinstance(v, Raised):
                            outs.append((st1, v))
            return outs + [(st, V('obj', oid='slice!%d' % next(self.counter)))]
        h = self.contract.hooks.get('slice')
        if h:
            r = h(self, obj, sl, st, node)
            if r is not None:
                return r
        raise Unsupported(node, 'slice of %r' % (obj,))

    def set_item(self, obj, idx, v, st, node):
        h = self.contract.hooks.get('setitem')
        if h:
            r = h(self, obj, idx, v, st, node)
            if r is not None:
                return r
        raise Unsupported(node, 'subscript store on %r' % (obj,))

    def del_item(self, obj, idx, st, node):
        h = self.contract.hooks.get('delitem')
        if h:
            r = h(self, obj, idx, st, node)
            if r is not None:
                return r
        raise Unsupported(node, 'del subscript on %r' % (obj,))

    # calls -----------------------------------------------------------------
    def ex_Call(self, e, st):
        out = []
        for a in e.args:
            if isinstance(a, ast.Starred):
                break
        for st1, f in self.eval(e.func, st):
            if isinstance(f, Raised):
                out.append((st1, f))
                continue
            argexprs = []
            star_at = None
            for i, a in enumerate(e.args):
                if isinstance(a, ast.Starred):
                    star_at = i
                    argexprs.append(a.value)
                else:
                    argexprs.append(a)
            kwnames = [k.arg for k in e.keywords]
            if any(k is None for k in kwnames):
                # f(**kw): only to a ghost callee (contract-defined), which gets the mapping under the key '**'
                ghost = (f.k == 'func' and isinstance(f.py, tuple) and (f.py[0] == 'spec' or self.has_policy(f))) \
                    or (f.k == 'obj' and self.contract.hooks.get('call'))
                if not ghost or kwnames.count(None) > 1:
                    raise Unsupported(e, '**kwargs call')
                kwnames = ['**' if k is None else k for k in kwnames]
            for st2, vs in self.eval_seq(argexprs + [k.value for k in e.keywords], st1):
                if isinstance(vs, Raised):
                    out.append((st2, vs))
                    continue
                args = vs[:len(argexprs)]
                if star_at is not None:
                    sv = args[star_at]
                    items = self.static_items(sv)
                    if items is None:
                        if (f.k == 'func' and isinstance(f.py, tuple) and (f.py[0] == 'spec' or self.has_policy(f))) \
                                or (f.k == 'obj' and self.contract.hooks.get('call')):
                            # a ghost (contract-defined) callee gets the sequence as one marked argument
                            items = [V('star', extra={'seq': sv})]
                        else:
                            raise Unsupported(e, '*args of symbolic sequence')
                    args = args[:star_at] + list(items) + args[star_at + 1:]
                kwargs = dict(zip(kwnames, vs[len(argexprs):]))
                out.extend(self.call(f, args, kwargs, st2, e))
        return out

    def call(self, f, args, kwargs, st, node):
        h = self.contract.hooks.get('call')
        if h:
            r = h(self, f, args, kwargs, st, node)
            if r is not None:
                return r
        if f.k == 'obj' and self.contract.opts.get('opaque_algebra'):
            # calling an opaque object: opaque result, or some Exception
            bad = st.fork()
            st.trace.append(('opaque-call', f.oid))
            return [(st, V('obj', oid='res!%d' % next(self.counter))),
                    (bad, Raised(self.make_exc('ValueError', node=node)))]
        if f.k == 'class':
            return self.call_class(f, args, kwargs, st, node)
        if f.k != 'func':
            raise Unsupported(node, 'call of %r' % (f,))
        kind = f.py[0]
        if kind == 'builtin':
            from . import lib
            return lib.call_builtin(self, f.py[1], args, kwargs, st, node)
        if kind == 'ext':
            from . import lib
            return lib.call_ext(self, f.py[1], f.py[2], args, kwargs, st, node)
        if kind == 'module':
            qual = '%s::%s' % (f.py[1], f.py[2])
            return self.call_repo(qual, f, None, args, kwargs, st, node)
        if kind == 'method':
            qual = '%s::%s.%s' % (f.py[1], f.py[2], f.py[3])
            selfv = f.extra.get('self') if f.extra else None
            mk = f.extra.get('mkind') if f.extra else 'method'
            if mk == 'static':
                selfv = None
            elif mk == 'classmethod':
                if selfv is not None and selfv.k == 'ref':
                    selfv = V('class', py=selfv.cls)
            return self.call_repo(qual, f, selfv, args, kwargs, st, node)
        if kind == 'closure':
            return self.call_closure(f, args, kwargs, st, node)
        if kind == 'spec':
            return f.py[1](self, args, kwargs, st, node)
        raise Unsupported(node, 'call kind %s' % kind)

    def call_class(self, f, args, kwargs, st, node):
        name = f.py
        from . import lib
        if name in ('int', 'float', 'bool', 'str', 'list', 'tuple', 'type', 'bytes', 'set', 'dict'):
            return lib.call_builtin(self, name, args, kwargs, st, node)
        if name in EXC_BASES or self.is_exception_class(name, f):
            extra = {}
            return [(st, V('exc', cls=name, items=list(args),
                           extra={'line': getattr(node, 'lineno', None)}))]
        h = self.contract.hooks.get('construct')
        if h:
            r = h(self, f, args, kwargs, st, node)
            if r is not None:
                return r
        if name in self.contract.opts.get('construct', ()):
            m = self.find_method(name, '__init__')
            if m is None and f.extra and f.extra.get('mod'):
                m = Module.get(self.repo, f.extra['mod']).class_method(name, '__init__')
            if m is not None:
                oid = 'new!%s!%d' % (name, next(self.counter))
                selfv = V('ref', cls=name, oid=oid)
                st.objs[oid] = {}
                bm = self.bound_method(m, selfv)
                outs = []
                for st1, r in self.call(bm, list(args), dict(kwargs), st, node):
                    outs.append((st1, r if isinstance(r, Raised) else selfv))
                return outs
        nt = self.namedtuple_fields(f)
        if nt is not None:
            mod_, fields = nt
            oid = 'new!%s!%d' % (name, next(self.counter))
            vals = {}
            pos = list(args)
            for i, (fname, dflt) in enumerate(fields):
                if i < len(pos):
                    vals[fname] = pos[i]
                elif fname in kwargs:
                    vals[fname] = kwargs[fname]
                elif dflt is not None:
                    saved = self.cur_mod
                    self.cur_mod = mod_
                    try:
                        vals[fname] = self.eval(dflt, St())[0][1]
                    finally:
                        self.cur_mod = saved
                else:
                    return [(st, Raised(self.make_exc('TypeError', node=node)))]
            if len(pos) > len(fields):
                return [(st, Raised(self.make_exc('TypeError', node=node)))]
            st.objs[oid] = vals
            return [(st, V('ref', cls=name, oid=oid, extra={'namedtuple': [f_ for f_, _ in fields]}))]
        if name in self.contract.opts.get('opaque_construct', ()):
            st.trace.append(('new', name, tuple(args)))
            return [(st, V('obj', oid='new!%s!%d' % (name, next(self.counter))))]
        raise Unsupported(node, 'constructor %s' % name)

    def namedtuple_fields(self, f):
        modp = (f.extra or {}).get('mod')
        mod = Module.get(self.repo, modp) if modp else self.class_module(f.py)
        if mod is None or f.py not in mod.classes:
            return None
        c = mod.classes[f.py]
        ok = any((isinstance(b, ast.Attribute) and b.attr == 'NamedTuple') or
                 (isinstance(b, ast.Name) and b.id == 'NamedTuple') for b in c.bases)
        if not ok:
            return None
        fields = []
        for n in c.body:
            if isinstance(n, ast.AnnAssign) and isinstance(n.target, ast.Name):
                fields.append((n.target.id, n.value))
        return mod, fields

    def is_exception_class(self, name, f=None):
        n = name
        mod = self.cur_mod
        if f is not None and f.extra and f.extra.get('mod'):
            mod = Module.get(self.repo, f.extra['mod'])
        for _ in range(10):
            if n in EXC_BASES:
                return True
            b = mod.exc_base(n)
            if b is None:
                return False
            n = b
        return False

    def call_repo(self, qual, f, selfv, args, kwargs, st, node):
        """Call of a repository function: contract call, inline, or opaque."""
        c = self.registry.get(qual)
        short = qual.split('::')[1]
        policy = self.contract.callee_policy(qual)
        if policy == 'inline' or (c is None and policy is None and self.contract.inline_default
                                   and self.inline_depth < 6):
            return self.inline_call(qual, f, selfv, args, kwargs, st, node)
        if c is not None and policy in (None, 'contract'):
            self.assumed_contracts.add(qual)
            return c.apply_at_call(self, selfv, args, kwargs, st, node)
        if policy == 'opaque':
            self.opaque_calls.add(qual)
            kind = self.contract.opaque_kinds.get(qual, self.contract.opaque_kinds.get(short, 'none'))
            st.trace.append(('call', short, tuple(args)))
            return [(st, self.fresh_val(kind, short) if kind != 'none' else NONE)]
        if callable(policy):
            # abstracted by the contract (ghost event / model written in the contract file): reported
            self.opaque_calls.add(qual + ' (contract-defined model)')
            return policy(self, selfv, args, kwargs, st, node)
        if c is None and policy is None and qual.split('::')[0] == self.contract.file \
                and self.inline_depth < 6:
            # a helper of the same file the contract says nothing about (typically one that a
            # change has just introduced): its real body is executed in place, which is exact
            return self.inline_call(qual, f, selfv, args, kwargs, st, node)
        raise Unsupported(node, 'call of %s: no contract and not inlinable' % qual)

    def inline_call(self, qual, f, selfv, args, kwargs, st, node):
        relpath, name = qual.split('::')
        mod = Module.get(self.repo, relpath)
        fdef, clsname = mod.find(name)
        self.inlined.add(qual)
        # transparent decorators: scbuiltin.unop/binop/narop on numeric operands
        params = self.bind_params(fdef, selfv, args, kwargs, st, node, mod, clsname)
        if isinstance(params, Raised):
            return [(st, params)]
        saved_env = st.env
        saved = (self.cur_mod, self.cur_cls)
        self.cur_mod, self.cur_cls = mod, clsname
        self.inline_depth += 1
        if self.inline_depth > 12:
            raise Unsupported(node, 'inline depth (recursion?) at %s' % qual)
        st.env = params
        self.local_stack.append(self.locals_of(fdef))
        self.frame_counter += 1
        self.frame_ids.append(self.frame_counter)
        try:
            self.number_loops(fdef)
            outs = self.exec_block(fdef.body, st)
        finally:
            self.frame_ids.pop()
            self.local_stack.pop()
            self.inline_depth -= 1
            self.cur_mod, self.cur_cls = saved
        res = []
        for o in outs:
            o[1].env = dict(saved_env)
            if o[0] == 'next':
                res.append((o[1], NONE))
            elif o[0] == 'ret':
                res.append((o[1], o[2]))
            elif o[0] == 'raise':
                res.append((o[1], Raised(o[2])))
            else:
                raise Unsupported(node, 'break/continue escaped function')
        return res

    def has_policy(self, f):
        """a repository function the contract replaces by a ghost call (policy given as a callable)"""
        try:
            if f.py[0] == 'module':
                quals = ['%s::%s' % (f.py[1], f.py[2]), f.py[2]]
            elif f.py[0] == 'method':
                quals = ['%s::%s.%s' % (f.py[1], f.py[2], f.py[3]), '%s.%s' % (f.py[2], f.py[3])]
            else:
                return False
        except Exception:
            return False
        return any(callable(self.contract.policies.get(q)) for q in quals)

    def call_closure(self, f, args, kwargs, st, node):
        _, fdef, cenv, mod, clsname = f.py
        params = self.bind_params(fdef, None, args, kwargs, st, node, mod, clsname)
        if isinstance(params, Raised):
            return [(st, params)]
        # called from the very function body that defined it: free variables are the caller's CURRENT
        # locals (Python closes over variables, not values), and names declared `nonlocal` are written back
        at_home = bool(f.extra) and f.extra.get('home') == self.frame_ids[-1]
        nonlocals = [x for n_ in ast.walk(fdef) if isinstance(n_, ast.Nonlocal) for x in n_.names]
        if nonlocals and not at_home:
            raise Unsupported(node, 'closure with nonlocal state called away from its defining function')
        env = dict(st.env) if at_home else dict(cenv)
        env.update(params)
        saved_env = st.env
        saved = (self.cur_mod, self.cur_cls)
        self.cur_mod, self.cur_cls = mod, clsname
        st.env = env
        self.inline_depth += 1
        self.local_stack.append(self.locals_of(fdef) - set(cenv))
        self.frame_counter += 1
        self.frame_ids.append(self.frame_counter)
        try:
            self.number_loops(fdef)
            outs = self.exec_block(fdef.body, st)
        finally:
            self.frame_ids.pop()
            self.local_stack.pop()
            self.inline_depth -= 1
            self.cur_mod, self.cur_cls = saved
        res = []
        for o in outs:
            back = dict(saved_env)
            for x in nonlocals:
                if x in o[1].env:
                    back[x] = o[1].env[x]
            o[1].env = back
            if o[0] == 'next':
                res.append((o[1], NONE))
            elif o[0] == 'ret':
                res.append((o[1], o[2]))
            elif o[0] == 'raise':
                res.append((o[1], Raised(o[2])))
        return res

    def bind_params(self, fdef, selfv, args, kwargs, st, node, mod, clsname):
        a = fdef.args
        names = [x.arg for x in a.posonlyargs + a.args]
        env = {}
        pos = list(args)
        is_static = any(isinstance(d, ast.Name) and d.id == 'staticmethod'
                        for d in fdef.decorator_list)
        if clsname is not None and not is_static and selfv is not None:
            pos = [selfv] + pos
        if len(pos) > len(names) and a.vararg is None:
            return Raised(self.make_exc('TypeError', node=node))
        for n, v in zip(names, pos):
            env[n] = v
        if a.vararg is not None:
            env[a.vararg.arg] = vtuple(pos[len(names):])
        defaults = a.defaults
        dnames = names[len(names) - len(defaults):] if defaults else []
        for n in names[len(pos):]:
            if n in kwargs:
                env[n] = kwargs[n]
            elif n in dnames:
                d = defaults[dnames.index(n)]
                saved = (self.cur_mod, self.cur_cls)
                self.cur_mod, self.cur_cls = mod, clsname
                try:
                    rs = self.eval(d, St())
                finally:
                    self.cur_mod, self.cur_cls = saved
                env[n] = rs[0][1]
            else:
                return Raised(self.make_exc('TypeError', node=node))
        for k in kwargs:
            if k not in names and not a.kwarg:
                kwn = [x.arg for x in a.kwonlyargs]
                if k not in kwn:
                    return Raised(self.make_exc('TypeError', node=node))
                env[k] = kwargs[k]
        for x, d in zip(a.kwonlyargs, a.kw_defaults):
            if x.arg not in env:
                if d is None:
                    return Raised(self.make_exc('TypeError', node=node))
                env[x.arg] = self.eval(d, St())[0][1]
        return env

    def ex_Lambda(self, e, st):
        fdef = ast.FunctionDef(name='<lambda>', args=e.args,
                               body=[ast.Return(value=e.body)], decorator_list=[])
        ast.copy_location(fdef, e)
        ast.fix_missing_locations(fdef)
        return [(st, V('func', py=('closure', fdef, dict(st.env), self.cur_mod, self.cur_cls)))]

    def ex_ListComp(self, e, st):
        if len(e.generators) != 1:
            raise Unsupported(e, 'comprehension shape')
        g = e.generators[0]
        if g.ifs:
            # a filter: only through the contract's model of it (hook), never by the generic map
            h = self.contract.hooks.get('listcomp')
            if h:
                out = []
                for st1, it in self.eval(g.iter, st):
                    if isinstance(it, Raised):
                        out.append((st1, it))
                        continue
                    r = h(self, e, it, st1, e)
                    if r is None:
                        raise Unsupported(e, 'comprehension shape')
                    out.extend(r)
                return out
            raise Unsupported(e, 'comprehension shape')
        out = []
        for st1, it in self.eval(g.iter, st):
            if isinstance(it, Raised):
                out.append((st1, it))
                continue
            items = self.static_items(it)
            if items is None:
                h = self.contract.hooks.get('listcomp')
                r = h(self, e, it, st1, e) if h else None
                if r is not None:
                    out.extend(r)
                    continue
                m = self.map_comprehension(e, g, it, st1)
                if m is not None:
                    out.append((st1, m))
                    continue
                raise Unsupported(e, 'comprehension over symbolic sequence')
            res = [(st1, [])]
            for item in items:
                nxt = []
                for st2, acc in res:
                    if isinstance(acc, Raised):
                        nxt.append((st2, acc))
                        continue
                    saved = dict(st2.env)
                    for ao in self.assign(g.target, item, st2):
                        for st3, v in self.eval(e.elt, ao[1]):
                            nxt.append((st3, v if isinstance(v, Raised) else acc + [v]))
                res = nxt
            for st2, acc in res:
                out.append((st2, acc if isinstance(acc, Raised) else self.new_list(acc, st2)))
        return out

    ex_GeneratorExp = ex_ListComp

    def ex_DictComp(self, e, st):
        # only through the contract's model of the dictionary that is built
        h = self.contract.hooks.get('dictcomp')
        if h:
            r = h(self, e, st)
            if r is not None:
                return r
        raise Unsupported(e, 'dict comprehension')

    def box_any(self, v, facts, node):
        """Any-sorted term equal to the scalar value v (facts: what the solver must know about it)"""
        if v.k == 'any':
            return v.z
        if v.extra and v.extra.get('any') is not None and v.k in ('int', 'real', 'bool', 'str'):
            return v.extra['any']
        if v.k == 'none':
            z = z3.Const('boxed.None', VV.Any)
            facts.append(VV.tag_of(z) == TAGS['none'])
            return z
        if v.k == 'int':
            z = z3.Function('boxed.int', z3.IntSort(), VV.Any)(v.z)
            facts.extend([VV.tag_of(z) == TAGS['int'], VV.any_int(z) == v.z])
            return z
        if v.k == 'real':
            z = z3.Function('boxed.float', z3.RealSort(), VV.Any)(v.z)
            facts.extend([VV.tag_of(z) == TAGS['float'], VV.any_real(z) == v.z])
            return z
        if v.k == 'bool':
            z = z3.Function('boxed.bool', z3.BoolSort(), VV.Any)(v.z)
            facts.extend([VV.tag_of(z) == TAGS['bool'], VV.any_bool(z) == v.z])
            return z
        if v.k == 'str' and v.py is not None:
            z = z3.Const('boxed.str_%s' % v.py.encode().hex(), VV.Any)
            facts.extend([VV.tag_of(z) == TAGS['str'], self.str_is(v.py)(z)])
            return z
        raise Unsupported(node, 'comprehension element of kind %s on one path and another kind on another' % v.k)

    def map_comprehension(self, e, g, it, st):
        """[elt for target in <symbolic sequence>] with an element expression that has no effect and
        cannot raise: a sequence of the same length whose i-th element is the expression evaluated on
        the source's i-th element, in the environment of this moment.  Checked here for an arbitrary
        index (a fresh constant), so "no effect, no exception" holds for every element."""
        sq = it if it.k == 'seq' else (self.as_seq(it, st) if it.k == 'dyn' else None)
        if sq is None or sq.k != 'seq' or not sq.extra.get('get'):
            return None
        env0 = dict(st.env)
        objs_c = {k: dict(v) for k, v in st.objs.items()}         # object fields as they are NOW
        src = sq.extra['get']
        ln = sq.extra['len']

        def same(a, b):
            if a is b:
                return True
            if a.k != b.k:
                return False
            if a.z is not None and b.z is not None:
                return a.z.eq(b.z)
            return a.oid is not None and a.oid == b.oid

        def changed(objs1, objs0):
            for oid, flds in objs1.items():
                for f, v in flds.items():
                    v0 = objs0.get(oid, {}).get(f)
                    if v0 is None:
                        # first read of a field: its pre-state symbol, created on demand
                        try:
                            cls = next((x.cls for x in env0.values() if x.k == 'ref' and x.oid == oid), None)
                            v0 = self.field_sym(oid, cls, f, e) if cls else None
                        except Exception:
                            v0 = None
                        if v0 is None:
                            return True
                    if not same(v, v0):
                        return True
            return False

        def element(eng, i, st_):
            st2 = st_.fork()
            st2.env = dict(env0)
            st2.objs = {k: dict(v) for k, v in objs_c.items()}
            n_tr, n_pc = len(st2.trace), len(st2.pc)
            objs0 = {k: dict(v) for k, v in st2.objs.items()}
            item = src(eng, i, st2)
            outs = []
            for ao in eng.assign(g.target, item, st2):
                if ao[0] != 'next':
                    raise Unsupported(e, 'comprehension target')
                for st3, v in eng.eval(e.elt, ao[1]):
                    if isinstance(v, Raised):
                        raise Unsupported(e, 'comprehension element may raise')
                    if len(st3.trace) != n_tr or changed(st3.objs, objs0):
                        raise Unsupported(e, 'comprehension element with an effect')
                    outs.append((list(st3.pc[n_pc:]), v))
            if not outs:
                raise Unsupported(e, 'comprehension element without a feasible path')
            if len(outs) == 1:
                st_.pc.extend(outs[0][0])
                return outs[0][1]
            cases = []
            r = z3.Const('elt!%d' % next(eng.counter), VV.Any)
            for pcs, v in outs:
                facts = []
                z = eng.box_any(v, facts, e)
                cases.append(z3.And(*(pcs + facts + [r == z])))
            st_.pc.append(z3.Or(*cases))
            return V('any', r)

        k = z3.Int('comp.k!%d' % next(self.counter))
        probe = st.fork()
        probe.pc.extend([k >= 0, k < ln])
        element(self, k, probe)                       # raises Unsupported unless pure for every index
        return V('seq', extra={'len': ln, 'get': element, 'facts': [ln >= 0]})

    def ex_Yield(self, e, st):
        """`yield v` in a generator body: v is appended to the ghost trace, the
        value sent in is unknown (only when the contract opts in)"""
        if not self.contract.opts.get('generator_trace'):
            raise Unsupported(e, 'generator')
        out = []
        rs = self.eval(e.value, st) if e.value is not None else [(st, NONE)]
        for st1, v in rs:
            if isinstance(v, Raised):
                out.append((st1, v))
                continue
            sent = V('obj', oid='sent!%d' % next(self.counter))
            st1.trace.append(('yield', v, sent))          # (what is yielded, what the generator is then handed)
            self.yield_havoc(st1)
            out.append((st1, sent))
        return out

    def ex_YieldFrom(self, e, st):
        """`r = yield from g` in a generator body (contract opts in): one ghost event
        ('yield-from', g); what g yields is g's business (its own contract), r is the value g
        returns: unknown here.  An exception raised inside g is not modelled."""
        if not self.contract.opts.get('generator_trace'):
            raise Unsupported(e, 'yield from')
        out = []
        for st1, v in self.eval(e.value, st):
            if isinstance(v, Raised):
                out.append((st1, v))
                continue
            r = V('obj', oid='returned!%d' % next(self.counter))
            st1.trace.append(('yield-from', v, r))
            self.yield_havoc(st1)
            out.append((st1, r))
        return out

    def yield_havoc(self, st):
        """while a generator is suspended other code runs: the fields the contract lists under
        opts['yield_havoc'] = [(object name, field)] hold unknown values afterwards"""
        for objname, field in self.contract.opts.get('yield_havoc', ()):
            ref = st.env.get(objname)
            if ref is None or ref.k != 'ref':
                continue
            kind = self.contract.field_kind(ref.cls, field)
            st.objs.setdefault(ref.oid, {})[field] = self.sym_of_kind(
                kind, '%s.%s@resumed!%d' % (ref.oid, field, next(self.counter)))

    def ex_Await(self, e, st):
        raise Unsupported(e, 'await')

    # ------------------------------------------------------------------
    def number_loops(self, fdef):
        if not hasattr(self, 'loop_ordinals'):
            self.loop_ordinals = {}
        n = 0
        for node in ast.walk(fdef):
            if isinstance(node, (ast.For, ast.While)):
                pass
        # document order
        def visit(body):
            nonlocal n
            for s in body:
                if isinstance(s, (ast.For, ast.While)):
                    self.loop_ordinals.setdefault(id(s), n)
                    n += 1
                flds = ('body', 'orelse', 'finalbody')
                if isinstance(s, ast.If) and isinstance(s.test, ast.UnaryOp) and isinstance(s.test.op, ast.Not):
                    # `if not t: B else: A` is numbered like `if t: A else: B`: loop contracts are keyed by ordinal and
                    # exchanging the branches under a negated test must not exchange the contracts
                    flds = ('orelse', 'body')
                for fld in flds:
                    visit(getattr(s, fld, []) or [])
                for h in getattr(s, 'handlers', []) or []:
                    visit(h.body)
        visit(fdef.body)

    # ------------------------------------------------------------------
    def make_ctx(self, st, result=None, exc=None):
        from .spec import Ctx
        return Ctx(self, self.entry_params, {}, st.objs, result=result,
                   exc=exc, trace=st.trace, st=st)
