"""Small remaining pieces of sc3/base/stream.py (C11):

  Routine.run(func, clock, quant)   ONE routine is made from the function and played once on (clock, quant); it is the result
  Condition.test (getter)           a callable test is called - once - and its answer returned; any other value is the answer
  FunctionStream.next(inval)        the function is called ONCE with as many of (inval, data) as it takes: two, one or none
  FunctionStream.reset()            the reset function is called ONCE, with the data iff it takes an argument
"""
import z3
from vf.pyvc.spec import contract
from vf.pyvc.values import *
from vf.pyvc.engine import Raised, Unsupported

F = 'sc3/base/stream.py'


def rr_construct(eng, f, args, kwargs, st, node):
    if f.k == 'class' and f.py == 'Routine':
        r = V('obj', oid='the-routine')
        st.trace.append(('made', tuple(args), dict(kwargs), r))
        return [(st, r)]
    return None


def rr_getattr(eng, obj, name, st, node):
    if obj.k == 'obj' and obj.oid == 'the-routine' and name == 'play':
        def play(eng, a, kw, st, node, _o=obj):
            st.trace.append(('played', _o, tuple(a), dict(kw)))
            return [(st, NONE)]
        return [(st, V('func', py=('spec', play)))]
    return None


def run_post(c):
    made = [e for e in c.trace if e[0] == 'made']
    played = [e for e in c.trace if e[0] == 'played']
    ok = (len(made) == 1 and len(played) == 1 and len(made[0][1]) == 1 and made[0][1][0] is c._params['func'] and not made[0][2]
          and played[0][1] is made[0][3] and len(played[0][2]) == 2 and played[0][2][0] is c._params['clock']
          and played[0][2][1] is c._params['quant'] and not played[0][3] and c.resultv is made[0][3])
    return z3.BoolVal(bool(ok))


contract(F, 'Routine.run', props=('C11',), params={'cls': 'cls', 'func': 'obj', 'clock': 'obj', 'quant': 'obj'},
         ensures=[('one-routine-of-the-function,played-once-on-(clock,quant),returned', run_post)],
         fields={'Routine': {}}, class_modules={'Routine': F}, hooks={'construct': rr_construct, 'getattr': rr_getattr},
         modifies=[], native=False)


# ---- Condition.test ---------------------------------------------------------------------------------------------------------------
IS_CALLABLE = z3.Bool('test_is_callable')


def ct_builtin(eng, name, args, kwargs, st, node):
    if name == 'callable' and len(args) == 1 and args[0].k == 'obj' and args[0].oid == 'self._test':
        return [(st, vbool(IS_CALLABLE))]
    return None


def ct_call(eng, f, args, kwargs, st, node):
    if f.k == 'obj' and f.oid == 'self._test':
        r = V('obj', oid='answer')
        st.trace.append(('test-called', tuple(args), dict(kwargs), r))
        return [(st, r)]
    return None


def test_post(c):
    calls = [e for e in c.trace if e[0] == 'test-called']
    r = c.resultv
    if calls:
        return z3.And(IS_CALLABLE, z3.BoolVal(len(calls) == 1 and not calls[0][1] and not calls[0][2] and r is calls[0][3]))
    return z3.And(z3.Not(IS_CALLABLE), z3.BoolVal(r.k == 'obj' and r.oid == 'self._test'))


contract(F, 'Condition.test', props=('C11',), params={'self': 'self'},
         ensures=[('a-callable-test-is-asked-once;any-other-value-is-the-answer', test_post)],
         fields={'Condition': {'_test': 'obj'}}, class_modules={'Condition': F},
         hooks={'builtin_first': ct_builtin, 'call': ct_call}, modifies=[], native=False)


# ---- FunctionStream.next / reset -----------------------------------------------------------------------------------------------------
def fs_call(which):
    def hook(eng, f, args, kwargs, st, node):
        if f.k == 'obj' and f.oid == 'self.' + which:
            r = V('obj', oid='value')
            st.trace.append(('called', which, tuple(args), dict(kwargs), r))
            return [(st, r)]
        return None
    return hook


def fs_next_post(c):
    calls = [e for e in c.trace if e[0] == 'called']
    if len(calls) != 1 or calls[0][3] or c.resultv is not calls[0][4]:
        return z3.BoolVal(False)
    a = calls[0][2]
    n = c.pre.self._next_nargs
    inval = c._params['inval']
    data = lambda v: v.k == 'obj' and v.oid == 'self.data'
    if len(a) == 2:
        return z3.And(n > 1, z3.BoolVal(a[0] is inval and data(a[1])))
    if len(a) == 1:
        return z3.And(n == 1, z3.BoolVal(a[0] is inval))
    return z3.And(n <= 0, z3.BoolVal(len(a) == 0))


FSF = {'next_func': 'obj', 'reset_func': 'obj', 'data': 'obj', '_next_nargs': 'int', '_reset_nargs': 'int'}
contract(F, 'FunctionStream.next', props=('C11',), params={'self': 'self', 'inval': 'obj'},
         ensures=[('the-function-called-once-with-as-many-of-(inval,data)-as-it-takes;its-value-returned', fs_next_post)],
         fields={'FunctionStream': FSF}, class_modules={'FunctionStream': F}, hooks={'call': fs_call('next_func')},
         modifies=[], native=False)


def fs_reset_post(c):
    calls = [e for e in c.trace if e[0] == 'called']
    if len(calls) != 1 or calls[0][3]:
        return z3.BoolVal(False)
    a = calls[0][2]
    n = c.pre.self._reset_nargs
    if len(a) == 1:
        return z3.And(n > 0, z3.BoolVal(a[0].k == 'obj' and a[0].oid == 'self.data'))
    return z3.And(n <= 0, z3.BoolVal(len(a) == 0))


contract(F, 'FunctionStream.reset', props=('C11',), params={'self': 'self'},
         ensures=[('the-reset-function-called-once,with-the-data-iff-it-takes-an-argument', fs_reset_post)],
         fields={'FunctionStream': FSF}, class_modules={'FunctionStream': F}, hooks={'call': fs_call('reset_func')},
         modifies=[], native=False)
