"""Exhaustive table obligations for operator opcodes (C01, C15):
sc3/synth/_specialindex.py against Opcodes.h, and the selectors that
AbstractObject passes for each operator method."""
import ast
import os
from vf.pyvc.spec import table
from vf.specs import opcodes as OP


def _spindex_rows(repo):
    from sc3.synth import _specialindex as si
    rows = []
    for arity, names, idx in (('unary', OP.UNARY, OP.UNARY_INDEX), ('binary', OP.BINARY, OP.BINARY_INDEX)):
        for n in names:
            got = si.special_index(n)
            # a few selector names exist with both arities in sclang; sc3 looks
            # unary names up first, so only demand the number for its own arity
            if arity == 'binary' and n in OP.UNARY_INDEX:
                continue
            rows.append(('special_index(%r)' % n, got == idx[n], {'got': got, 'want': idx[n]}))
            rows.append(('sc_opname(%r)' % n, si.sc_opname(n) == n, {'got': si.sc_opname(n)}))
            rows.append(('sc_opname_from_index(%d,%s)' % (idx[n], arity),
                         si.sc_opname_from_index(idx[n], arity) == n,
                         {'got': si.sc_opname_from_index(idx[n], arity), 'want': n}))
    for alias, target in OP.PY_UNARY.items():
        got = si.special_index(alias)
        rows.append(('alias unary %s -> %s' % (alias, target), got == OP.UNARY_INDEX[target],
                     {'got': got, 'want': OP.UNARY_INDEX[target]}))
    for alias, target in OP.PY_BINARY.items():
        if alias in OP.PY_UNARY or alias in OP.UNARY_INDEX:
            continue
        got = si.special_index(alias)
        rows.append(('alias binary %s -> %s' % (alias, target), got == OP.BINARY_INDEX[target],
                     {'got': got, 'want': OP.BINARY_INDEX[target]}))
    rows.append(('unknown operator -> -1', si.special_index('no_such_operator') == -1, {}))
    return rows


table('opcode-table', props=('C01', 'C15'), rows=_spindex_rows,
      reads=('sc3/synth/_specialindex.py',),
      note='every operator name and Python alias resolves to its Opcodes.h number; inverse lookup')


def _selector_rows(repo):
    """AST obligation on sc3/base/absobject.py: each operator method passes a
    selector whose __name__ the opcode table maps to the operator the method
    name denotes."""
    from sc3.synth import _specialindex as si
    import operator
    path = os.path.join(repo, 'sc3/base/absobject.py')
    tree = ast.parse(open(path).read())
    cls = [n for n in tree.body if isinstance(n, ast.ClassDef) and n.name == 'AbstractObject'][0]
    rows = []
    for f in cls.body:
        if not isinstance(f, ast.FunctionDef):
            continue
        rets = [n for n in ast.walk(f) if isinstance(n, ast.Return) and isinstance(n.value, ast.Call)]
        if len(rets) != 1:
            continue
        call = rets[0].value
        if not (isinstance(call.func, ast.Attribute) and call.func.attr in
                ('_compose_unop', '_compose_binop', '_rcompose_binop') and call.args):
            continue
        sel = call.args[0]
        if not (isinstance(sel, ast.Attribute) and isinstance(sel.value, ast.Name)):
            continue
        if sel.value.id == 'operator':
            selname = getattr(operator, sel.attr).__name__
        else:
            selname = sel.attr           # bi.<name>: scbuiltin keeps func.__name__
        unary = call.func.attr == '_compose_unop'
        spec = OP.PY_UNARY if unary else OP.PY_BINARY
        idx = OP.UNARY_INDEX if unary else OP.BINARY_INDEX
        mname = f.name
        if mname not in spec:
            continue        # method not an opcode operator by the spec table
        want = idx[spec[mname]]
        got = si.special_index(selname)
        rows.append(('AbstractObject.%s passes %s' % (mname, selname), got == want,
                     {'selector': selname, 'got': got, 'want': want, 'line': f.lineno}))
        # reflected forms must really be reflected
        if mname.startswith('__r') and mname[3:] != 'ound__' and ('__' + mname[3:]) in spec \
                and not unary:
            rows.append(('AbstractObject.%s is reflected' % mname,
                         call.func.attr == '_rcompose_binop', {'call': call.func.attr}))
    return rows


table('operator-selectors', props=('C01', 'C15'), rows=_selector_rows,
      reads=('sc3/base/absobject.py', 'sc3/synth/_specialindex.py'))
