"""C19 -- envelopes encode to the server format and evaluate consistently.

Bounded run-time contracts on the real ``sc3.synth.envelope.Env`` against the
reference ``vf/specs/env.py`` (written from the SuperCollider Env help):

shape-names   every documented shape name is accepted and maps to the server's
              shape number; unknown names are refused with ValueError
format        Env(levels, times, curves, release, loop)._envgen_format() ==
              [level0, n, rel|-99, loop|-99] ++ n x [level, time, shape, curve]
              with times/curves wrapped to n (single and multichannel levels)
constructors  adsr/asr/dadsr/perc/linen/triangle/sine/cutoff/step/pairs/xyc
              give their documented breakpoints; all-default calls succeed
at            Env._at(t): level at the breakpoints, between the neighbouring
              levels inside a segment, last level after the end, value at 0
              before 0
envgen        the constant inputs of an EnvGen unit (after its five fixed
              arguments) read back from the definition bytes equal
              _envgen_format() rounded to float32

    /venv/bin/python -m vf.drivers.C19 --tier quick --seed 0 --out f.json
"""
import copy
import math

from vf.common import Report, driver_main, wants, silence_sc3_logging
from vf.specs import env as ref
from vf.specs import scgf

DOC_NAMES = ['step', 'lin', 'linear', 'exp', 'exponential', 'sin', 'sine',
             'wel', 'welch', 'sqr', 'squared', 'cub', 'cubed', 'hold']
UNKNOWN_NAMES = ['foo', '', 'Lin', 'LIN', 'linn', 'li', 'sqrt', 'square',
                 'cubic', 'holdd', 'stp', 'exp ', 'welsh', 'curve', '5']
LEVEL_POOL = [0, 1, -1, 0.5, 2, -0.25, 3.75, 10, 0.001, -7, 1.0, 0.0]
TIME_POOL = [1, 2, 0.5, 0.25, 0.01, 3.5, 10, 0.125]
NUM_CURVES = [-4, -4.0, 2.5, 0, 0.0, 8, -8.0, 1, 0.3]
FIXED_ENVGEN_ARGS = 5   # gate, levelScale, levelBias, timeScale, doneAction


def _Env():
    from sc3.synth.envelope import Env
    return Env


# ---------------------------------------------------------------------------
# comparison helpers
# ---------------------------------------------------------------------------

def _isnum(x):
    return isinstance(x, (int, float)) and not isinstance(x, bool)


def _close(a, b, rel=1e-12):
    if not (_isnum(a) and _isnum(b)):
        return False
    if a == b:
        return True
    return abs(a - b) <= rel * max(1.0, abs(a), abs(b))


def _arrays_equal(obs, exp, rel=1e-12):
    if len(obs) != len(exp):
        return False
    for o, e in zip(obs, exp):
        if len(o) != len(e):
            return False
        for x, y in zip(o, e):
            if not _close(x, y, rel):
                return False
    return True


def _observe_format(env):
    """Per channel arrays of the real envelope, as plain lists."""
    fmt = env._envgen_format()
    return [list(ch) for ch in fmt]


def _make(spec):
    Env = _Env()
    kw = {'offset': spec['offset']} if spec.get('offset') else {}
    return Env(copy.deepcopy(spec['levels']), copy.deepcopy(spec['times']),
               copy.deepcopy(spec['curves']), spec.get('release_node'),
               spec.get('loop_node'), **kw)


# ---------------------------------------------------------------------------
# shape names
# ---------------------------------------------------------------------------

def check_name(name):
    """-> (ok, observed, expected) for one documented name."""
    exp = ref.server_arrays([0, 1], [1], name)
    try:
        obs = _observe_format(_Env()([0, 1], [1], name))
    except Exception as e:
        return False, 'raises %s: %s' % (type(e).__name__, e), exp
    return _arrays_equal(obs, exp), obs, exp


def check_unknown(name):
    """-> (ok, observed): an unknown name must be refused with ValueError."""
    try:
        obs = _observe_format(_Env()([0, 1], [1], name))
    except ValueError:
        return True, 'ValueError'
    except Exception as e:
        return False, 'raises %s: %s' % (type(e).__name__, e)
    return False, obs


def run_shape_names(rep):
    bad = set()
    n = 0
    for name in DOC_NAMES:
        n += 1
        ok, obs, exp = check_name(name)
        if not ok:
            bad.add(name)
            rep.violation(
                obligation='C19.shape-names',
                what='documented shape name %r is not encoded as shape %d'
                     % (name, ref.SHAPE_NUMBERS[name]),
                input={'name': name}, observed=obs, expected=exp,
                key='C19.shape-names:%s' % name,
                replay={'func': 'name', 'args': {'name': name}})
    for name in UNKNOWN_NAMES:
        n += 1
        ok, obs = check_unknown(name)
        if not ok:
            # 'sqrt' accepted in place of the documented 'sqr' is the same
            # table entry as the refused 'sqr'.
            key = ('C19.shape-names:sqr' if name == 'sqrt'
                   else 'C19.shape-names:unknown-accepted')
            rep.violation(
                obligation='C19.shape-names',
                what='undocumented shape name %r is not refused with '
                     'ValueError' % name,
                input={'name': name}, observed=obs, expected='ValueError',
                key=key, replay={'func': 'unknown', 'args': {'name': name}})
    rep.bounded(
        name='shape-names', function='sc3.synth.envelope.Env._envgen_format',
        bound='the 14 documented shape names and %d undocumented strings'
              % len(UNKNOWN_NAMES),
        evaluations=n, distinct_nontrivial=n,
        rule='Env([0,1],[1],name): documented names must encode to the shape '
             'number of the SuperCollider help, others raise ValueError',
        samples=DOC_NAMES[:3] + UNKNOWN_NAMES[:2], exhaustive=True)
    return bad


# ---------------------------------------------------------------------------
# format
# ---------------------------------------------------------------------------

def check_format(spec):
    try:
        exp = ref.server_arrays(spec['levels'], spec['times'], spec['curves'],
                                spec.get('release_node'),
                                spec.get('loop_node'))
    except ValueError:
        return True, None, None   # not a valid case for the reference
    try:
        obs = _observe_format(_make(spec))
    except Exception as e:
        return False, 'raises %s: %s' % (type(e).__name__, e), exp
    return _arrays_equal(obs, exp), obs, exp


def _curve_variants(n, names, rng, k):
    out = []
    pool = list(names) + NUM_CURVES
    for _ in range(k):
        ln = rng.choice([1, 1, 2, n, max(1, n - 1), n + 1])
        out.append([rng.choice(pool) for _ in range(ln)])
    return out


def format_cases(tier, rng, names):
    cases = []
    # every documented (working) name and number alone, scalar form
    for cv in list(names) + NUM_CURVES:
        for n in (1, 2, 3):
            cases.append({'levels': LEVEL_POOL[:n + 1], 'times': 1,
                          'curves': cv, 'release_node': None,
                          'loop_node': None})
    # systematic small cases: times/curves shorter, equal, longer than n
    for n in (1, 2, 3, 4):
        levels = [LEVEL_POOL[(3 * i + n) % len(LEVEL_POOL)]
                  for i in range(n + 1)]
        tvars = [0.5, 2] + [TIME_POOL[:k] for k in range(1, n + 2)]
        cvars = ['lin', -4.0]
        for k in range(1, n + 2):
            cvars.append([(list(names) + NUM_CURVES)[(5 * j + k + n)
                         % (len(names) + len(NUM_CURVES))] for j in range(k)])
        nodes = [(None, None), (n - 1, None), (n - 1, 0), (0, 0), (None, 0),
                 (n, n - 1)]
        for tv in tvars:
            for cv in cvars:
                for rel, loop in nodes:
                    cases.append({'levels': levels, 'times': tv, 'curves': cv,
                                  'release_node': rel, 'loop_node': loop})
    # random
    nrand = 20000 if tier == 'quick' else 250000
    for _ in range(nrand):
        n = rng.choice([1, 1, 2, 2, 3, 4, 5, 8])
        levels = [rng.choice(LEVEL_POOL) if rng.random() < 0.6
                  else round(rng.uniform(-10, 10), 3) for _ in range(n + 1)]
        if levels[0] == 0 and all(x == 0 for x in levels) and n == 0:
            continue
        if rng.random() < 0.15:      # multichannel levels
            for _k in range(rng.choice([1, 2])):
                i = rng.randrange(n + 1)
                levels[i] = [rng.choice(LEVEL_POOL)
                             for _ in range(rng.choice([2, 3]))]
        if rng.random() < 0.2:
            times = rng.choice(TIME_POOL)
        else:
            ln = rng.choice([1, 2, n, max(1, n - 1), n + 1])
            times = [rng.choice(TIME_POOL) if rng.random() < 0.7
                     else round(rng.uniform(0.001, 5), 4) for _ in range(ln)]
        if rng.random() < 0.25:
            curves = rng.choice(list(names) + NUM_CURVES)
        else:
            curves = _curve_variants(n, names, rng, 1)[0]
        if rng.random() < 0.12:      # a segment's time / curve per channel
            if isinstance(times, list) and rng.random() < 0.5:
                i = rng.randrange(len(times))
                times = list(times)
                times[i] = [rng.choice(TIME_POOL) for _ in range(rng.choice([2, 3]))]
            else:
                curves = list(curves) if isinstance(curves, list) else [curves]
                i = rng.randrange(len(curves))
                curves[i] = [rng.choice(list(names) + NUM_CURVES)
                             for _ in range(rng.choice([2, 3]))]
        rel = rng.choice([None, None, rng.randrange(n + 1)])
        loop = rng.choice([None, None, rng.randrange(n + 1)])
        cases.append({'levels': levels, 'times': times, 'curves': curves,
                      'release_node': rel, 'loop_node': loop})
    return cases


def _size(spec):
    return len(repr(spec))


def run_format(rep, bad_names):
    names = [n for n in DOC_NAMES if n not in bad_names]
    cases = format_cases(rep.tier, rep.rng, names)
    n = 0
    seen = set()
    failures = []
    for spec in cases:
        n += 1
        seen.add(repr(spec))
        ok, obs, exp = check_format(spec)
        if not ok:
            failures.append((_size(spec), spec, obs, exp))
    failures.sort(key=lambda f: f[0])
    for _, spec, obs, exp in failures[:3]:
        multi = any(isinstance(x, list) for k in ('levels', 'times', 'curves')
                    for x in (spec[k] if isinstance(spec[k], list) else []))
        rep.violation(
            obligation='C19.format',
            what='_envgen_format() differs from the server layout for %r'
                 % (spec,),
            input=spec, observed=obs, expected=exp,
            key='C19.format:multichannel' if multi else 'C19.format:layout',
            replay={'func': 'format', 'args': spec})
    if bad_names:
        rep.note('format/constructors/at: shape names %s already reported by '
                 'shape-names are left out of the generated curves'
                 % sorted(bad_names))
    rep.bounded(
        name='format', function='sc3.synth.envelope.Env._envgen_format',
        bound='1..8 segments; times scalar or lists of length 1..n+1; curves '
              'a name, a number or mixed lists of length 1..n+1; release/loop '
              'None or 0..n; 15%% of random cases with list valued levels',
        evaluations=n, distinct_nontrivial=len(seen),
        rule='systematic small cases plus seeded random ones; distinct = '
             'distinct (levels,times,curves,nodes) tuples',
        samples=[cases[0], cases[len(cases) // 2], cases[-1]])


# ---------------------------------------------------------------------------
# constructors
# ---------------------------------------------------------------------------

def _call_ctor(name, kwargs):
    Env = _Env()
    kw = copy.deepcopy(kwargs)
    if name == 'xyc':
        return getattr(Env, name)(kw['xyc'])
    if name == 'pairs':
        if 'curves' in kw:
            return Env.pairs(kw['pairs'], kw['curves'])
        return Env.pairs(kw['pairs'])
    return getattr(Env, name)(**kw)


def _ref_ctor(name, kwargs):
    kw = copy.deepcopy(kwargs)
    if name == 'xyc':
        return ref.xyc(kw['xyc'])
    if name == 'pairs':
        return ref.pairs(kw['pairs'], kw.get('curves'))
    return ref.CONSTRUCTORS[name](**kw)


def check_ctor(name, kwargs):
    spec = _ref_ctor(name, kwargs)
    exp = ref.server_arrays(spec['levels'], spec['times'], spec['curves'],
                            spec['release_node'], spec['loop_node'])
    try:
        env = _call_ctor(name, kwargs)
        obs = _observe_format(env)
        off = getattr(env, 'offset', None)
    except Exception as e:
        return False, 'raises %s: %s' % (type(e).__name__, e), exp
    if not _arrays_equal(obs, exp):
        return False, obs, exp
    if name in ('xyc', 'pairs', 'step') and off is not None:
        if not _close(off, spec['offset']):
            return False, {'offset': off}, {'offset': spec['offset']}
    return True, obs, exp


def _rtime(rng):
    return rng.choice(TIME_POOL) if rng.random() < 0.5 \
        else round(rng.uniform(0.001, 4), 3)


def _rlevel(rng):
    return rng.choice([1, 0.5, 2, 0.25, -1, 3]) if rng.random() < 0.5 \
        else round(rng.uniform(-4, 4), 3)


def _rcurve(rng, names):
    return rng.choice(list(names) + NUM_CURVES)


def ctor_cases(tier, rng, names):
    cases = []
    for name in ('adsr', 'asr', 'dadsr', 'perc', 'linen', 'triangle', 'sine',
                 'cutoff', 'step'):
        cases.append((name, {}))
    reps = 500 if tier == 'quick' else 6000

    def some(d):   # random subset of keyword arguments
        keys = sorted(d)
        return {k: d[k] for k in keys if rng.random() < 0.7}

    for _ in range(reps):
        cases.append(('triangle', some({'dur': _rtime(rng),
                                        'level': _rlevel(rng)})))
        cases.append(('sine', some({'dur': _rtime(rng),
                                    'level': _rlevel(rng)})))
        cases.append(('perc', some({
            'attack_time': _rtime(rng), 'release_time': _rtime(rng),
            'level': _rlevel(rng), 'curve': _rcurve(rng, names)})))
        cases.append(('linen', some({
            'attack_time': _rtime(rng), 'sustain_time': _rtime(rng),
            'release_time': _rtime(rng), 'level': _rlevel(rng),
            'curve': _rcurve(rng, names)})))
        cases.append(('cutoff', some({
            'release_time': _rtime(rng), 'level': _rlevel(rng),
            'curve': _rcurve(rng, names)})))
        cases.append(('asr', some({
            'attack_time': _rtime(rng), 'sustain_level': _rlevel(rng),
            'release_time': _rtime(rng), 'curve': _rcurve(rng, names)})))
        cases.append(('adsr', some({
            'attack_time': _rtime(rng), 'decay_time': _rtime(rng),
            'sustain_level': _rlevel(rng), 'release_time': _rtime(rng),
            'peak_level': _rlevel(rng), 'curve': _rcurve(rng, names),
            'bias': rng.choice([0.0, 0, 1, -0.5, 0.125])})))
        cases.append(('dadsr', some({
            'delay_time': _rtime(rng), 'attack_time': _rtime(rng),
            'decay_time': _rtime(rng), 'sustain_level': _rlevel(rng),
            'release_time': _rtime(rng), 'peak_level': _rlevel(rng),
            'curve': _rcurve(rng, names),
            'bias': rng.choice([0.0, 0, 1, -0.5, 0.125])})))
        k = rng.choice([1, 2, 3, 5])
        kw = {'levels': [_rlevel(rng) for _ in range(k)],
              'times': [_rtime(rng) for _ in range(k)]}
        if rng.random() < 0.4:
            kw['offset'] = rng.choice([0, 0.5, 2])
        cases.append(('step', kw))
        # control points with distinct times, given unsorted
        k = rng.choice([2, 3, 4, 6])
        ts = rng.sample([0, 0.125, 0.25, 0.5, 1, 1.5, 2, 3, 4.5, 7, -1, -0.5],
                        k)
        pts = [[t, _rlevel(rng)] for t in ts]
        cv = rng.choice(['none', 'one', 'list'])
        kw = {'pairs': pts}
        if cv == 'one':
            kw['curves'] = _rcurve(rng, names)
        elif cv == 'list':
            kw['curves'] = [_rcurve(rng, names) for _ in range(k)]
        cases.append(('pairs', kw))
        cases.append(('xyc', {'xyc': [[t, _rlevel(rng), _rcurve(rng, names)]
                                      for t in ts]}))
    return cases


def run_constructors(rep, bad_names):
    names = [n for n in DOC_NAMES if n not in bad_names]
    cases = ctor_cases(rep.tier, rep.rng, names)
    n = 0
    seen = set()
    failures = {}
    for name, kw in cases:
        n += 1
        seen.add(repr((name, kw)))
        ok, obs, exp = check_ctor(name, kw)
        if not ok:
            if not kw:
                key = 'C19.constructors:%s-defaults' % name
            elif name == 'step' and 'release_level' not in kw:
                # same site as the all-default call: the default release level
                key = 'C19.constructors:step-defaults'
            else:
                key = 'C19.constructors:%s' % name
            failures.setdefault(key, []).append(
                (len(repr(kw)), name, kw, obs, exp))
    for key in sorted(failures):
        for _, name, kw, obs, exp in sorted(
                failures[key], key=lambda f: f[0])[:3]:
            rep.violation(
                obligation='C19.constructors',
                what='Env.%s(%s) does not give the documented breakpoints'
                     % (name, ', '.join('%s=%r' % kv for kv in kw.items())),
                input={'constructor': name, 'kwargs': kw},
                observed=obs, expected=exp, key=key,
                replay={'func': 'ctor',
                        'args': {'constructor': name, 'kwargs': kw}})
    rep.note('constructors: Env.step with a release or loop *level index* is '
             'left unspecified (sc3 documents an index of a level, the '
             'SuperCollider help a node; the statement fixes neither); only '
             'release_level=None, loop_level=None is demanded')
    rep.bounded(
        name='constructors',
        function='sc3.synth.envelope.Env.{adsr,asr,dadsr,perc,linen,triangle,'
                 'sine,cutoff,step,pairs,xyc}',
        bound='all-default calls of the 9 constructors that have defaults; '
              'random subsets of keyword arguments (times 0.001..10, levels '
              '-4..4, every working shape name and numeric curves); 2..6 '
              'unsorted control points with distinct times',
        evaluations=n, distinct_nontrivial=len(seen),
        rule='compare _envgen_format() (levels, times, shapes, curve values, '
             'release node) and offset with the documented breakpoints',
        samples=[cases[0], cases[8], cases[9], cases[-2], cases[-1]])


# ---------------------------------------------------------------------------
# client side evaluation
# ---------------------------------------------------------------------------

def _allowed_curves(a, b, names):
    """Shapes whose documented domain contains the segment a -> b."""
    out = []
    for nm in names:
        s = ref.SHAPE_NUMBERS[nm]
        if s == 2 and not (a * b > 0):
            continue
        if s in (6, 7) and not (a >= 0 and b >= 0):
            continue
        out.append(nm)
    return out


def at_cases(tier, rng, names):
    cases = []
    nrand = 2500 if tier == 'quick' else 25000
    numeric = [-8, -8.0, -4, -1.5, -0.5, 0, 0.0, 0.3, 1, 2.5, 4.0, 8]
    # one segment of every shape, rising and falling
    for nm in names:
        for lv in ([0.5, 2], [2, 0.5], [1, 1]):
            cases.append({'levels': lv, 'times': [1], 'curves': [nm]})
    for c in numeric:
        for lv in ([0, 1], [1, -1], [-2, -2]):
            cases.append({'levels': lv, 'times': [0.5], 'curves': [c]})
    for _ in range(nrand):
        n = rng.choice([1, 2, 3, 4, 6])
        mode = rng.choice(['pos', 'any', 'neg', 'int'])
        if mode == 'pos':
            levels = [round(rng.uniform(0.01, 10), 3) for _ in range(n + 1)]
        elif mode == 'neg':
            levels = [round(rng.uniform(-10, -0.01), 3) for _ in range(n + 1)]
        elif mode == 'int':
            levels = [rng.randrange(0, 6) for _ in range(n + 1)]
        else:
            levels = [rng.choice([0, 0.0, 1, -1]) if rng.random() < 0.3
                      else round(rng.uniform(-10, 10), 3)
                      for _ in range(n + 1)]
        # dyadic durations: the breakpoint times are exact in any summation
        times = [rng.randrange(1, 65) / 32.0 for _ in range(n)]
        curves = []
        for i in range(n):
            if rng.random() < 0.3:
                curves.append(rng.choice(numeric))
            else:
                curves.append(rng.choice(
                    _allowed_curves(levels[i], levels[i + 1], names)))
        case = {'levels': levels, 'times': times, 'curves': curves}
        if rng.random() < 0.25:
            # the envelope starts `offset` seconds after time zero (dyadic: times stay exact)
            case['offset'] = rng.choice([0.25, 0.5, 1.5, 2.0, 3.0])
        cases.append(case)
    return cases


def _tol(spec, seg_curves):
    scale = max(1.0, max(abs(x) for x in spec['levels']))
    # the cubed shape is defined with the exponent 0.3333333 (7 digits)
    loose = any(isinstance(c, str) and ref.SHAPE_NUMBERS.get(c) == 7
                for c in seg_curves)
    return (1e-5 if loose else 1e-9) * scale


def check_at(spec, grid=48):
    """-> list of (clause, time, observed, expected); empty = ok."""
    levels, times, curves = spec['levels'], spec['times'], spec['curves']
    n = len(levels) - 1
    bad = []
    try:
        env = _make(spec)
    except Exception as e:
        return [('construct', None, 'raises %s: %s' % (type(e).__name__, e),
                 'an envelope')]
    bp = ref.breakpoint_times(times)
    crv = ref.wrapped(curves, n)
    tol = _tol(spec, crv)

    off = spec.get('offset') or 0

    def at(t):
        try:
            v = env._at(t + off)
        except Exception as e:
            return 'raises %s: %s' % (type(e).__name__, e)
        return v

    def num(v):
        return _isnum(v) and not math.isnan(v)

    # breakpoints
    for k in range(n + 1):
        v = at(bp[k])
        exp = ref.value_at_breakpoint(levels, curves, k)
        if not (num(v) and abs(v - exp) <= tol):
            bad.append(('breakpoint', bp[k], v, exp))
    # inside
    for i in range(n):
        for j in range(1, grid):
            t = bp[i] + (bp[i + 1] - bp[i]) * j / grid
            if not (bp[i] <= t < bp[i + 1]):
                continue
            v = at(t)
            lo, hi = ref.between_bounds(levels, times, t)
            if not (num(v) and lo - tol <= v <= hi + tol):
                bad.append(('between', t, v, [lo, hi]))
                break
    # after the end
    for d in (0.0, 1e-9, 0.001, 1, 1000.0):
        t = bp[n] + d
        v = at(t)
        if not (num(v) and abs(v - levels[n]) <= tol):
            bad.append(('after-end', t, v, levels[n]))
    # before zero: as at zero
    v0 = ref.value_at_breakpoint(levels, curves, 0)
    for t in (-1e-9, -0.5, -100):
        v = at(t)
        if not (num(v) and abs(v - v0) <= tol):
            bad.append(('before-zero', t, v, v0))
    return bad


def run_at(rep, bad_names):
    names = [n for n in DOC_NAMES if n not in bad_names]
    grid = 48 if rep.tier == 'quick' else 96
    cases = at_cases(rep.tier, rep.rng, names)
    n = points = 0
    seen = set()
    failures = []
    for spec in cases:
        n += 1
        seen.add(repr(spec))
        points += (len(spec['levels']) - 1) * grid + len(spec['levels']) + 8
        bad = check_at(spec, grid)
        if bad:
            failures.append((_size(spec), spec, bad))
    failures.sort(key=lambda f: f[0])
    per_key = {}
    for _, spec, bad in failures:
        clause, t, v, exp = bad[0]
        key = 'C19.at:%s' % clause
        if per_key.get(key, 0) >= 3:
            continue
        per_key[key] = per_key.get(key, 0) + 1
        rep.violation(
            obligation='C19.at',
            what='Env(%r, %r, %r%s)._at(%r) = %r, expected %s %r'
                 % (spec['levels'], spec['times'], spec['curves'],
                    ', offset=%r' % spec['offset'] if spec.get('offset') else '',
                    t + (spec.get('offset') or 0), v,
                    'within' if clause == 'between' else 'the level', exp),
            input={'spec': spec, 'time': t}, observed=v, expected=exp,
            key=key, replay={'func': 'at', 'args': spec})
    rep.note('at: domains as documented -- exponential only between same '
             'sign non-zero levels, squared/cubed only between non-negative '
             'levels, numeric curves in [-8, 8]; durations > 0; offset 0 or one of '
             '{0.25, 0.5, 1.5, 2, 3} (all times then shifted by it); '
             'tolerance 1e-9 (1e-5 when a cubed segment is present: the '
             'shape is defined with the exponent 0.3333333)')
    rep.bounded(
        name='at', function='sc3.synth.envelope.Env._at',
        bound='1..6 segments, levels in [-10, 10] (ints and floats), dyadic '
              'durations k/32 <= 2, every working shape on its documented '
              'domain and numeric curves in [-8, 8]; %d interior points per '
              'segment, all breakpoints, 5 times after the end, 3 before 0'
              % (grid - 1),
        evaluations=points, distinct_nontrivial=len(seen),
        rule='distinct = distinct envelopes; evaluations = evaluation times',
        samples=[cases[0], cases[len(cases) // 2], cases[-1]])


# ---------------------------------------------------------------------------
# EnvGen inputs in the definition bytes
# ---------------------------------------------------------------------------

_counter = [0]


def check_envgen(spec, rate='kr'):
    from sc3.synth.synthdef import SynthDef
    from sc3.synth.ugens.envgen import EnvGen
    from sc3.synth.ugens import inout
    try:
        env = _make(spec)
        fmt = _observe_format(env)
    except Exception as e:
        return True, None, None      # reported by 'format'
    if len(fmt) != 1:
        return True, None, None
    exp = [scgf.f32(float(x)) for x in fmt[0]]

    def graph():
        if rate == 'kr':
            inout.Out.kr(0, EnvGen.kr(env))
        else:
            inout.Out.ar(0, EnvGen.ar(env))

    _counter[0] += 1
    try:
        sd = SynthDef('c19_%d' % _counter[0], graph)
        view = sd.as_bytes()
        data = bytes(view)
        if isinstance(view, memoryview):
            # the definition keeps a view on a BytesIO buffer; an unreleased
            # view can crash the interpreter at shutdown
            view.release()
    except Exception as e:
        return False, 'raises %s: %s' % (type(e).__name__, e), exp
    defs = scgf.parse(data)
    units = [u for u in defs[0].ugens if u.name == 'EnvGen']
    if len(units) != 1:
        return False, 'EnvGen units: %d' % len(units), exp
    ins = units[0].inputs[FIXED_ENVGEN_ARGS:]
    if any(a != -1 for a, _ in ins):
        return False, 'non constant envelope input: %r' % (ins,), exp
    obs = [defs[0].constants[b] for _, b in ins]
    return obs == exp, obs, exp


def run_envgen(rep, bad_names):
    names = [n for n in DOC_NAMES if n not in bad_names]
    rng = rep.rng
    cases = []
    for nm in names[:]:
        cases.append(({'levels': [0, 1, 0.5], 'times': [0.1, 0.3],
                       'curves': nm, 'release_node': None,
                       'loop_node': None}, 'kr'))
    nrand = 600 if rep.tier == 'quick' else 6000
    for _ in range(nrand):
        n = rng.choice([1, 2, 3, 5])
        spec = {'levels': [_rlevel(rng) for _ in range(n + 1)],
                'times': [_rtime(rng)
                          for _ in range(rng.choice([1, n, n + 1]))],
                'curves': [rng.choice(names + NUM_CURVES)
                           for _ in range(rng.choice([1, n]))],
                'release_node': rng.choice([None, rng.randrange(n + 1)]),
                'loop_node': rng.choice([None, rng.randrange(n + 1)])}
        cases.append((spec, rng.choice(['kr', 'kr', 'ar'])))
    n = 0
    seen = set()
    failures = []
    for spec, rate in cases:
        n += 1
        seen.add(repr((spec, rate)))
        ok, obs, exp = check_envgen(spec, rate)
        if not ok:
            failures.append((_size(spec), spec, rate, obs, exp))
    failures.sort(key=lambda f: f[0])
    for _, spec, rate, obs, exp in failures[:3]:
        rep.violation(
            obligation='C19.envgen',
            what='inputs of EnvGen.%s(Env(...)) in the definition bytes '
                 'differ from _envgen_format() for %r' % (rate, spec),
            input={'spec': spec, 'rate': rate}, observed=obs, expected=exp,
            key='C19.envgen:inputs',
            replay={'func': 'envgen', 'args': {'spec': spec, 'rate': rate}})
    rep.bounded(
        name='envgen', function='sc3.synth.ugens.envgen.EnvGen.kr/ar + '
                                'SynthDef.as_bytes',
        bound='single channel envelopes of 1..5 segments built inside a '
              'graph function; definition bytes parsed with vf/specs/scgf.py',
        evaluations=n, distinct_nontrivial=len(seen),
        rule='the inputs of the only EnvGen unit after its 5 fixed arguments '
             'are constants equal to float32(_envgen_format()[0])',
        samples=[cases[0], cases[-1]])


# ---------------------------------------------------------------------------

def main(rep):
    silence_sc3_logging()
    import sc3
    sc3.init('nrt')
    bad = set()
    if wants(rep, 'shape-names'):
        bad = run_shape_names(rep)
    else:
        bad = {n for n in DOC_NAMES if not check_name(n)[0]}
    if wants(rep, 'format'):
        run_format(rep, bad)
    if wants(rep, 'constructors'):
        run_constructors(rep, bad)
    if wants(rep, 'at'):
        run_at(rep, bad)
    if wants(rep, 'envgen'):
        run_envgen(rep, bad)


def replay(case, rep):
    silence_sc3_logging()
    import sc3
    sc3.init('nrt')
    r = case.get('replay') or {}
    func, args = r.get('func'), r.get('args') or {}
    key = case.get('key') or case.get('obligation')
    if func == 'name':
        ok, obs, exp = check_name(args['name'])
    elif func == 'unknown':
        ok, obs = check_unknown(args['name'])
        exp = 'ValueError'
    elif func == 'format':
        ok, obs, exp = check_format(args)
    elif func == 'ctor':
        ok, obs, exp = check_ctor(args['constructor'], args['kwargs'])
    elif func == 'at':
        bad = check_at(args, 96)
        ok = not bad
        obs, exp = (bad[0][2], bad[0][3]) if bad else (None, None)
    elif func == 'envgen':
        ok, obs, exp = check_envgen(args['spec'], args['rate'])
    else:
        raise ValueError('unknown replay function %r' % (func,))
    if not ok:
        rep.violation(obligation=case.get('obligation', 'C19'),
                      what=case.get('what', ''), input=case.get('input'),
                      observed=obs, expected=exp, key=key, replay=r)
    return ok


if __name__ == '__main__':
    driver_main('C19', main, replay)
