"""C18 -- incoming messages reach exactly the responders that should fire.

Run:  /venv/bin/python -m vf.drivers.C18 --tier quick --seed 0 --out f.json

Sub-checks (select with --only):
  match       sc3's address-pattern matching as used by matching responders
              (sc3.base.responders._match_osc_address_pattern(message_address,
              responder_path)) == vf.specs.oscmatch10.osc_match for all
              well-formed patterns of bounded length.
  dispatch    bounded histories of responder creation / enable / disable /
              one_shot / free / function replacement / CmdPeriod x incoming
              datagrams fed to OscInterface._handle_request (and a sample
              through the real UDP loopback), against a reference model.
  registries  SystemAction (CmdPeriod/StartUp/ShutDown), ServerAction
              (ServerBoot/ServerTree/ServerQuit) and NotificationCenter
              add/remove/run histories against a reference model.
  fuzz        datagram robustness of OscInterface._handle_request under a
              per-datagram watchdog.

Process layout: the driver process itself never imports sc3.  Every piece of
work runs in forked children (one process can host one sc3 mode only, the
real-time children own threads and sockets, and a hung child must be
killable): `match` children only import sc3, `registries` children run
sc3.init('nrt'), `dispatch` and `fuzz` children run sc3.init('rt') -- the
non-real-time interface drops every incoming message by design
(OscNrtInterface._msg_dispatch is a no-op), so NRT does not suffice there.
"""
import itertools
import multiprocessing
import multiprocessing.connection
import os
import random
import struct
import sys
import time
import traceback

sys.dont_write_bytecode = True          # never create files under the sc3 tree

from vf.common import Report, driver_main, wants
from vf.specs.oscmatch10 import osc_match, wellformed_pattern

NPROC = 16
_MP = multiprocessing.get_context('fork')


# ---------------------------------------------------------------------------
# generic pool of forked children with progress/hang supervision
# ---------------------------------------------------------------------------

def _quiet():
    import warnings
    import logging
    warnings.simplefilter('ignore')
    logging.disable(logging.CRITICAL)
    sys.dont_write_bytecode = True


def _child_main(role, w, nproc, start, conn, pidx, pt, pn, cfg):
    try:
        _quiet()
        ctx = _ROLE_SETUP[role](cfg)
        run = _ROLE_RUN[role]
        for idx, item in _ROLE_ITEMS[role](cfg):
            if idx % nproc != w or idx < start:
                continue
            pt.value = time.time()
            pidx.value = idx
            for v in run(ctx, idx, item):
                conn.send(('viol', idx, v))
            pn.value += 1
        pidx.value = -1
        fin = _ROLE_FINISH.get(role)
        stats = fin(ctx) if fin else ctx.get('stats', {})
        conn.send(('done', stats))
    except BaseException:
        try:
            conn.send(('crash', traceback.format_exc()))
        except Exception:
            pass
    finally:
        try:
            conn.close()
        except Exception:
            pass
        os._exit(0)


class _Slot:
    pass


def _spawn(role, w, nproc, start, cfg):
    s = _Slot()
    s.w = w
    s.parent, child = _MP.Pipe(duplex=False)
    s.pidx = _MP.Value('q', -1, lock=False)
    s.pt = _MP.Value('d', 0.0, lock=False)
    s.pn = _MP.Value('q', 0, lock=False)
    s.proc = _MP.Process(target=_child_main,
                         args=(role, w, nproc, start, child, s.pidx, s.pt, s.pn, cfg))
    s.proc.daemon = True
    s.proc.start()
    child.close()
    s.done = False
    return s


def _run_pool(role, cfg, nproc=NPROC, hang_s=None, backstop_s=1500.0):
    """Run role over its items, partitioned idx % nproc.  Returns dict with
    'viol' [(idx, payload)], 'hang' [idx], 'stats' [dict], 'crash' [str]."""
    out = {'viol': [], 'hang': [], 'stats': [], 'crash': [], 'killed_n': 0}
    slots = [_spawn(role, w, nproc, 0, cfg) for w in range(nproc)]
    t0 = time.time()
    while any(not s.done for s in slots):
        live = [s for s in slots if not s.done]
        ready = multiprocessing.connection.wait([s.parent for s in live], 0.2)
        for s in live:
            if s.parent not in ready:
                continue
            try:
                while s.parent.poll():
                    msg = s.parent.recv()
                    if msg[0] == 'viol':
                        out['viol'].append((msg[1], msg[2]))
                    elif msg[0] == 'done':
                        out['stats'].append(msg[1])
                        s.done = True
                    elif msg[0] == 'crash':
                        out['crash'].append(msg[1])
                        s.done = True
            except (EOFError, OSError):
                if not s.done:
                    out['crash'].append('child %s/%d died' % (role, s.w))
                    s.done = True
        now = time.time()
        for i, s in enumerate(slots):
            if s.done:
                s.proc.join(5)
                continue
            if hang_s is not None and s.pidx.value >= 0 \
                    and now - s.pt.value > hang_s:
                idx = s.pidx.value
                # re-read to avoid a torn observation between two items
                time.sleep(0.01)
                if s.pidx.value != idx or s.proc.exitcode is not None:
                    continue
                s.proc.kill()
                s.proc.join(5)
                # drain what it had sent
                try:
                    while s.parent.poll():
                        msg = s.parent.recv()
                        if msg[0] == 'viol':
                            out['viol'].append((msg[1], msg[2]))
                except (EOFError, OSError):
                    pass
                out['hang'].append(idx)
                out['killed_n'] += s.pn.value
                slots[i] = _spawn(role, s.w, nproc, idx + 1, cfg)
        if now - t0 > backstop_s:
            for s in slots:
                if not s.done:
                    s.proc.kill()
                    s.done = True
                    out['crash'].append('backstop: %s/%d killed' % (role, s.w))
    for s in slots:
        s.proc.join(5)
    return out


def _run_singles(role, cfg, items, timeout_s):
    """Run each item alone in a fresh child (all children in parallel).
    Returns a list of ('ok', [payload]) | ('hang', None) | ('crash', text)."""
    slots = []
    for item in items:
        c = dict(cfg)
        c['single_item'] = item
        s = _spawn(role, 0, 1, 0, c)
        s.viol = []
        s.res = None
        slots.append(s)
    t0 = time.time()
    while any(s.res is None for s in slots):
        for s in slots:
            if s.res is not None:
                continue
            if s.parent.poll(0.05):
                try:
                    msg = s.parent.recv()
                except (EOFError, OSError):
                    s.res = ('crash', 'child died')
                    continue
                if msg[0] == 'viol':
                    s.viol.append(msg[2])
                elif msg[0] == 'done':
                    s.res = ('ok', s.viol)
                elif msg[0] == 'crash':
                    s.res = ('crash', msg[1])
            elif s.pidx.value >= 0 and time.time() - s.pt.value > timeout_s:
                s.res = ('hang', None)
            elif time.time() - t0 > timeout_s + 120:
                s.res = ('crash', 'single run backstop')
    for s in slots:
        s.proc.kill()
        s.proc.join(5)
    return [s.res for s in slots]


def _run_single(role, cfg, item, timeout_s):
    return _run_singles(role, cfg, [item], timeout_s)[0]


def _items_of(cfg, gen):
    """Items of a role: the single replay item, or the full enumeration
    (gen is a callable returning the iterable)."""
    if 'single_item' in cfg:
        return [(0, cfg['single_item'])]
    return gen()


def _merge_counts(stats, field):
    tot = {}
    for st in stats:
        for k, v in st.get(field, {}).items():
            tot[k] = tot.get(k, 0) + v
    return tot


# ---------------------------------------------------------------------------
# sub-check: match
# ---------------------------------------------------------------------------

PAT_ALPHABET = 'ab/?*[]!-{},'
ADDR_ALPHABET = 'abc/'
ADDRS = [''.join(t) for n in range(0, 5)
         for t in itertools.product(ADDR_ALPHABET, repeat=n)]


def _wf_patterns(n):
    return [''.join(t) for t in itertools.product(PAT_ALPHABET, repeat=n)
            if wellformed_pattern(''.join(t))]


def _relaxed_match(p, a, prefix, wild_cross, neg_cross):
    """The specification's matcher with selected deviations switched on, used
    only to *classify* a disagreement (never to decide one):
    prefix: the pattern may stop before the end of the address;
    wild_cross: '?' and '*' may match '/';  neg_cross: a negated bracket set
    may match '/'."""
    from vf.specs.oscmatch10 import parse_part, _in_set
    toks = []
    for k, part in enumerate(p.split('/')):
        if k:
            toks.append(('lit', '/'))
        toks.extend(parse_part(part))
    nt, ns = len(toks), len(a)

    def m(ti, si):
        if ti == nt:
            return prefix or si == ns
        t = toks[ti]
        k = t[0]
        if k == 'lit':
            return si < ns and a[si] == t[1] and m(ti + 1, si + 1)
        if k == 'one':
            return si < ns and (wild_cross or a[si] != '/') and m(ti + 1, si + 1)
        if k == 'set':
            if si >= ns:
                return False
            if a[si] == '/':
                ok = neg_cross and t[1]
            else:
                ok = _in_set(a[si], t[1], t[2], t[3])
            return bool(ok) and m(ti + 1, si + 1)
        if k == 'star':
            e = si
            while True:
                if m(ti + 1, e):
                    return True
                if e >= ns or (a[e] == '/' and not wild_cross):
                    return False
                e += 1
        if k == 'alt':
            return any(a.startswith(x, si) and m(ti + 1, si + len(x))
                       for x in t[1])
        raise AssertionError(k)
    return m(0, 0)


def _pattern_features(p):
    """(special char inside brackets, '-' last in a bracket list,
    ',' outside braces and brackets)"""
    special_in = minus_last = comma_out = False
    for part in p.split('/'):
        i, n = 0, len(part)
        while i < n:
            c = part[i]
            if c == '[':
                j = part.index(']', i + 1)
                body = part[i + 1:j]
                if body[:1] == '!':
                    body = body[1:]
                if any(x in '*?{},[' for x in body):
                    special_in = True
                if body.endswith('-'):
                    minus_last = True
                i = j + 1
            elif c == '{':
                i = part.index('}', i + 1) + 1
            else:
                if c == ',':
                    comma_out = True
                i += 1
    return special_in, minus_last, comma_out


def _lax_probe(f):
    """Does this tree accept a proper prefix / let '?' or '*' cross a '/' on
    plain patterns?  Only used to attribute a disagreement to a class."""
    def q(p, a):
        try:
            return bool(f(p, a))
        except Exception:
            return False
    return (q('/a', '/ab'), q('/?', '//') or q('/*', '/a/b'), q('/[!a]', '//'))


def _match_class(p, a, got, exp, lax):
    """Stable class of a disagreement on pattern '/'+p, address '/'+a."""
    P, A = '/' + p, '/' + a
    if got is True and exp is False and (lax[0] or lax[1]) \
            and _relaxed_match(P, A, lax[0], lax[1], False):
        return 'prefix-and-slash'
    special_in, minus_last, comma_out = _pattern_features(p)
    if comma_out:
        return 'comma-outside-braces'
    if got is True and exp is False and lax[2] \
            and _relaxed_match(P, A, lax[0], lax[1], True):
        return 'negated-set-matches-slash'
    if special_in:
        return 'special-char-inside-brackets'
    if minus_last:
        return 'minus-at-end-of-set'
    if got is True and exp is False:
        if _relaxed_match(P, A, True, True, True):
            return 'negated-set-matches-slash'
        return 'other-accept'
    return 'other-reject'


MATCH_SENTENCE = {
    'prefix-and-slash':
        '"...and every character in the OSC Address is matched by something in '
        'the OSC Address Pattern" / "contain the same number of parts"',
    'special-char-inside-brackets':
        '"Inside square brackets, the minus sign (-) and exclamation point (!) '
        'have special meanings" (no other character has)',
    'minus-at-end-of-set':
        '"(A minus sign at the end of the string has no special meaning.)"',
    'comma-outside-braces':
        '"A comma-separated list of strings enclosed in curly braces" / "Any '
        'other character in an OSC Address Pattern can match only the same '
        'character."',
    'negated-set-matches-slash':
        '"The OSC Address and the OSC Address Pattern contain the same number '
        'of parts" (parts are cut at every \'/\' before any set is looked at)',
    'other-accept': 'rules 1-5 of "OSC Message Dispatching and Pattern Matching"',
    'other-reject': 'rules 1-5 of "OSC Message Dispatching and Pattern Matching"',
}


def _sc3_match_func():
    """The matcher the pattern dispatcher really calls."""
    from sc3.base import responders as rpd
    names = rpd.OscMessagePatternDispatcher.__call__.__code__.co_names
    if '_match_osc_address_pattern' not in names:
        raise RuntimeError('OscMessagePatternDispatcher.__call__ no longer '
                           'uses responders._match_osc_address_pattern: %r'
                           % (names,))
    return rpd._match_osc_address_pattern


def _match_eval(f, p, a):
    """(got, exp, raised) for message address '/'+p against path '/'+a."""
    exp = osc_match('/' + p, '/' + a)
    try:
        got = bool(f('/' + p, '/' + a))
        raised = None
    except Exception as e:          # an exception invokes nobody: "no match"
        got = False
        raised = type(e).__name__
    return got, exp, raised


def _match_setup(cfg):
    f = _sc3_match_func()
    return {'f': f, 'lax': _lax_probe(f), 'pairs': 0, 'pos': 0, 'nontriv': 0,
            'raised_nomatch': 0, 'raised_samples': [], 'cls': {}, 'ex': {}}


def _match_items(cfg):
    return _items_of(cfg, lambda: enumerate(cfg['patterns']))


def _match_run(ctx, idx, p):
    f = ctx['f']
    wild = any(c in p for c in '?*[{')
    for a in ADDRS:
        got, exp, raised = _match_eval(f, p, a)
        ctx['pairs'] += 1
        if exp:
            ctx['pos'] += 1
        if wild:
            ctx['nontriv'] += 1
        if got != exp:
            c = _match_class(p, a, got, exp, ctx['lax'])
            ctx['cls'][c] = ctx['cls'].get(c, 0) + 1
            lst = ctx['ex'].setdefault(c, [])
            if len(lst) < 4:
                lst.append([p, a, got, exp, raised])
        elif raised:
            ctx['raised_nomatch'] += 1
            if len(ctx['raised_samples']) < 3:
                ctx['raised_samples'].append([p, a, raised])
    return ()


def _match_finish(ctx):
    return {'pairs': ctx['pairs'], 'pos': ctx['pos'], 'nontriv': ctx['nontriv'],
            'raised_nomatch': ctx['raised_nomatch'],
            'raised_samples': ctx['raised_samples'],
            'cls': ctx['cls'], 'ex': ctx['ex']}


def _report_match_violation(rep, c, p, a, got, exp, raised):
    rep.violation(
        obligation='C18.match',
        what='message address %r read as an OSC 1.0 pattern %s the responder '
             'path %r, sc3 says %s%s' % (
                 '/' + p, 'matches' if exp else 'does not match', '/' + a,
                 'match' if got else 'no match',
                 ' (raised %s)' % raised if raised else ''),
        input={'pattern': '/' + p, 'address': '/' + a},
        observed={'sc3': got, 'raised': raised}, expected={'osc10': exp},
        key='C18.match:' + c,
        replay={'func': 'match', 'args': [p, a]})


def check_match(rep):
    short = []
    for n in range(0, 5):
        short.extend(_wf_patterns(n))
    five = _wf_patterns(5)
    if rep.tier == 'thorough':
        pats = short + five
        bound = ('all well-formed patterns "/"+p, |p|<=5 over %r x all '
                 'addresses "/"+a, |a|<=4 over %r' % (PAT_ALPHABET, ADDR_ALPHABET))
        exhaustive = True
    else:
        k = min(len(five), 6000)
        pats = short + rep.rng.sample(five, k)
        bound = ('all well-formed patterns "/"+p, |p|<=4, plus a seeded sample '
                 'of %d of the %d well-formed ones with |p|=5, over %r x all '
                 'addresses "/"+a, |a|<=4 over %r' % (
                     k, len(five), PAT_ALPHABET, ADDR_ALPHABET))
        exhaustive = False
    res = _run_pool('match', {'patterns': pats})
    for c in res['crash']:
        rep.error('match child: ' + c)
    pairs = sum(s['pairs'] for s in res['stats'])
    pos = sum(s['pos'] for s in res['stats'])
    nontriv = sum(s['nontriv'] for s in res['stats'])
    cls = _merge_counts(res['stats'], 'cls')
    ex = {}
    for s in res['stats']:
        for c, lst in s['ex'].items():
            ex.setdefault(c, []).extend(lst)
    for c in sorted(ex):
        lst = sorted(ex[c], key=lambda e: (len(e[0]) + len(e[1]), len(e[0]),
                                           e[0], e[1]))
        for p, a, got, exp, raised in lst[:3]:
            _report_match_violation(rep, c, p, a, got, exp, raised)
    rn = sum(s['raised_nomatch'] for s in res['stats'])
    if rn:
        smp = [x for s in res['stats'] for x in s['raised_samples']][:3]
        rep.note('match: sc3 raised instead of answering "no match" on %d '
                 'pairs where the specification also says "no match" (e.g. %r);'
                 ' counted as agreement: the exception is caught by the clock '
                 'thread and no responder is invoked' % (rn, smp))
    rep.bounded(
        name='match',
        function='sc3.base.responders._match_osc_address_pattern '
                 '(= sc3.base._oscmatch.osc_rematch_pattern)',
        bound=bound, evaluations=pairs, distinct_nontrivial=nontriv,
        rule='pattern = message address, address = responder path, both with '
             'the leading "/" OscFunc and the decoder guarantee; non-trivial = '
             'pairs whose pattern has at least one of ? * [ {; patterns that '
             'are not well formed (vf.specs.oscmatch10) are skipped',
        samples=[['/' + p, '/a', osc_match('/' + p, '/a')]
                 for p in pats[40:2000:450]],
        exhaustive=exhaustive,
        extra={'patterns': len(pats), 'addresses': len(ADDRS),
               'pairs_spec_says_match': pos, 'disagreements_by_class': cls})


# ---------------------------------------------------------------------------
# role tables (filled in below)
# ---------------------------------------------------------------------------

_ROLE_SETUP = {'match': _match_setup}
_ROLE_ITEMS = {'match': _match_items}
_ROLE_RUN = {'match': _match_run}
_ROLE_FINISH = {'match': _match_finish}

# ---------------------------------------------------------------------------
# sub-check: registries  (children run sc3.init('nrt'))
# ---------------------------------------------------------------------------
#
# Reference model shared by the three registries: a registration-ordered list
# of keys.  Registering a key that is already registered is the one point the
# statement leaves open (does it keep its place or move to the end?), so the
# model keeps the *set of orders still possible* and a run must produce one of
# them; every registered action exactly once.

class _Orders:
    def __init__(self):
        self.orders = {()}

    def keys(self):
        return set(next(iter(self.orders)))

    def add(self, k):
        new = set()
        for o in self.orders:
            if k in o:
                new.add(o)
                new.add(tuple(x for x in o if x != k) + (k,))
            else:
                new.add(o + (k,))
        self.orders = new

    def remove(self, k):
        self.orders = {tuple(x for x in o if x != k) for o in self.orders}

    def clear(self):
        self.orders = {()}


def _reg_histories(alphabet_fn, maxlen, is_run):
    """All op sequences of length<=maxlen whose last op is a run."""
    def rec(prefix, state):
        for op in alphabet_fn(state):
            h = prefix + [op]
            if is_run(op):
                yield h
            if len(h) < maxlen:
                yield from rec(h, state)
    return rec([], None)


# ---- SystemAction family ---------------------------------------------------

def _sa_alphabet(cls_name):
    ops = [['add', k, v] for k in range(3) for v in (0,)] + [['add', 0, 1]]
    ops += [['remove', k] for k in range(3)]
    ops += [['run'], ['remove_all']]
    if cls_name == 'CmdPeriod':
        ops += [['do_once', 0], ['do_once', 1]]
    return ops


def _sa_run(ctx, cls_name, hist):
    """Returns None or (what, observed, expected)."""
    sac = ctx['sac']
    cls = getattr(sac, cls_name)
    log = []
    funcs = []
    for k in range(3):
        def f(*a, _k=k, **kw):
            log.append(['f%d' % _k, list(a), dict(kw)])
        funcs.append(f)
    onces = []
    for k in range(2):
        def g(*a, _k=k, **kw):
            log.append(['g%d' % _k, list(a), dict(kw)])
        onces.append(g)
    saved = cls._actions
    cls.remove_all()
    orders = _Orders()
    args = {}            # key -> set of acceptable [args, kwargs] (as repr)
    once_n = 0
    try:
        for step, op in enumerate(hist):
            try:
                if op[0] == 'add':
                    k, v = op[1], op[2]
                    cls.add(funcs[k], k, v, kw=v)
                    key = 'f%d' % k
                    acc = repr([[k, v], {'kw': v}])
                    if key in orders.keys():
                        args[key] = args[key] | {acc}
                    else:
                        args[key] = {acc}
                    orders.add(key)
                elif op[0] == 'remove':
                    cls.remove(funcs[op[1]])
                    orders.remove('f%d' % op[1])
                elif op[0] == 'remove_all':
                    cls.remove_all()
                    orders.clear()
                elif op[0] == 'do_once':
                    once_n += 1
                    cls.do_once(onces[op[1]], 'once', once_n)
                    key = 'g%d#%d' % (op[1], once_n)
                    args[key] = {repr([['once', once_n], {}])}
                    orders.add(key)
                elif op[0] == 'run':
                    del log[:]
                    cls.run()
                    obs = [e[0] for e in log]
                    # once entries are observed under their function name
                    cands = []
                    for o in orders.orders:
                        cands.append([x.split('#')[0] for x in o])
                    if obs not in cands:
                        return ('%s.run() after %r called %r' % (
                            cls_name, hist[:step], obs), obs, sorted(cands)[:4])
                    # argument pass-through
                    for o in orders.orders:
                        if [x.split('#')[0] for x in o] == obs:
                            for key, e in zip(o, log):
                                if repr([e[1], e[2]]) not in args[key]:
                                    return ('%s.run() passed %r to %s' % (
                                        cls_name, e[1:], key), e[1:],
                                        sorted(args[key]))
                            break
                    for key in [x for x in orders.keys() if '#' in x]:
                        orders.remove(key)
            except Exception as e:
                return ('%s: %r raised %s: %s' % (cls_name, op,
                                                  type(e).__name__, e),
                        type(e).__name__, 'no exception')
    finally:
        cls._actions = saved
    return None


# ---- ServerAction family ---------------------------------------------------

_SV = ['s0', 's1', 'all', 'default']


def _sv_alphabet(full):
    svs = _SV if full else ['s0', 'all']
    fs = (0, 1)
    ops = [['add', s, k] for s in svs for k in fs]
    ops += [['remove', s, k] for s in svs for k in fs]
    ops += [['remove_server', s] for s in svs]
    ops += [['remove_all'], ['run', 's0'], ['run', 's1']]
    return ops


def _sv_run(ctx, cls_name, hist):
    sac = ctx['sac']
    cls = getattr(sac, cls_name)
    objs = {'s0': ctx['s0'], 's1': ctx['s1'], 'all': 'all', 'default': 'default'}
    log = []
    funcs = []
    for k in range(2):
        def f(*a, _k=k, **kw):
            log.append(['f%d' % _k, a, kw])
        funcs.append(f)
    saved = cls._servers
    cls.remove_all()
    groups = {s: _Orders() for s in _SV}
    try:
        for step, op in enumerate(hist):
            try:
                if op[0] == 'add':
                    s, k = op[1], op[2]
                    # the group tag travels as an argument so that calls of the
                    # same function for different groups can be told apart
                    cls.add(objs[s], funcs[k], s, kw=k)
                    groups[s].add('f%d' % k)
                elif op[0] == 'remove':
                    cls.remove(objs[op[1]], funcs[op[2]])
                    groups[op[1]].remove('f%d' % op[2])
                elif op[0] == 'remove_server':
                    cls.remove_server(objs[op[1]])
                    groups[op[1]].clear()
                elif op[0] == 'remove_all':
                    cls.remove_all()
                    for g in groups.values():
                        g.clear()
                elif op[0] == 'run':
                    del log[:]
                    sv = objs[op[1]]
                    cls.run(sv)
                    active = [op[1], 'all'] + (['default'] if op[1] == 's0' else [])
                    obs = {}
                    for name, a, kw in log:
                        if len(a) != 2 or a[0] is not sv or a[1] not in _SV \
                                or kw != {'kw': int(name[1])}:
                            return ('%s.run(%s) called %s with %r %r' % (
                                cls_name, op[1], name, a[1:], kw),
                                [name, repr(a[1:]), kw], 'f(server, group, kw=k)')
                        obs.setdefault(a[1], []).append(name)
                    for g in _SV:
                        o = obs.get(g, [])
                        if g in active:
                            if tuple(o) not in groups[g].orders:
                                return ('%s.run(%s) after %r called %r of the '
                                        'actions registered for %r' % (
                                            cls_name, op[1], hist[:step], o, g),
                                        o, sorted(groups[g].orders)[:4])
                        elif o:
                            return ('%s.run(%s) called %r registered for %r' % (
                                cls_name, op[1], o, g), o, [])
            except Exception as e:
                return ('%s: %r raised %s: %s' % (cls_name, op,
                                                  type(e).__name__, e),
                        type(e).__name__, 'no exception')
    finally:
        cls._servers = saved
    return None


# ---- NotificationCenter ----------------------------------------------------

def _nc_alphabet(full):
    if full:
        oml = [(o, m, l) for o in (0, 1) for m in ('x', 'y') for l in (0, 1)]
        om = [(o, m) for o in (0, 1) for m in ('x', 'y')]
        os_ = [0, 1]
    else:
        oml = [(0, 'x', 0), (0, 'x', 1), (0, 'x', 2), (0, 'y', 0)]
        om = [(0, 'x'), (0, 'y')]
        os_ = [0]
    ops = [['register', o, m, l, 0] for o, m, l in oml]
    ops += [['register', oml[0][0], oml[0][1], oml[0][2], 1]]
    ops += [['one_shot', o, m, l] for o, m, l in oml]
    ops += [['unregister', o, m, l] for o, m, l in oml]
    ops += [['unregister', o, m, None] for o, m in om]
    ops += [['unregister', o, None, None] for o in os_]
    ops += [['clear']]
    ops += [['notify', o, m] for o, m in om]
    return ops


class _Obj:
    def __init__(self, name):
        self.name = name

    def __repr__(self):
        return self.name


def _nc_run(ctx, hist):
    nc = ctx['nc']
    objs = [_Obj('o0'), _Obj('o1')]
    lst = [_Obj('l0'), _Obj('l1'), _Obj('l2')]
    log = []

    def mk(tag):
        def act(*a, **kw):
            log.append([tag, a, kw])
        return act
    nc.clear()
    regs = {}        # (o, m) -> _Orders over listener indexes
    acts = {}        # (o, m, l) -> [tag, one_shot]
    try:
        for step, op in enumerate(hist):
            present = None
            try:
                if op[0] in ('register', 'one_shot'):
                    o, m, l = op[1], op[2], op[3]
                    tag = 'a%d.%s.%d.%s' % (o, m, l, op[4] if op[0] == 'register' else 'once')
                    if op[0] == 'register':
                        nc.register(objs[o], m, lst[l], mk(tag))
                    else:
                        nc.register_one_shot(objs[o], m, lst[l], mk(tag))
                    regs.setdefault((o, m), _Orders()).add(l)
                    acts[(o, m, l)] = [tag, op[0] == 'one_shot']
                elif op[0] == 'unregister':
                    o, m, l = op[1], op[2], op[3]
                    if m is None:
                        victims = [k for k in regs if k[0] == o and regs[k].keys()]
                        present = bool(victims)
                    elif l is None:
                        victims = [(o, m)] if (o, m) in regs and regs[(o, m)].keys() else []
                        present = bool(victims)
                    else:
                        victims = None
                        present = (o, m) in regs and l in regs[(o, m)].keys()
                    if victims is None:
                        if present:
                            regs[(o, m)].remove(l)
                            acts.pop((o, m, l), None)
                    else:
                        for k in victims:
                            for ll in list(regs[k].keys()):
                                acts.pop((k[0], k[1], ll), None)
                            regs[k].clear()
                    try:
                        if m is None:
                            nc.unregister(objs[o])
                        elif l is None:
                            nc.unregister(objs[o], m)
                        else:
                            nc.unregister(objs[o], m, lst[l])
                    except KeyError:
                        # refusing to unregister what is not registered is
                        # left open; refusing what *is* registered is not.
                        # (an emptied (obj, msg) slot may or may not still
                        # "exist": also left open)
                        if present:
                            raise
                elif op[0] == 'clear':
                    nc.clear()
                    regs.clear()
                    acts.clear()
                elif op[0] == 'notify':
                    o, m = op[1], op[2]
                    del log[:]
                    usekw = len(op) > 3 and op[3] == 'kw'
                    if usekw:
                        nc.notify(objs[o], m, 7, kw=8)
                    else:
                        nc.notify(objs[o], m, 7)
                    obs = [e[0] for e in log]
                    od = regs.get((o, m))
                    cands = [[acts[(o, m, l)][0] for l in oo]
                             for oo in (od.orders if od else {()})]
                    if obs not in cands:
                        return ('notify(o%d, %r) after %r called %r' % (
                            o, m, hist[:step], obs), obs, sorted(cands)[:4])
                    for e in log:
                        l = int(e[0].split('.')[2])
                        if e[1] != (objs[o], m, lst[l], 7) \
                                or e[2] != ({'kw': 8} if usekw else {}):
                            return ('notify passed %r %r to %s' % (e[1], e[2], e[0]),
                                    repr(e[1:]), '(obj, msg, listener, 7[, kw=8])')
                    if od:
                        for l in list(od.keys()):
                            if acts[(o, m, l)][1]:
                                od.remove(l)
                                del acts[(o, m, l)]
                # registration_exists must agree with the model
                for (o, m), od in list(regs.items()):
                    for l in range(3):
                        want = l in od.keys()
                        got = bool(nc.registration_exists(objs[o], m, lst[l]))
                        if got != want:
                            return ('registration_exists(o%d, %r, l%d) is %r after %r' % (
                                o, m, l, got, hist[:step + 1]), got, want)
            except Exception as e:
                return ('NotificationCenter: %r raised %s: %s' % (
                    op, type(e).__name__, e), type(e).__name__, 'no exception')
    finally:
        nc.clear()
    return None


# ---- role ------------------------------------------------------------------

_SA_CLASSES = ['CmdPeriod', 'StartUp', 'ShutDown']
_SV_CLASSES = ['ServerBoot', 'ServerTree', 'ServerQuit']


def _reg_items_gen(cfg):
    tier = cfg['tier']
    idx = 0
    n_sa = 6 if tier == 'thorough' else 5
    for c in _SA_CLASSES:
        alpha = _sa_alphabet(c)
        for h in _reg_histories(lambda s: alpha, n_sa, lambda op: op[0] == 'run'):
            yield idx, ['sa', c, h]
            idx += 1
    full_n, red_n = (4, 5) if tier == 'thorough' else (3, 5)
    fa, ra = _sv_alphabet(True), _sv_alphabet(False)
    for c in _SV_CLASSES:
        for h in _reg_histories(lambda s: fa, full_n, lambda op: op[0] == 'run'):
            yield idx, ['sv', c, h]
            idx += 1
        for h in _reg_histories(lambda s: ra, red_n, lambda op: op[0] == 'run'):
            if len(h) > full_n:
                yield idx, ['sv', c, h]
                idx += 1
    full_n, red_n = (4, 5) if tier == 'thorough' else (3, 4)
    fa, ra = _nc_alphabet(True), _nc_alphabet(False)
    for h in _reg_histories(lambda s: fa, full_n, lambda op: op[0] == 'notify'):
        yield idx, ['nc', 'NotificationCenter', h]
        idx += 1
    for h in _reg_histories(lambda s: ra, red_n, lambda op: op[0] == 'notify'):
        if len(h) > full_n:
            yield idx, ['nc', 'NotificationCenter', h]
            idx += 1
    # notify() documents **kwargs: one probe each for a plain and a one-shot
    # registration (the histories above use positional arguments only)
    for first in (['register', 0, 'x', 0, 0], ['one_shot', 0, 'x', 0]):
        yield idx, ['nc', 'NotificationCenter', [first, ['notify', 0, 'x', 'kw']]]
        idx += 1


def _reg_items(cfg):
    return _items_of(cfg, lambda: _reg_items_gen(cfg))


def _reg_setup(cfg):
    import sc3
    sc3.init('nrt')
    from sc3.base import systemactions as sac, model as mdl, netaddr as nad
    from sc3.synth import server as srv
    sac.CmdPeriod.free_servers = False
    s0 = srv.Server.default
    s1 = srv.Server('c18other', nad.NetAddr('127.0.0.1', 57111))
    return {'sac': sac, 'nc': mdl.NotificationCenter, 's0': s0, 's1': s1,
            'stats': {'n': {}, 'nontriv': {}, 'samples': {}}}


def _reg_key(kind, cls_name, hist, what):
    if kind == 'sv' and any(op[0] == 'remove' for op in hist) \
            and 'raised' not in what:
        # decide by experiment whether remove() is the culprit: the same
        # history without any remove ops behaves
        return 'C18.registries:serveraction-remove-noop'
    if kind == 'nc' and any(op[0] == 'notify' and len(op) > 3 for op in hist):
        return 'C18.registries:notify-kwargs'
    return 'C18.registries:%s' % {'sa': 'systemaction', 'sv': 'serveraction',
                                  'nc': 'notificationcenter'}[kind]


def _reg_check(ctx, kind, cls_name, hist):
    if kind == 'sa':
        return _sa_run(ctx, cls_name, hist)
    if kind == 'sv':
        return _sv_run(ctx, cls_name, hist)
    return _nc_run(ctx, hist)


def _reg_run(ctx, idx, item):
    kind, cls_name, hist = item
    st = ctx['stats']
    st['n'][kind] = st['n'].get(kind, 0) + 1
    nruns = sum(1 for op in hist if op[0] in ('run', 'notify'))
    if len(hist) > nruns:
        st['nontriv'][kind] = st['nontriv'].get(kind, 0) + 1
    if kind not in st['samples'] and len(hist) >= 3:
        st['samples'][kind] = item
    r = _reg_check(ctx, kind, cls_name, hist)
    if r is None:
        return ()
    what, obs, exp = r
    key = _reg_key(kind, cls_name, hist, what)
    if key.endswith('remove-noop'):
        # attribute to remove() only if dropping the remove ops cures it
        h2 = [op for op in hist if op[0] != 'remove']
        if _reg_check(ctx, kind, cls_name, h2) is not None:
            key = 'C18.registries:serveraction'
    return [{'obligation': 'C18.registries', 'what': what, 'input': item,
             'observed': obs, 'expected': exp, 'key': key,
             'size': len(hist),
             'replay': {'func': 'registries', 'args': item}}]


_ROLE_SETUP['registries'] = _reg_setup
_ROLE_ITEMS['registries'] = _reg_items
_ROLE_RUN['registries'] = _reg_run


def _report_sorted(rep, viols):
    """Report the smallest cases first (at most 3 per key are kept)."""
    viols = sorted(viols, key=lambda iv: (iv[1].get('size', 0), iv[0]))
    seen = set()
    for idx, v in viols:
        sig = (v['key'], repr(v['input']))
        if sig not in seen:
            seen.add(sig)
            _report_generic(rep, v)


def check_registries(rep):
    res = _run_pool('registries', {'tier': rep.tier})
    for c in res['crash']:
        rep.error('registries child: ' + c)
    _report_sorted(rep, res['viol'])
    n = _merge_counts(res['stats'], 'n')
    nt = _merge_counts(res['stats'], 'nontriv')
    samples = []
    for s in res['stats']:
        for k, v in s['samples'].items():
            if len(samples) < 5 and all(x[0] != k for x in samples):
                samples.append(v)
    rep.bounded(
        name='registries',
        function='sc3.base.systemactions.{CmdPeriod,StartUp,ShutDown}.'
                 '{add,remove,remove_all,do_once,run}, {ServerBoot,ServerTree,'
                 'ServerQuit}.{add,remove,remove_server,remove_all,run}, '
                 'sc3.base.model.NotificationCenter.{register,'
                 'register_one_shot,unregister,clear,notify,registration_exists}',
        bound='all op histories ending in a run: SystemAction length<=%s over '
              '3 actions; ServerAction length<=%s over {s0=default server, s1, '
              '"all", "default"} x 2 actions, length 5 over {s0,"all"}; '
              'NotificationCenter length<=%s over 2 objects x 2 messages x 2 '
              'listeners, one more over 1 object x 3 listeners' % (
                  (6, 4, 4) if rep.tier == 'thorough' else (5, 3, 3)),
        evaluations=sum(n.values()), distinct_nontrivial=sum(nt.values()),
        rule='reference = registration-ordered list per registry/group; run '
             'must call exactly the registered actions once each in that order '
             'with the registered arguments; re-registering a registered '
             'action may keep or move its place (both accepted); unregistering '
             'something absent may raise KeyError or not; order between the '
             'server/default/all groups of a ServerAction is not constrained; '
             'non-trivial = history has at least one non-run op',
        samples=samples, exhaustive=True, extra={'by_registry': n})

# ---------------------------------------------------------------------------
# strict, independent OSC 1.0 datagram reader (oracle of the fuzz sub-check)
# ---------------------------------------------------------------------------
#
# Written from the OSC 1.0 specification ("OSC Packets", "Atomic Data Types",
# "OSC Messages", "OSC Bundles").  Three verdicts:
#   ('valid', [(timetag|None, [address, arg...]), ...])
#   ('malformed', cls)   a clear breach of the OSC 1.0 grammar
#   ('unspec', why)      the specification leaves the receiver a choice
# Left to the receiver ('unspec'): a missing type tag string or one that does
# not begin with ',' ("OSC implementations should be robust in the case of a
# missing OSC Type Tag String"), type tags outside i f s b d t r m T F [ ]
# ("should discard"), unbalanced array brackets, bytes >= 0x80 in strings
# (sc3 reads UTF-8, a superset of the ASCII the specification speaks of),
# non-zero padding after a blob, surplus bytes after the last argument the type
# tags announce (nothing is invented by ignoring them), a nested bundle earlier
# than its parent, and nesting deeper than 16.

class _Mal(Exception):
    pass


class _Uns(Exception):
    pass


_STD_TAGS = 'ifsbdtrmTF[]'


def _rd_str(d, i):
    j = d.find(b'\0', i)
    if j < 0:
        raise _Mal('string-not-terminated')
    end = i + ((j - i) // 4 + 1) * 4
    if end > len(d):
        raise _Mal('string-padding-truncated')
    if d[j:end].strip(b'\0'):
        raise _Mal('string-padding-not-null')
    raw = d[i:j]
    return raw, end


def _need(d, i, n):
    if i + n > len(d):
        raise _Mal('argument-truncated')


def _strict_message(d, notes):
    if len(d) % 4:
        raise _Mal('size-not-multiple-of-4')
    raw, i = _rd_str(d, 0)
    if any(c >= 0x80 for c in raw):
        notes.append('non-ascii')
        addr = raw.decode('utf-8', 'replace')
    else:
        addr = raw.decode('ascii')
    if i == len(d):
        raise _Uns('missing-type-tag-string')
    if d[i] != 0x2c:
        raise _Uns('type-tags-without-comma')
    raw, i = _rd_str(d, i)
    tags = raw[1:].decode('latin-1')
    for t in tags:
        if t not in _STD_TAGS:
            raise _Uns('nonstandard-type-tag')
    stack = [[]]
    for t in tags:
        if t == 'i':
            _need(d, i, 4)
            v = struct.unpack('>i', d[i:i + 4])[0]
            i += 4
        elif t == 'f':
            _need(d, i, 4)
            v = struct.unpack('>f', d[i:i + 4])[0]
            i += 4
        elif t == 'd':
            _need(d, i, 8)
            v = struct.unpack('>d', d[i:i + 8])[0]
            i += 8
        elif t == 't':
            _need(d, i, 8)
            v = struct.unpack('>Q', d[i:i + 8])[0]
            i += 8
        elif t == 'r':
            _need(d, i, 4)
            v = struct.unpack('>I', d[i:i + 4])[0]
            i += 4
        elif t == 'm':
            _need(d, i, 4)
            v = tuple(d[i:i + 4])
            i += 4
        elif t == 's':
            try:
                raw, i = _rd_str(d, i)
            except _Mal as e:
                raise _Mal('argument-' + e.args[0])
            if any(c >= 0x80 for c in raw):
                notes.append('non-ascii')
                v = raw.decode('utf-8', 'replace')
            else:
                v = raw.decode('ascii')
        elif t == 'b':
            _need(d, i, 4)
            n = struct.unpack('>i', d[i:i + 4])[0]
            i += 4
            if n < 0:
                raise _Mal('blob-size-negative')
            end = i + n + (-n % 4)
            if end > len(d):
                raise _Mal('blob-truncated')
            v = d[i:i + n]
            if d[i + n:end].strip(b'\0'):
                notes.append('blob-padding-not-null')
            i = end
        elif t == 'T':
            v = True
        elif t == 'F':
            v = False
        elif t == '[':
            new = []
            stack[-1].append(new)
            stack.append(new)
            continue
        elif t == ']':
            if len(stack) < 2:
                raise _Uns('array-brackets-unbalanced')
            stack.pop()
            continue
        stack[-1].append(v)
    if len(stack) != 1:
        raise _Uns('array-brackets-unbalanced')
    if i != len(d):
        notes.append('bytes-after-last-argument')
    return [addr] + stack[0]


def _strict_bundle(d, out, notes, parent_tt, depth):
    if depth > 16:
        raise _Uns('nesting-deeper-than-16')
    if len(d) % 4:
        raise _Mal('size-not-multiple-of-4')
    if len(d) < 16:
        raise _Mal('bundle-header-truncated')
    tt = struct.unpack('>Q', d[8:16])[0]
    if parent_tt is not None and tt < parent_tt:
        notes.append('nested-bundle-earlier-than-parent')
    i = 16
    while i < len(d):
        if len(d) - i < 4:
            raise _Mal('bundle-element-size-truncated')
        n = struct.unpack('>i', d[i:i + 4])[0]
        i += 4
        if n < 0:
            raise _Mal('bundle-element-size-negative')
        if n % 4:
            raise _Mal('bundle-element-size-not-multiple-of-4')
        if i + n > len(d):
            raise _Mal('bundle-element-size-exceeds-datagram')
        el = d[i:i + n]
        if el.startswith(b'#bundle\0'):
            _strict_bundle(el, out, notes, tt, depth + 1)
        elif el.startswith(b'/'):
            out.append((tt, _strict_message(el, notes)))
        else:
            raise _Mal('bundle-element-neither-message-nor-bundle')
        i += n


def strict_decode(d):
    notes = []
    try:
        if len(d) == 0:
            raise _Mal('empty-datagram')
        if d.startswith(b'#bundle\0'):
            out = []
            _strict_bundle(d, out, notes, None, 0)
        elif d.startswith(b'/'):
            out = [(None, _strict_message(d, notes))]
        else:
            raise _Mal('neither-message-nor-bundle')
    except _Mal as e:
        return ('malformed', e.args[0])
    except _Uns as e:
        return ('unspec', e.args[0])
    if notes:
        return ('unspec', notes[0])
    return ('valid', out)


def _canon(x):
    """Comparable form of a decoded value (NaN-safe, bytes/tuples kept)."""
    if isinstance(x, bool):
        return ('B', x)
    if isinstance(x, float):
        return ('f', struct.pack('>d', x))
    if isinstance(x, int):
        return ('i', x)
    if isinstance(x, (bytes, bytearray)):
        return ('b', bytes(x))
    if isinstance(x, str):
        return ('s', x)
    if isinstance(x, (list, tuple)):
        return ('l', tuple(_canon(v) for v in x))
    return ('?', repr(x))


# ---------------------------------------------------------------------------
# real-time children: common set-up
# ---------------------------------------------------------------------------

TT_FUTURE = 0xF0000000 << 32          # a fixed time tag (year 2027)
TT_LATER = (0xF0000000 << 32) + (1 << 32)


def _in_child(fn, *args):
    """Run fn(*args) in a forked child and return its (picklable) result."""
    parent, child = _MP.Pipe(duplex=False)

    def tgt():
        try:
            _quiet()
            child.send(('ok', fn(*args)))
        except BaseException:
            child.send(('err', traceback.format_exc()))
        finally:
            os._exit(0)
    p = _MP.Process(target=tgt)
    p.start()
    child.close()
    try:
        kind, val = parent.recv()
    except EOFError:
        kind, val = 'err', 'child died'
    p.join(10)
    if kind != 'ok':
        raise RuntimeError('helper child failed: %s' % val)
    return val


def _build_corpus():
    """Valid datagrams made with sc3's own builders."""
    from sc3.base import _osclib as oli

    def msg(addr, *typed):
        b = oli.OscMessageBuilder(addr)
        for v, t in typed:
            b.add_arg(v, t)
        return b.build()

    def bndl(tt, *contents):
        b = oli.OscBundleBuilder(tt)
        for c in contents:
            b.add_content(c)
        return b.build()
    m0 = msg('/sentinel')
    m1 = msg('/sentinel', (1, 'i'))
    m2 = msg('/sentinel', (1, 'i'), (2.5, 'f'), ('abc', 's'), (b'\x01\x02\x03', 'b'))
    m3 = msg('/sentinel', ('four', 's'), (True, 'T'), (False, 'F'), (1.25, 'd'))
    m4 = msg('/s', ([1, 'x'], ['i', 's']), (7, 'i'))
    m5 = msg('/other/path', (-7, 'i'), ('', 's'))
    m6 = msg('/sentinel', (m1.dgram, 'b'))
    out = [m0, m1, m2, m3, m4, m5, m6,
           bndl(oli.IMMEDIATELY, m1),
           bndl(TT_FUTURE, m1, m5),
           bndl(TT_FUTURE, m2, bndl(TT_LATER, m1, m3)),
           bndl(TT_FUTURE),
           bndl(TT_FUTURE, bndl(TT_FUTURE, bndl(TT_LATER, m0)), m4)]
    return [bytes(x.dgram) for x in out]


def _rt_cfg():
    return {'corpus': _in_child(_build_corpus)}


class _RT:
    """sc3 in real-time mode plus the probes the rt sub-checks share."""

    def __init__(self):
        import threading
        import socket
        import sc3
        sc3.LIB_PORT = 20000 + (os.getpid() * 37) % 30000
        sc3.LIB_PORT_RANGE = 500
        sc3.init('rt')
        from sc3.base import main as m, clock as clk, responders as rpd
        from sc3.base import _oscinterface as osci, netaddr as nad
        from sc3.base import systemactions as sac
        self.threading = threading
        self.socket = socket
        self.main = m.main
        self.clk = clk
        self.rpd = rpd
        self.osci = osci
        self.nad = nad
        self.sac = sac
        sac.CmdPeriod.free_servers = False      # no /g_freeAll traffic
        self.iface = self.main._osc_interface
        self.osc0 = clk.SystemClock.elapsed_time_to_osc(0.0)

    def sync(self, timeout=20.0):
        """Wait until everything scheduled on SystemClock so far has run."""
        ev = self.threading.Event()
        self.clk.SystemClock.sched(0, lambda: ev.set())
        if not ev.wait(timeout):
            raise RuntimeError('SystemClock did not run a task within %ss'
                               % timeout)

    def tt_to_elapsed(self, tt):
        return (tt - self.osc0) / 4294967296.0


# ---------------------------------------------------------------------------
# sub-check: fuzz
# ---------------------------------------------------------------------------

SENDER_A = ('127.0.0.1', 50001)
SENTINEL = '/sentinel'


def _bundle_size_fields(d, base=0, out=None):
    """Offsets of the element size fields of a *valid* bundle datagram."""
    if out is None:
        out = []
    i = 16
    while i < len(d):
        n = struct.unpack('>i', d[i:i + 4])[0]
        out.append((base + i, n, len(d) - i - 4))
        el = d[i + 4:i + 4 + n]
        if el.startswith(b'#bundle\0'):
            _bundle_size_fields(el, base + i + 4, out)
        i += 4 + n
    return out


def _pad(b):
    return b + b'\0' * (4 - len(b) % 4)


def _crafted(corpus):
    tt = struct.pack('>Q', TT_FUTURE)
    i32 = lambda v: struct.pack('>i', v)
    out = [b'#bundle\0' + tt + i32(-4),                # the known hang
           b'', b'/', b'#', b'\0\0\0\0', b',\0\0\0', b'/\0\0\0',
           b'#bundle', b'#bundle\0', b'#bundle\0' + tt[:4], b'#bundleX' + tt,
           b'#bundle\0' + tt + b'\0', b'#bundle\0' + tt + i32(0),
           b'#bundle\0' + tt + i32(4) + b'abcd',
           b'#bundle\0' + tt + i32(-8), b'#bundle\0' + tt + i32(-12),
           b'#bundle\0' + tt + i32(-16), b'#bundle\0' + tt + i32(-20),
           b'#bundle\0' + tt + i32(-2 ** 31)]
    for d in corpus:
        if not d.startswith(b'#bundle\0'):
            continue
        for off, n, rest in _bundle_size_fields(d):
            for v in (-4, -8, -1, -2, -3, -2 ** 31, -n, 0, 1, 2, 3, 4, 5, 8,
                      n + 1, n + 2, n + 3, n + 4, n - 4, n - 1, rest + 4,
                      rest + 1, 0x7fffffff, 0x10000, 0x00ffffff):
                if v != n and -2 ** 31 <= v < 2 ** 31:
                    out.append(d[:off] + i32(v) + d[off + 4:])
    s = _pad(b'/sentinel')
    # invalid UTF-8 in address, string argument, type tags
    out += [_pad(b'/sent\xff\xfeel') + _pad(b','),
            _pad(b'/sentinel\xc3') + _pad(b','),
            s + _pad(b',s') + _pad(b'a\xff\xfe'),
            s + _pad(b',s') + _pad(b'\xe2\x82'),
            s + _pad(b',\xff') + i32(1),
            _pad(b'/\x80')]
    # type tag strings without comma / with unknown or unbalanced tags
    out += [s + _pad(b'i') + i32(1), s + _pad(b'ii') + i32(1) + i32(2),
            s + i32(1), s + _pad(b',x'), s + _pad(b',ixi') + i32(1) + i32(2),
            s + _pad(b',N'), s + _pad(b',I'), s + _pad(b',iN') + i32(1),
            s + _pad(b',h') + b'\0' * 8, s + _pad(b',c') + i32(65),
            s + _pad(b',S') + _pad(b'sym'), s + _pad(b',[i') + i32(1),
            s + _pad(b',]'), s + _pad(b',[]'), s + _pad(b',i]') + i32(1),
            s + _pad(b',' + b'i' * 40), s + _pad(b',' + b'[' * 50),
            s + b',i\0', s + b',\0', s + b',']
    # strings: embedded null that joins, non-null padding, missing terminator
    out += [b'/sentine\0l\0\0' + _pad(b','), b'/sentinel\0XY' + _pad(b','),
            b'/sentinel\0\0X' + _pad(b','), b'/sen\0inel\0\0\0' + _pad(b','),
            b'/sentinelabc', b'/sentinelabc' + _pad(b','),
            s + _pad(b',s') + b'abcd', s + _pad(b',s') + b'ab\0c',
            s + _pad(b',s') + b'a\0b\0']
    # arguments: missing / short / blob sizes
    out += [s + _pad(b',i'), s + _pad(b',f'), s + _pad(b',f') + b'\x40',
            s + _pad(b',f') + b'\x40\x20', s + _pad(b',d') + b'\0' * 4,
            s + _pad(b',t') + b'\0' * 7, s + _pad(b',m') + b'\0\0',
            s + _pad(b',i') + i32(1) + i32(2),
            s + _pad(b',') + i32(1),
            s + _pad(b',b') + i32(-4), s + _pad(b',b') + i32(-1),
            s + _pad(b',b') + i32(-2 ** 31), s + _pad(b',b') + i32(0x7fffffff),
            s + _pad(b',b') + i32(5) + b'abcd', s + _pad(b',b') + i32(0),
            s + _pad(b',b') + i32(1) + b'aXYZ', s + _pad(b',b') + i32(3) + b'abc',
            s + _pad(b',bi') + i32(-8) + i32(7),
            s + _pad(b',b')]
    # depth / size
    deep = b'#bundle\0' + tt
    for _ in range(600):
        deep = b'#bundle\0' + tt + i32(len(deep)) + deep
    out += [deep, b'/' + b'a' * 65531, b'\0' * 65536, b'#bundle\0' * 4096,
            s + _pad(b',' + b'T' * 60000)]
    return out


def _fuzz_build_items(corpus, tier, rng):
    items = list(corpus)
    for d in corpus:
        for k in range(len(d)):
            items.append(d[:k])
    items.extend(_crafted(corpus))
    muts = [(ci, pos, val) for ci, d in enumerate(corpus)
            for pos in range(len(d)) for val in range(256) if val != d[pos]]
    total = len(muts)
    if tier != 'thorough':
        muts = rng.sample(muts, min(len(muts), 60000))
        muts.sort()
    for ci, pos, val in muts:
        d = corpus[ci]
        items.append(d[:pos] + bytes([val]) + d[pos + 1:])
    return items, total, len(muts)


def _fuzz_setup(cfg):
    rt = _RT()
    ctx = {'rt': rt, 'catch': [], 'sent': [], 'probe': [], 'k': 0,
           'stats': {'n': 0, 'status': {}, 'delivered': 0}}

    def catch_all(msg, time, addr, recv_port):
        if msg and msg[0] == '/c18probe':
            return
        ctx['catch'].append((msg, time, (addr.hostname, addr.port), recv_port))
    rt.main.add_osc_recv_func(catch_all)
    ctx['catch_all'] = catch_all
    ctx['r_sent'] = rt.rpd.OscFunc(
        lambda msg, time, addr, recv_port: ctx['sent'].append(msg), SENTINEL)
    ctx['r_probe'] = rt.rpd.OscFunc(
        lambda msg, time, addr, recv_port: ctx['probe'].append(msg[1]),
        '/c18probe')
    ctx['r_sent'].permanent = True
    ctx['r_probe'].permanent = True
    return ctx


def _fuzz_items(cfg):
    return _items_of(cfg, lambda: enumerate(cfg['items']))


_MAL_GROUP = {
    'argument-truncated': 'truncated', 'size-not-multiple-of-4': 'truncated',
    'blob-truncated': 'truncated', 'string-not-terminated': 'truncated',
    'string-padding-truncated': 'truncated',
    'argument-string-not-terminated': 'truncated',
    'argument-string-padding-truncated': 'truncated',
    'bundle-header-truncated': 'truncated',
    'string-padding-not-null': 'string-padding-not-null',
    'argument-string-padding-not-null': 'string-padding-not-null',
    'bundle-element-size-exceeds-datagram': 'bundle-element-size',
    'bundle-element-size-not-multiple-of-4': 'bundle-element-size',
    'bundle-element-size-negative': 'bundle-element-size',
    'bundle-element-size-truncated': 'bundle-element-size',
    'bundle-element-neither-message-nor-bundle': 'bundle-element-unidentified',
}


def _fuzz_viol(key, what, dg, observed, expected):
    return {'obligation': 'C18.fuzz', 'what': what,
            'input': {'datagram': dg}, 'observed': observed,
            'expected': expected, 'key': 'C18.fuzz:' + key, 'size': len(dg),
            'replay': {'func': 'fuzz', 'args': dg.hex()}}


def _short(dg):
    return dg[:48].hex() + ('...(%d bytes)' % len(dg) if len(dg) > 48 else '')


def _fuzz_run(ctx, idx, dg):
    rt = ctx['rt']
    out = []
    st = ctx['stats']
    st['n'] += 1
    del ctx['catch'][:]
    del ctx['sent'][:]
    t0 = rt.main.elapsed_time()
    try:
        rt.iface._handle_request(dg, SENDER_A)
    except BaseException as e:
        out.append(_fuzz_viol(
            'raises', '_handle_request(%s) raised %s into the receiver' % (
                _short(dg), type(e).__name__), dg, type(e).__name__,
            'no exception'))
    rt.sync()
    t1 = rt.main.elapsed_time()
    got = list(ctx['catch'])
    nsent = len(ctx['sent'])
    verdict, info = strict_decode(dg)
    st['status'][verdict] = st['status'].get(verdict, 0) + 1
    if got:
        st['delivered'] += 1
    if verdict == 'malformed':
        if got or nsent:
            out.append(_fuzz_viol(
                'accepts-malformed:' + _MAL_GROUP.get(info, info),
                'malformed datagram (%s) %s was dispatched as %r' % (
                    info, _short(dg), [g[0] for g in got][:3]), dg,
                {'dispatched': [g[0] for g in got][:4],
                 'sentinel_responder_calls': nsent}, 'nothing invoked'))
    elif verdict == 'valid':
        exp = sorted(_canon(m) for tt, m in info)
        obs = sorted(_canon(g[0]) for g in got)
        want_sent = sum(1 for tt, m in info if m[0] == SENTINEL)
        if obs != exp or nsent != want_sent:
            out.append(_fuzz_viol(
                'valid-not-delivered' if len(obs) < len(exp) else 'valid-misdecoded',
                'valid datagram %s was dispatched as %r, sentinel responder '
                'called %d times' % (_short(dg), [g[0] for g in got][:3], nsent),
                dg, {'dispatched': [g[0] for g in got][:4],
                     'sentinel_responder_calls': nsent},
                {'messages': [m for tt, m in info][:4],
                 'sentinel_responder_calls': want_sent}))
        else:
            # time, sender and port of each delivered message
            times = {}
            for tt, m in info:
                times.setdefault(_canon(m), []).append(tt)
            for m, tm, sender, port in got:
                tts = times[_canon(m)]
                ok_t = any((tt in (None, 1) and t0 <= tm <= t1) or
                           (tt not in (None, 1) and
                            abs(tm - rt.tt_to_elapsed(tt)) < 1e-6) for tt in tts)
                if not ok_t or sender != SENDER_A or port != rt.iface.port:
                    out.append(_fuzz_viol(
                        'valid-wrong-envelope',
                        'valid datagram %s delivered with time %r sender %r '
                        'port %r' % (_short(dg), tm, sender, port), dg,
                        [tm, sender, port],
                        {'timetags': tts, 'reception_between': [t0, t1],
                         'sender': SENDER_A, 'port': rt.iface.port}))
                    break
    # the receiver must still work
    ctx['k'] += 1
    k = ctx['k']
    del ctx['probe'][:]
    pd = _pad(b'/c18probe') + _pad(b',i') + struct.pack('>i', k & 0x7fffffff)
    try:
        rt.iface._handle_request(pd, SENDER_A)
    except BaseException as e:
        out.append(_fuzz_viol('next-datagram-lost',
                              'after %s the next valid datagram raised %s' % (
                                  _short(dg), type(e).__name__), dg,
                              type(e).__name__, 'delivered'))
    rt.sync()
    if ctx['probe'] != [k & 0x7fffffff]:
        out.append(_fuzz_viol('next-datagram-lost',
                              'after %s the next valid datagram was not '
                              'delivered exactly once' % _short(dg), dg,
                              list(ctx['probe']), [k & 0x7fffffff]))
    return out


_ROLE_SETUP['fuzz'] = _fuzz_setup
_ROLE_ITEMS['fuzz'] = _fuzz_items
_ROLE_RUN['fuzz'] = _fuzz_run


def _hang_key(dg):
    verdict, info = strict_decode(dg)
    if verdict == 'malformed' and info == 'bundle-element-size-negative':
        return 'negative-element-size-hang'
    return 'hang:%s' % (info if verdict != 'valid' else 'valid')


def _report_hang(rep, dg):
    v = _fuzz_viol(_hang_key(dg),
                   '_handle_request(%s) did not return within the watchdog '
                   'time (receive thread hangs)' % _short(dg), dg,
                   'no return within 2 s (confirmed: none within 5 s in a '
                   'fresh process)', 'returns; nothing invoked')
    _report_generic(rep, v)


def check_fuzz(rep):
    cfg = _rt_cfg()
    items, total_muts, used_muts = _fuzz_build_items(cfg['corpus'], rep.tier,
                                                     rep.rng)
    cfg['items'] = items
    res = _run_pool('fuzz', cfg, hang_s=2.0)
    for c in res['crash']:
        rep.error('fuzz child: ' + c)
    # confirm hangs (smallest first, at most 3 per key) in fresh processes
    hangs = sorted(set(res['hang']), key=lambda i: (len(items[i]), i))
    per_key = {}
    n_hang_confirmed = 0
    todo = []
    for i in hangs:
        k = _hang_key(items[i])
        if per_key.get(k, 0) < 3:
            per_key[k] = per_key.get(k, 0) + 1
            todo.append(i)
    for i, r in zip(todo, _run_singles('fuzz', cfg, [items[i] for i in todo], 5.0)):
        if r[0] == 'hang':
            n_hang_confirmed += 1
            _report_hang(rep, items[i])
        elif r[0] == 'crash':
            rep.error('fuzz hang confirmation: ' + str(r[1]))
        else:
            rep.note('fuzz: datagram %s exceeded the 2 s watchdog once but '
                     'returned when re-run alone; not reported' % _short(items[i]))
    _report_sorted(rep, res['viol'])
    status = _merge_counts(res['stats'], 'status')
    n = sum(s['n'] for s in res['stats']) + len(res['hang']) + res['killed_n']
    delivered = sum(s['delivered'] for s in res['stats'])
    distinct = len(set(items))
    rep.bounded(
        name='fuzz',
        function='sc3.base._oscinterface.OscInterface._handle_request '
                 '(the function the UDP thread calls) -> _osclib.OscPacket -> '
                 'SystemClock -> receive functions',
        bound='corpus of %d valid messages/bundles built with sc3\'s builders; '
              'every truncation; %d of the %d single-byte mutations%s; every '
              'bundle element size field set to 25 negative/huge/odd values; '
              'hand-made hostile datagrams (invalid UTF-8, type tags, strings, '
              'blob sizes, 600-deep nesting, 64 KiB)' % (
                  len(cfg['corpus']), used_muts, total_muts,
                  '' if used_muts == total_muts else ' (seeded sample)'),
        evaluations=n, distinct_nontrivial=distinct,
        rule='each datagram: call under a 2 s watchdog in a worker process; '
             'nothing may be raised; the messages reaching the receive '
             'functions (catch-all function + OscFunc on /sentinel) must be '
             'none when a strict OSC 1.0 reader calls the datagram malformed, '
             'exactly its messages (value, time, sender, port) when valid, '
             'anything when the specification leaves it open; then a valid '
             'probe datagram must be delivered exactly once; non-trivial = '
             'distinct datagrams',
        samples=[_short(items[i]) for i in (0, len(cfg['corpus']) + 5,
                                            len(items) // 2, len(items) - 1)],
        exhaustive=(used_muts == total_muts),
        extra={'strict_verdicts': status, 'datagrams_dispatching_something':
               delivered, 'watchdog_kills': len(res['hang']),
               'hangs_confirmed': n_hang_confirmed})


# ---------------------------------------------------------------------------
# sub-check: dispatch
# ---------------------------------------------------------------------------
#
# History ops (JSON lists):
#   ['new', kind, path]   kind in plain|match|src|port|tmpl  (enabled at birth)
#   ['enable', i] ['disable', i] ['one_shot', i] ['free', i]
#   ['setfunc', i]        replace the function (r.func = g)
#   ['setkill', i, j]     replace the function of i by one that frees j
#   ['perm', i]           r.permanent = True
#   ['cmdperiod']         CmdPeriod.run()
#   ['msg', q, variant]   variant in base|B|if1|arg2|bundle|noargs
# Filters: src accepts sender A only; port accepts the second UDP interface
# only; tmpl = arg_template [1].

_D_NEW = [['new', k, '/a'] for k in ('plain', 'match', 'src', 'port', 'tmpl')] \
    + [['new', 'plain', '/b'], ['new', 'match', '/b']]
_D_MSG = [['msg', '/a', v] for v in ('base', 'B', 'if1', 'arg2', 'bundle', 'noargs')] \
    + [['msg', '/?', 'base'], ['msg', '/?', 'bundle'], ['msg', '/b', 'base']]
_D_RESP_OPS = ('disable', 'enable', 'one_shot', 'free', 'setfunc', 'perm')


def _disp_ops(k, freed, maxnew):
    ops = []
    if k < maxnew:
        ops.extend(_D_NEW)
    if k == 0:
        return ops
    for i in range(k):
        if i in freed:
            continue
        for o in _D_RESP_OPS:
            ops.append([o, i])
        for j in range(k):
            if j != i:
                ops.append(['setkill', i, j])
    ops.append(['cmdperiod'])
    ops.extend(_D_MSG)
    return ops


def _disp_histories(maxlen, maxnew=3):
    def rec(prefix, k, freed):
        for op in _disp_ops(k, freed, maxnew):
            h = prefix + [op]
            if op[0] == 'msg':
                yield h
            if len(h) < maxlen:
                yield from rec(h, k + (op[0] == 'new'),
                               freed | {op[1]} if op[0] == 'free' else freed)
    return rec([], 0, frozenset())


def _disp_random_history(rng, length, maxnew=3):
    h, k, freed = [], 0, frozenset()
    while len(h) < length:
        ops = _disp_ops(k, freed, maxnew)
        if len(h) == length - 1:
            ops = [o for o in ops if o[0] == 'msg'] or ops
        op = rng.choice(ops)
        h.append(op)
        if op[0] == 'new':
            k += 1
        elif op[0] == 'free':
            freed = freed | {op[1]}
    return h


class _MR:
    """Model of one responder."""

    def __init__(self, rid, kind, path, seq):
        self.rid = rid
        self.kind = kind
        self.path = path
        self.disp = 'match' if kind == 'match' else 'exact'
        self.enabled = True
        self.freed = False
        self.tag = 0
        self.oneshot = 'no'          # no | yes | maybe
        self.kill = None
        self.permanent = False       # False | True | 'unknown'
        self.seq = seq
        self.stable = True           # never re-enabled
        self.unspec = False


def _accepts(r, q, variant):
    if r.disp == 'exact':
        if r.path != q:
            return False, 'path'
    elif not osc_match(q, r.path):
        return False, 'path'
    if r.kind == 'src' and variant == 'B':
        return False, 'source'
    if r.kind == 'port' and variant != 'if1':
        return False, 'port'
    if r.kind == 'tmpl' and variant in ('arg2', 'noargs'):
        return False, 'template'
    return True, None


def _before(x, y):
    """Is x guaranteed to be called before y?  Only demanded within one
    dispatcher and one path, between responders that were never re-enabled."""
    return (x.disp == y.disp and x.path == y.path and x.stable and y.stable
            and x.seq < y.seq)


class _DispHarness:
    def __init__(self, rt):
        import socket
        self.rt = rt
        self.log = []
        self.sync_seen = []
        self.sync_ev = rt.threading.Event()
        self.sA = socket.socket(socket.AF_INET, socket.SOCK_DGRAM)
        self.sA.bind(('127.0.0.1', 0))
        self.sB = socket.socket(socket.AF_INET, socket.SOCK_DGRAM)
        self.sB.bind(('127.0.0.1', 0))
        self.addrA = self.sA.getsockname()
        self.addrB = self.sB.getsockname()
        tmp = socket.socket(socket.AF_INET, socket.SOCK_DGRAM)
        tmp.bind(('127.0.0.1', 0))
        self.p1 = tmp.getsockname()[1]
        tmp.close()
        rt.main.open_udp_port(self.p1)
        host = socket.gethostbyname('localhost')
        self.if0 = rt.iface
        self.if1 = rt.osci.OscInterface._local_endpoints[(host, self.p1)]
        self.nsync = 0

        def sync_func(msg, time, addr, recv_port):
            if msg[0] == '/c18sync':
                self.sync_seen.append(msg[1])
                self.sync_ev.set()
        rt.main.add_osc_recv_func(sync_func)
        self.sync_func = sync_func
        self.cp_saved = dict(rt.sac.CmdPeriod._actions)
        self.tt5 = rt.osc0 + (5 << 32)

    def datagram(self, q, variant):
        d = _pad(q.encode('ascii'))
        if variant == 'noargs':
            d += _pad(b',')
        else:
            d += _pad(b',i') + struct.pack('>i', 2 if variant == 'arg2' else 1)
        if variant == 'bundle':
            d = b'#bundle\0' + struct.pack('>Q', self.tt5) \
                + struct.pack('>i', len(d)) + d
        return d

    def deliver(self, q, variant, udp):
        rt = self.rt
        iface = self.if1 if variant == 'if1' else self.if0
        sender = self.addrB if variant == 'B' else self.addrA
        d = self.datagram(q, variant)
        t0 = rt.main.elapsed_time()
        if not udp:
            iface._handle_request(d, sender)
            rt.sync()
        else:
            sock = self.sB if variant == 'B' else self.sA
            self.nsync += 1
            self.sync_ev.clear()
            sock.sendto(d, ('127.0.0.1', iface.port))
            sd = _pad(b'/c18sync') + _pad(b',i') + struct.pack('>i', self.nsync)
            sock.sendto(sd, ('127.0.0.1', iface.port))
            deadline = time.time() + 20
            while self.nsync not in self.sync_seen:
                if not self.sync_ev.wait(max(0.0, deadline - time.time())):
                    return None
                self.sync_ev.clear()
            del self.sync_seen[:]
            rt.sync()
        t1 = rt.main.elapsed_time()
        return (t0, t1, sender, iface.port)

    def cleanup(self, resp):
        rt = self.rt
        for r in resp:
            try:
                r.free()
            except Exception:
                pass
        rt.sac.CmdPeriod._actions = dict(self.cp_saved)
        for d in (rt.rpd.OscFunc._default_dispatcher,
                  rt.rpd.OscFunc._default_matching_dispatcher):
            if getattr(d, 'active', None) or getattr(d, 'wrapped_funcs', None):
                d.active.clear()
                d.wrapped_funcs.clear()
                try:
                    d.unregister()
                except Exception:
                    pass
        try:
            rt.rpd.OscFunc._all_func_proxies.clear()
        except Exception:
            pass


def _disp_viol(key, what, item, observed, expected):
    return {'obligation': 'C18.dispatch', 'what': what, 'input': item,
            'observed': observed, 'expected': expected,
            'key': 'C18.dispatch:' + key, 'size': len(item[1]),
            'replay': {'func': 'dispatch', 'args': item}}


def _disp_run_history(hs, item):
    """Returns a list of violation payloads (at most one: the first)."""
    udp, hist = item[0] == 'udp', item[1]
    rt = hs.rt
    rpd, nad = rt.rpd, rt.nad
    resp, model = [], []
    log = hs.log
    del log[:]
    seq = [0]

    def mkfunc(rid, tag, kill=None):
        def f(msg, time, addr, recv_port):
            log.append((rid, tag, msg, time, (addr.hostname, addr.port),
                        recv_port))
            if kill is not None:
                resp[kill].free()
        return f

    try:
        for step, op in enumerate(hist):
            o = op[0]
            try:
                if o == 'new':
                    kind, path = op[1], op[2]
                    rid = len(resp)
                    f = mkfunc(rid, 0)
                    if kind == 'plain':
                        r = rpd.OscFunc(f, path)
                    elif kind == 'match':
                        r = rpd.OscFunc.matching(f, path)
                    elif kind == 'src':
                        r = rpd.OscFunc(f, path, nad.NetAddr(*hs.addrA))
                    elif kind == 'port':
                        r = rpd.OscFunc(f, path, recv_port=hs.p1)
                    else:
                        r = rpd.OscFunc(f, path, arg_template=[1])
                    resp.append(r)
                    seq[0] += 1
                    model.append(_MR(rid, kind, path, seq[0]))
                elif o == 'enable':
                    m = model[op[1]]
                    resp[op[1]].enable()
                    if m.freed:
                        m.unspec = True     # enable after free: left open
                    elif not m.enabled:
                        m.enabled = True
                        m.stable = False
                        seq[0] += 1
                        m.seq = seq[0]
                elif o == 'disable':
                    resp[op[1]].disable()
                    model[op[1]].enabled = False
                elif o == 'free':
                    resp[op[1]].free()
                    model[op[1]].enabled = False
                    model[op[1]].freed = True
                elif o == 'one_shot':
                    resp[op[1]].one_shot()
                    model[op[1]].oneshot = 'yes'
                elif o in ('setfunc', 'setkill'):
                    m = model[op[1]]
                    m.tag += 1
                    m.kill = op[2] if o == 'setkill' else None
                    resp[op[1]].func = mkfunc(m.rid, m.tag, m.kill)
                    if m.oneshot == 'yes':
                        m.oneshot = 'maybe'  # does one_shot survive? left open
                elif o == 'perm':
                    m = model[op[1]]
                    resp[op[1]].permanent = True
                    m.permanent = True if (m.enabled and
                                           m.permanent != 'unknown') else 'unknown'
                elif o == 'cmdperiod':
                    rt.sac.CmdPeriod.run()
                    for m in model:
                        if m.freed:
                            continue
                        if not m.enabled or m.permanent == 'unknown':
                            m.unspec = True
                        elif m.permanent is False:
                            m.enabled = False
                            m.freed = True
                elif o == 'msg':
                    q, variant = op[1], op[2]
                    n0 = len(log)
                    env = hs.deliver(q, variant, udp)
                    if env is None:
                        return [None]        # loopback probe lost: inconclusive
                    t0, t1, sender, port = env
                    v = _disp_compare(hs, item, step, model, q, variant,
                                      log[n0:], t0, t1, sender, port)
                    if v is not None:
                        return [v]
            except RuntimeError:
                raise
            except Exception as e:
                return [_disp_viol(
                    'api-raises', '%r (step %d) raised %s: %s' % (
                        op, step, type(e).__name__, e), item,
                    type(e).__name__, 'no exception')]
    finally:
        hs.cleanup(resp)
    return []


def _disp_compare(hs, item, step, model, q, variant, raw, t0, t1, sender, port):
    # a responder whose state is no longer specified may or may not run its
    # kill function: its target is no longer specified either
    changed = True
    while changed:
        changed = False
        for m in model:
            if m.unspec and m.kill is not None and not model[m.kill].unspec:
                model[m.kill].unspec = True
                changed = True
    obs = [e for e in raw if not model[e[0]].unspec]
    cands = []
    why_not = {}
    for m in model:
        if m.unspec:
            continue
        if not m.enabled:
            why_not[m.rid] = 'freed' if m.freed else 'disabled'
            continue
        ok, why = _accepts(m, q, variant)
        if ok:
            cands.append(m)
        else:
            why_not[m.rid] = why
    # a candidate freed by another candidate's callback may or may not run
    # (left open) unless it is guaranteed to come first
    optional = set()
    for c in cands:
        for k in cands:
            if k is not c and k.kill == c.rid and not _before(c, k):
                optional.add(c.rid)
    must = [c for c in cands if c.rid not in optional]
    exp_desc = {'must': [c.rid for c in must], 'optional': sorted(optional)}
    obs_desc = [[e[0], e[1]] for e in obs]
    byrid = {}
    for e in obs:
        byrid.setdefault(e[0], []).append(e)
    what0 = 'history %r, message %d: ' % (item[1], step)
    removal = any(model[e[0]].oneshot != 'no' or model[e[0]].kill is not None
                  for e in raw)
    for rid, es in byrid.items():
        m = model[rid]
        if rid in why_not:
            reason = why_not[rid]
            if reason == 'freed' and m.oneshot != 'no':
                reason = 'one-shot-already-fired-or-freed'
            return _disp_viol('spurious:' + reason,
                              what0 + 'responder %d (%s %s) was invoked although %s'
                              % (rid, m.kind, m.path, reason), item, obs_desc, exp_desc)
        if len(es) > 1:
            return _disp_viol('invoked-twice', what0 + 'responder %d invoked %d '
                              'times' % (rid, len(es)), item, obs_desc, exp_desc)
    for c in must:
        if c.rid not in byrid:
            tm = [x for x in model if x.kind == 'tmpl' and x.path == q
                  and (x.enabled or x.unspec)]
            if variant == 'noargs' and tm:
                key = 'template-short-message'
            elif removal:
                key = 'skip-after-self-removal' + (
                    '-matching' if c.disp == 'match' else '')
            else:
                key = 'not-invoked'
            v = _disp_viol(key, what0 + 'enabled responder %d (%s %s), '
                           'untouched during this dispatch, was not invoked'
                           % (c.rid, c.kind, c.path), item, obs_desc, exp_desc)
            if key == 'template-short-message' and c.disp == 'match':
                # whether the matching dispatcher runs before or after the
                # exact one is arbitrary: keep the deterministic cases first
                v['size'] += 100
            return v
    exp_msg = [q] + ([] if variant == 'noargs' else [2 if variant == 'arg2' else 1])
    for e in obs:
        rid, tag, msg, tm, addr, rport = e
        m = model[rid]
        if tag != m.tag:
            return _disp_viol('stale-function', what0 + 'responder %d ran '
                              'function version %d, current is %d'
                              % (rid, tag, m.tag), item, obs_desc, exp_desc)
        ok_t = abs(tm - 5.0) < 1e-6 if variant == 'bundle' else t0 <= tm <= t1
        if msg != exp_msg or not ok_t or tuple(addr) != tuple(sender) \
                or rport != port:
            return _disp_viol('wrong-arguments', what0 + 'responder %d got '
                              '(%r, %r, %r, %r)' % (rid, msg, tm, addr, rport),
                              item, [msg, tm, addr, rport],
                              [exp_msg, 5.0 if variant == 'bundle' else [t0, t1],
                               sender, port])
    order = [e[0] for e in obs]
    for i, x in enumerate(order):
        for y in order[i + 1:]:
            if _before(model[y], model[x]):
                return _disp_viol('order', what0 + 'responder %d ran before %d'
                                  % (x, y), item, obs_desc, exp_desc)
    # effects of this dispatch on the model
    ran = set(byrid)
    for c in cands:
        if c.rid in optional and c.rid not in ran:
            continue
        sure = c.rid not in optional
        if c.kill is not None:
            t = model[c.kill]
            if c.rid in ran or sure:
                t.enabled = False
                t.freed = True
        if c.oneshot == 'yes':
            c.enabled = False
            c.freed = True
        elif c.oneshot == 'maybe':
            c.unspec = True
    for rid in optional:
        # freed by its killer if that one ran (it did, or it was optional too)
        killers = [k for k in cands if k.kill == rid and k.rid != rid]
        if all(k.rid in ran for k in killers):
            model[rid].enabled = False
            model[rid].freed = True
        else:
            model[rid].unspec = True
    return None


def _disp_setup(cfg):
    rt = _RT()
    return {'rt': rt, 'hs': _DispHarness(rt),
            'stats': {'n': 0, 'msgs': 0, 'udp': 0, 'inconclusive': 0,
                      'nontriv': 0}}


def _disp_items_gen(cfg):
    idx = 0
    for h in _disp_histories(cfg['exh_len']):
        yield idx, ['direct', h]
        idx += 1
    rng = random.Random(cfg['seed'])
    for n, length in cfg['random']:
        for _ in range(n):
            yield idx, ['direct', _disp_random_history(rng, length)]
            idx += 1
    for _ in range(cfg['udp_n']):
        yield idx, ['udp', _disp_random_history(rng, rng.choice((3, 4, 5)))]
        idx += 1
    for h in _DISP_SEEDS:
        yield idx, ['direct', h]
        idx += 1
        yield idx, ['udp', h]
        idx += 1


_DISP_SEEDS = [
    [['new', 'plain', '/a'], ['new', 'plain', '/a'], ['new', 'plain', '/a'],
     ['one_shot', 0], ['msg', '/a', 'base']],
    [['new', 'match', '/a'], ['new', 'match', '/a'], ['new', 'match', '/a'],
     ['one_shot', 0], ['msg', '/?', 'base'], ['msg', '/a', 'base']],
    [['new', 'plain', '/a'], ['new', 'plain', '/a'], ['new', 'plain', '/a'],
     ['setkill', 1, 0], ['msg', '/a', 'base'], ['msg', '/a', 'base']],
    [['new', 'plain', '/a'], ['new', 'src', '/a'], ['new', 'port', '/a'],
     ['new', 'tmpl', '/a'], ['msg', '/a', 'base'], ['msg', '/a', 'B'],
     ['msg', '/a', 'if1'], ['msg', '/a', 'arg2'], ['msg', '/a', 'bundle']],
    [['new', 'plain', '/a'], ['perm', 0], ['new', 'plain', '/a'],
     ['cmdperiod'], ['msg', '/a', 'base']],
    # exact responders do not fire on a prefix / an extension of their path
    [['new', 'plain', '/ab'], ['new', 'plain', '/a'], ['new', 'plain', '/a/b'],
     ['msg', '/a', 'base'], ['msg', '/ab', 'base'], ['msg', '/a/b', 'base'],
     ['msg', '/', 'base'], ['msg', '/abc', 'base']],
]


def _disp_items(cfg):
    return _items_of(cfg, lambda: _disp_items_gen(cfg))


def _disp_run(ctx, idx, item):
    st = ctx['stats']
    st['n'] += 1
    st['msgs'] += sum(1 for op in item[1] if op[0] == 'msg')
    if item[0] == 'udp':
        st['udp'] += 1
    if len(item[1]) > 2:
        st['nontriv'] += 1
    out = _disp_run_history(ctx['hs'], item)
    if out == [None]:
        st['inconclusive'] += 1
        return ()
    return out


_ROLE_SETUP['dispatch'] = _disp_setup
_ROLE_ITEMS['dispatch'] = _disp_items
_ROLE_RUN['dispatch'] = _disp_run


def check_dispatch(rep):
    if rep.tier == 'thorough':
        cfg = {'exh_len': 5, 'random': [(300000, 6), (100000, 7)],
               'udp_n': 20000}
    else:
        cfg = {'exh_len': 4, 'random': [(80000, 5), (20000, 6)],
               'udp_n': 1500}
    cfg['seed'] = rep.rng.randrange(1 << 30)
    res = _run_pool('dispatch', cfg)
    for c in res['crash']:
        rep.error('dispatch child: ' + c)
    _report_sorted(rep, res['viol'])
    tot = lambda f: sum(s[f] for s in res['stats'])
    if tot('inconclusive'):
        rep.note('dispatch: %d loopback histories inconclusive (probe datagram '
                 'not seen within 20 s)' % tot('inconclusive'))
    rep.note('dispatch: left open on purpose: whether a responder freed by an '
             'earlier callback of the same dispatch still runs; call order '
             'between responders of different paths or of the exact and the '
             'matching dispatcher, and of re-enabled responders; enable() '
             'after free(); whether one_shot survives a later function '
             'replacement; permanent set while disabled and disabled '
             'responders across CmdPeriod.run()')
    rep.bounded(
        name='dispatch',
        function='OscFunc / OscFunc.matching / enable / disable / one_shot / '
                 'free / func setter / permanent / CmdPeriod.run x '
                 'OscInterface._handle_request(datagram, sender) (rt mode; a '
                 'sample through real UDP loopback sockets)',
        bound='all histories of length<=%d (<=3 responders; 7 creations, 6 '
              'per-responder ops + kill-other functions, CmdPeriod, 9 message '
              'variants) ending in a message; seeded random histories %r '
              '(count, length); %d random histories through UDP loopback' % (
                  cfg['exh_len'], cfg['random'], cfg['udp_n']),
        evaluations=tot('n'), distinct_nontrivial=tot('nontriv'),
        rule='reference model: responders in registration order with enabled '
             'flag; after every message the log of callback invocations must '
             'be exactly the enabled responders whose path equals / is matched '
             'by the address and whose source, port and template accept, once '
             'each, current function, (msg, time, sender, port) exact, '
             'registration order within one dispatcher+path; non-trivial = '
             'length>2',
        samples=[_DISP_SEEDS[0], _DISP_SEEDS[3]], exhaustive=False,
        extra={'messages_delivered': tot('msgs'), 'udp_histories': tot('udp')})


# ---------------------------------------------------------------------------
# sub-check: one-shot responders whose function raises
# ---------------------------------------------------------------------------

def _oneshot_raising_child(cases):
    """-> list of (case, invocations, still_enabled, still_registered, errors)."""
    import sc3
    sc3.init('nrt')
    from sc3.base.netaddr import NetAddr
    from sc3.base.responders import OscFunc
    sender = NetAddr('127.0.0.1', 57110)
    out = []
    for kind, raising, nmsgs, with_other in cases:
        calls, other_calls, errors = [], [], []

        def func(msg, time, addr, recv_port, _c=calls, _r=raising):
            _c.append(list(msg))
            if _r:
                raise ValueError('responder function failed')
        path = '/c18os/%s/%d' % (kind, len(out))
        ctor = OscFunc.matching if kind == 'match' else OscFunc
        disp = OscFunc._default_matching_dispatcher if kind == 'match' else OscFunc._default_dispatcher
        resp = ctor(func, path)
        resp.one_shot()
        other = None
        if with_other:
            other = ctor(lambda msg, *a, _o=other_calls: _o.append(list(msg)), path)
        for i in range(nmsgs):
            try:
                disp([path, i], 0.0, sender, 57120)
            except Exception as e:
                errors.append(type(e).__name__)
        out.append(([kind, raising, nmsgs, with_other], [list(c) for c in calls], bool(resp.enabled),
                    resp in OscFunc._all_func_proxies, errors, len(other_calls)))
        for r in (resp, other):
            if r is not None:
                try:
                    r.free()
                except Exception:
                    pass
    return out


def check_oneshot_raising(rep):
    cases = [[k, r, n, o] for k in ('exact', 'match') for r in (False, True) for n in (1, 2, 3)
             for o in (False, True)]
    res = _in_child(_oneshot_raising_child, cases)
    n = 0
    for case, calls, enabled, registered, errors, nother in res:
        n += 1
        kind, raising, nmsgs, with_other = case
        if len(calls) != 1 or calls[0][1] != 0:
            rep.violation(
                obligation='C18.dispatch',
                what='one-shot responder on the %s dispatcher whose function %s was invoked %d times by %d '
                     'messages with its address (errors seen by the caller: %r)' % (
                         kind, 'raises' if raising else 'returns', len(calls), nmsgs, errors),
                input={'case': case}, observed=calls, expected='invoked by the first message only',
                key='C18.dispatch:spurious:one-shot-already-fired-or-freed' + (':raising' if raising else ''),
                replay={'func': 'oneshot', 'args': case})
        elif enabled or registered:
            rep.violation(
                obligation='C18.dispatch',
                what='one-shot responder on the %s dispatcher whose function %s is still %s after it fired' % (
                    kind, 'raises' if raising else 'returns',
                    'enabled' if enabled else 'registered'),
                input={'case': case}, observed={'enabled': enabled, 'registered': registered},
                expected='freed', key='C18.dispatch:one-shot-still-live' + (':raising' if raising else ''),
                replay={'func': 'oneshot', 'args': case})
    rep.bounded(
        name='oneshot-raising', function='AbstractResponderFunc.one_shot x OscMessageDispatcher/'
                                         'OscMessagePatternDispatcher.__call__',
        bound='%d scenarios: one-shot responder on the exact / matching dispatcher, function returning or '
              'raising, 1-3 messages with its address, with and without a second responder on the same '
              'address (messages handed to the dispatcher as the receive path does)' % len(cases),
        evaluations=n, distinct_nontrivial=sum(1 for c in cases if c[1]),
        rule='the responder is invoked by the first message only and is disabled and unregistered afterwards, '
             'whether or not its function raised (the error itself may propagate to the caller); '
             'non-trivial = raising function', samples=cases[:2] + cases[-2:], exhaustive=True)


# ---------------------------------------------------------------------------
# main / replay
# ---------------------------------------------------------------------------

def main(rep):
    if wants(rep, 'match'):
        check_match(rep)
    if wants(rep, 'registries'):
        check_registries(rep)
    if wants(rep, 'dispatch'):
        check_dispatch(rep)
    if wants(rep, 'oneshot-raising'):
        check_oneshot_raising(rep)
    if wants(rep, 'fuzz'):
        check_fuzz(rep)


def replay(case, rep):
    r = case.get('replay') or {}
    func, args = r.get('func'), r.get('args')
    if func == 'oneshot':
        check_oneshot_raising(rep)
        return not rep.violations
    if func == 'match':
        p, a = args
        res = _run_single('match1', {}, [p, a], 60)
        if res[0] != 'ok':
            raise RuntimeError('replay match: %r' % (res,))
        for v in res[1]:
            _report_match_violation(rep, *v)
        return not rep.violations
    if func == 'registries':
        res = _run_single('registries', {}, args, 60)
        if res[0] == 'ok':
            for v in res[1]:
                _report_generic(rep, v)
        else:
            raise RuntimeError('replay registries: %r' % (res,))
        return not rep.violations
    if func == 'dispatch':
        res = _run_single('dispatch', _rt_cfg(), args, 60)
        if res[0] == 'ok':
            for v in res[1]:
                _report_generic(rep, v)
        else:
            raise RuntimeError('replay dispatch: %r' % (res,))
        return not rep.violations
    if func == 'fuzz':
        dg = bytes.fromhex(args['bytes_hex'] if isinstance(args, dict) else args)
        cfg = _rt_cfg()
        res = _run_single('fuzz', cfg, dg, 5.0)
        if res[0] == 'hang':
            _report_hang(rep, dg)
        elif res[0] == 'ok':
            for v in res[1]:
                _report_generic(rep, v)
        else:
            raise RuntimeError('replay fuzz: %r' % (res,))
        return not rep.violations
    raise RuntimeError('unknown replay %r' % (r,))


def _match1_run(ctx, idx, item):
    p, a = item
    got, exp, raised = _match_eval(ctx['f'], p, a)
    if got != exp:
        return [[_match_class(p, a, got, exp, ctx['lax']), p, a, got, exp, raised]]
    return []


_ROLE_SETUP['match1'] = _match_setup
_ROLE_ITEMS['match1'] = lambda cfg: _items_of(cfg, tuple)
_ROLE_RUN['match1'] = _match1_run


def _report_generic(rep, v):
    rep.violation(obligation=v['obligation'], what=v['what'], input=v['input'],
                  key=v['key'], observed=v.get('observed'),
                  expected=v.get('expected'), replay=v['replay'])


if __name__ == '__main__':
    driver_main('C18', main, replay)
