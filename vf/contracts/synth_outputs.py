"""Contracts around output units (C03, C02):

  SynthObject._replace_zeroes_with_silence(lst)  (C03: "Output units receive the ... channel array with
      literal zeros replaced by audio-rate silence")
      position by position, in place: a number equal to zero becomes THE silence unit made once at the
      start (DC.ar(0)); a nested list becomes the result of the same replacement applied to it; every
      other element - and every position not visited yet - is untouched; the same list is returned.
  AbstractOut._check_inputs()  (C02: "a graph the library cannot compile is rejected")
      an audio-rate output unit whose signal inputs (those after the fixed ones) are not all audio rate
      returns a complaint naming the FIRST such position; a non-audio unit with no signal input complains
      too; otherwise the generic check decides.

Lists are array-backed sequences (stores are array stores), the recursive call and DC.ar are opaque.
"""
import ast
import z3
from vf.pyvc.spec import contract, Loop
from vf.pyvc.values import *
from vf.pyvc import values as VV
from vf.pyvc.engine import Raised, Unsupported

F = 'sc3/synth/ugen.py'
FI = 'sc3/synth/ugens/inout.py'
G = 'sc3/synth/_graphparam.py'
OLD = z3.Array('lst.items', z3.IntSort(), VV.Any)
N = z3.Int('lst.len')
SILENCE = z3.Const('the-silence', VV.Any)
REC = z3.Function('replaced_sublist', VV.Any, VV.Any)


def arr_seq(arr):
    return V('seq', extra={'len': N, 'arr': arr, 'thelist': True,
                           'get': (lambda eng_, i, st_, _a=arr: V('any', z3.Select(_a, i)))})


def lst_kind(eng, name):
    v = arr_seq(OLD)
    v.extra['facts'] = [N >= 0]
    return v


def h_setitem(eng, obj, idx, v, st, node):
    if obj.k == 'seq' and obj.extra.get('thelist') and idx.k == 'int':
        if v.k == 'any':
            val = v.z
        elif v.k == 'obj' and v.oid == 'silence':
            val = SILENCE
        else:
            raise Unsupported(node, 'store of %r' % (v,))
        new = arr_seq(z3.Store(obj.extra['arr'], idx.z, val))
        for k_, v_ in list(st.env.items()):
            if v_ is obj:
                st.env[k_] = new
        st.trace.append(('store', idx.z))
        return [('next', st)]
    return None


def h_global(eng, name, node, st):
    if name == 'lne':
        return V('module', py='ext:sc3.synth.ugens.line')
    return None


def h_getattr(eng, obj, name, st, node):
    if obj.k == 'module' and name == 'DC':
        return [(st, V('obj', oid='DC'))]
    if obj.k == 'obj' and obj.oid == 'DC' and name == 'ar':
        def ar(eng, args, kwargs, st, node):
            ok = len(args) == 1 and args[0].k == 'int' and z3.is_int_value(z3.simplify(args[0].z)) \
                and z3.simplify(args[0].z).as_long() == 0
            st.trace.append(('silence-made', ok))
            return [(st, V('obj', oid='silence'))]
        return [(st, V('func', py=('spec', ar)))]
    return None


def recurse(eng, selfv, args, kwargs, st, node):
    a = args[0]
    if a.k not in ('any', 'dyn'):
        raise Unsupported(node, 'recursive replacement of %r' % (a,))
    st.trace.append(('recurse', a.z))
    return [(st, V('any', REC(a.z)))]


def want(k):
    x = z3.Select(OLD, k)
    t = VV.tag_of(x)
    zero_num = z3.Or(z3.And(t == TAGS['int'], VV.any_int(x) == 0), z3.And(t == TAGS['float'], VV.any_real(x) == 0),
                     z3.And(t == TAGS['bool'], z3.Not(VV.any_bool(x))))      # False == 0.0 too
    return z3.If(zero_num, SILENCE, z3.If(t == TAGS['list'], REC(x), x))


def zero_inv(c, L):
    cur = c.st.env['lst']
    if cur.k != 'seq' or 'arr' not in cur.extra:
        return z3.BoolVal(False)
    k = z3.Int('k')
    made = [e for e in c.trace if e[0] == 'silence-made']
    return z3.And(z3.BoolVal(len(made) == 1 and bool(made[0][1])),         # ONE silence unit, DC.ar(0)
                  z3.ForAll([k], z3.Implies(z3.And(k >= 0, k < N),
                                            z3.Select(cur.extra['arr'], k) == z3.If(k < L.i, want(k), z3.Select(OLD, k)))))


def zero_post(c):
    r = c.resultv
    cur = c.st.env['lst']
    k = z3.Int('k')
    return z3.And(z3.BoolVal(r is cur and cur.k == 'seq'),                   # the same list comes back
                  z3.ForAll([k], z3.Implies(z3.And(k >= 0, k < N), z3.Select(cur.extra['arr'], k) == want(k))))


contract(F, 'SynthObject._replace_zeroes_with_silence', props=('C03',),
         params={'cls': 'cls', 'lst': lst_kind},
         requires=lambda c: N >= 0,
         ensures=[('zeros->the-one-silence-unit,sublists->their-replacement,rest-untouched', zero_post)],
         loops={0: Loop(inv=zero_inv, kinds={'i': 'int', 'item': 'any'})},
         hooks={'getattr': h_getattr, 'setitem': h_setitem, 'global': h_global},
         policies={'SynthObject._replace_zeroes_with_silence': recurse},
         class_modules={'SynthObject': F}, native=False,
         note='numeric comparison item == 0.0 on the dynamic value model (int, float and bool tags)')


# ---- AbstractOut._check_inputs -----------------------------------------------------------------------------
def rate_of(k):
    return z3.Const('rate_is_audio[%s]' % k, z3.BoolSort())


AUDIO = z3.Function('input_is_audio_rate', z3.IntSort(), z3.BoolSort())


def o_inputs_kind(eng, name):
    n = z3.Int('self.inputs.len')

    def get(eng_, i, st_):
        return V('obj', oid='input', extra={'index': i})
    return V('seq', extra={'len': n, 'facts': [n >= 0], 'get': get})


def o_ugen_param(eng, selfv, args, kwargs, st, node):
    return [(st, V('obj', oid='param', extra={'of': args[0]}))]


def o_getattr(eng, obj, name, st, node):
    if obj.k == 'obj' and obj.oid == 'param' and name == '_as_ugen_rate':
        def rate(eng, args, kwargs, st, node, _o=obj):
            return [(st, V('obj', oid='rate', extra={'index': _o.extra['of'].extra['index']}))]
        return [(st, V('func', py=('spec', rate)))]
    return None


def o_compare(eng, op, a, b, st, node):
    if isinstance(op, (ast.Eq, ast.NotEq)):
        for p, q in ((a, b), (b, a)):
            if p.k == 'obj' and p.oid == 'rate' and q.k == 'str' and q.py == 'audio':
                r = AUDIO(p.extra['index'])
                return z3.Not(r) if isinstance(op, ast.NotEq) else r
    return None


def fixed_args(eng, selfv, args, kwargs, st, node):
    n = z3.Int('fixed_args')
    st.pc.append(n >= 0)
    return [(st, vint(n))]


def valid_inputs(eng, selfv, args, kwargs, st, node):
    st.trace.append(('generic-check',))
    return [(st, V('obj', oid='generic-result'))]


def out_inv(c, L):
    # every signal input visited so far is audio rate
    k = z3.Int('k')
    fx = z3.Int('fixed_args')
    return z3.ForAll([k], z3.Implies(z3.And(k >= fx, k < fx + L.i), AUDIO(k)))


def out_post(rate):
    def post(c):
        r = c.resultv
        fx, n = z3.Int('fixed_args'), z3.Int('self.inputs.len')
        k = z3.Int('k')
        generic = [e for e in c.trace if e[0] == 'generic-check']
        if rate == 'audio':
            if r.k == 'obj' and r.oid == 'generic-result':
                return z3.And(z3.BoolVal(len(generic) == 1),
                              z3.ForAll([k], z3.Implies(z3.And(k >= fx, k < n), AUDIO(k))))      # all audio rate
            if r.k == 'str':
                i = c.st.env['i'].z                                                             # the index it names
                return z3.And(z3.BoolVal(not generic), i >= fx, i < n, z3.Not(AUDIO(i)),
                              z3.ForAll([k], z3.Implies(z3.And(k >= fx, k < i), AUDIO(k))))      # the FIRST offender
            return z3.BoolVal(False)
        if r.k == 'str':
            return z3.And(z3.BoolVal(r.py == 'missing input at index 1' and not generic), n <= fx)
        return z3.And(z3.BoolVal(r.k == 'obj' and r.oid == 'generic-result' and len(generic) == 1), n > fx)
    return post


for rate in ('audio', 'control', 'scalar'):
    contract(FI, 'AbstractOut._check_inputs', props=('C02',), params={'self': 'self'},
             ensures=[('first-non-audio-signal-input-named;missing-input-reported;else-generic-check', out_post(rate))],
             loops={0: Loop(early_exit=True, inv=out_inv, kinds={'i': 'int'})},
             modifies=[], fields={'AbstractOut': {'rate': 'const:%r' % rate, 'inputs': o_inputs_kind}},
             hooks={'getattr': o_getattr, 'compare': o_compare},
             policies={G + '::ugen_param': o_ugen_param, 'AbstractOut._num_fixed_args': fixed_args,
                       'AbstractOut._check_valid_inputs': valid_inputs, 'SynthObject._check_valid_inputs': valid_inputs,
                       'UGen._check_valid_inputs': valid_inputs},
             class_modules={'AbstractOut': FI}, native=False)
    from vf.pyvc.spec import REGISTRY
    key = '%s::AbstractOut._check_inputs#%s' % (FI, rate)
    REGISTRY[key] = REGISTRY.pop('%s::AbstractOut._check_inputs' % FI)
    REGISTRY[key].key = key
