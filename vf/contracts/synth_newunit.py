"""Contracts for how ONE unit comes into being, sc3/synth/ugen.py (C03: "an expanded call creates exactly one unit per
combination"; C01/C02: every unit of the graph is registered once and has as many outputs as it says):

  SynthObject._new1(rate, *args)        ONE object is made, with the rate; it is added to the definition being built ONCE and
                                        BEFORE it is initialised; it is initialised once with exactly the caller's arguments;
                                        what the initialisation returns is the result
  MultiOutUGen._init_outputs(channels, rate)
                                        refused for no or fewer than one channel; else exactly `channels` output proxies are
                                        made - proxy i for (rate, this unit, i), in order - and kept as the unit's channel
                                        list; the result is the single proxy for one channel, else the list
"""
import z3
from vf.pyvc.spec import contract
from vf.pyvc.values import *
from vf.pyvc import values as VV
from vf.pyvc.engine import Raised, Unsupported

F = 'sc3/synth/ugen.py'


def args_kind(eng, name):
    return V('seq', extra={'len': z3.Int('args.len'), 'facts': [z3.Int('args.len') >= 0], 'callers-args': True,
                           'get': (lambda e_, i, s_: V('any', z3.Function('caller_arg', z3.IntSort(), VV.Any)(i)))})


def n1_create(eng, selfv, args, kwargs, st, node):
    r = V('obj', oid='new-unit!%d' % next(eng.counter), extra={'unit': True})
    st.trace.append(('created', tuple(args), r))
    return [(st, r)]


def n1_getattr(eng, obj, name, st, node):
    if obj.k == 'obj' and obj.extra and obj.extra.get('unit') and name in ('_add_to_synth', '_init_ugen'):
        def m(eng, a, kw, st, node, _o=obj, _n=name):
            r = V('obj', oid='result-of-' + _n + '!%d' % next(eng.counter)) if _n == '_init_ugen' else NONE
            st.trace.append((_n, _o, tuple(a), dict(kw), r))
            return [(st, r)]
        return [(st, V('func', py=('spec', m)))]
    return None


def new1_post(c):
    t = [e for e in c.trace if e[0] in ('created', '_add_to_synth', '_init_ugen')]
    if [e[0] for e in t] != ['created', '_add_to_synth', '_init_ugen']:
        return z3.BoolVal(False)                                               # one object; registered, THEN initialised
    cr, ad, ini = t
    u = cr[2]
    ok = (len(cr[1]) == 1 and cr[1][0] is c._params['rate'] and ad[1] is u and not ad[2] and ini[1] is u
          and len(ini[2]) == 1 and ini[2][0].k == 'star' and ini[2][0].extra['seq'] is c._params['args'] and not ini[3]
          and c.resultv is ini[4])
    return z3.BoolVal(bool(ok))


contract(F, 'SynthObject._new1', props=('C03', 'C01'), params={'cls': 'cls', 'rate': 'obj', 'args': args_kind},
         ensures=[('one-object-with-the-rate,registered-once-then-initialised-once-with-the-callers-arguments', new1_post)],
         fields={'SynthObject': {}}, class_modules={'SynthObject': F}, hooks={'getattr': n1_getattr},
         policies={'SynthObject._create_ugen_object': n1_create}, modifies=[], native=False)


# ---- MultiOutUGen._init_outputs ----------------------------------------------------------------------------------------------------
def io_listcomp(eng, e, it, st, node):
    import ast
    # [OutputProxy.new(rate, self, i) for i in range(channels)]
    if it.k in ('seq', 'range') and isinstance(e.elt, ast.Call) and ast.unparse(e.elt.func).endswith('OutputProxy.new') \
            and not e.generators[0].ifs and len(e.elt.args) == 3:
        var = e.generators[0].target.id
        a = [ast.unparse(x) for x in e.elt.args]
        if it.k == 'range':
            ra = it.extra['args']
            if len(ra) != 1 or ra[0].k != 'int':
                return None
            n = z3.If(ra[0].z > 0, ra[0].z, 0)
        else:
            n = it.extra['len']
        st.trace.append(('proxies', a, var, n))

        def get(e_, i, s_):
            return V('obj', oid='proxy', extra={'index': i})
        return [(st, V('seq', extra={'len': n, 'facts': [n >= 0], 'proxies': True, 'get': get}))]
    return None


def io_construct(eng, f, args, kwargs, st, node):
    if f.k == 'class' and f.py == 'ChannelList':
        r = V('obj', oid='channel-list', extra={'of': args[0] if args else None})
        st.trace.append(('channel-list', tuple(args), r))
        return [(st, r)]
    return None


def io_getitem(eng, obj, idx, st, node):
    if obj.k == 'obj' and obj.oid == 'channel-list' and idx.k == 'int':
        src = obj.extra['of']
        if src is not None and src.k == 'seq' and src.extra.get('proxies'):
            return [(st, V('obj', oid='proxy', extra={'index': idx.z, 'from-list': obj}))]
    return None


def init_outputs_post(c):
    t = c.trace
    px = [e for e in t if e[0] == 'proxies']
    cl = [e for e in t if e[0] == 'channel-list']
    kept = c.st.objs.get('self', {}).get('_channels')
    if len(px) != 1 or len(cl) != 1 or kept is not cl[0][2]:
        return z3.BoolVal(False)
    a, var, n = px[0][1], px[0][2], px[0][3]
    src = cl[0][1][0] if cl[0][1] else None
    ok = a == ['rate', 'self', var] and src is not None and src.k == 'seq' and src.extra.get('proxies')
    if not ok:
        return z3.BoolVal(False)
    r = c.resultv
    out = [n == c.channels]                                                   # exactly `channels` proxies: (rate, self, i) for i in order
    if r is kept:
        out.append(c.channels != 1)
    elif r.k == 'obj' and r.oid == 'proxy':
        out += [c.channels == 1, r.extra['index'] == 0]
    else:
        return z3.BoolVal(False)
    return z3.And(*out)


contract(F, 'MultiOutUGen._init_outputs', props=('C02', 'C01'),
         params={'self': 'self', 'channels': ['none', 'int'], 'rate': 'obj'},
         raises={'Exception': lambda c: z3.BoolVal(True) if c.kinds['channels'] == 'none' else c.channels < 1},
         ensures=[('exactly-channels-proxies-(rate,self,i)-in-order,kept;one-channel:the-proxy-itself,else-the-list', init_outputs_post)],
         fields={'MultiOutUGen': {'_channels': 'obj', 'name': 'obj'}}, class_modules={'MultiOutUGen': F},
         hooks={'listcomp': io_listcomp, 'construct': io_construct, 'getitem': io_getitem}, modifies=[('self', '_channels')], native=False)


# ---- UGen._compose_binop / _rcompose_binop (C15: a unit as operand keeps ITS side of the operator) --------------------------------
# the other operand is looked at as a graph parameter ONCE: a valid unit input makes ONE binary-operator unit for the
# server name of the selector with (self, other) - reflected: (other, self); anything else is asked to perform the
# operation on this unit itself (lists expand there), reflected form for the reflected call.
VALID = z3.Bool('other_operand_is_a_valid_unit_input')


def cb_param(eng, selfv, args, kwargs, st, node):
    r = V('obj', oid='param', extra={'of': args[0]})
    st.trace.append(('param', tuple(args), r))
    return [(st, r)]


def cb_opname(eng, selfv, args, kwargs, st, node):
    r = V('obj', oid='server-name', extra={'of': args[0]})
    st.trace.append(('opname', tuple(args), r))
    return [(st, r)]


def cb_getattr(eng, obj, name, st, node):
    if obj.k == 'obj' and obj.oid == 'param':
        if name == '_is_valid_ugen_input':
            def valid(eng, a, kw, st, node):
                return [(st, vbool(VALID))]
            return [(st, V('func', py=('spec', valid)))]
        if name in ('_perform_binary_op_on_ugen', '_r_perform_binary_op_on_ugen'):
            def perf(eng, a, kw, st, node, _n=name, _o=obj):
                r = V('obj', oid='performed')
                st.trace.append(('performed', _n, _o, tuple(a), r))
                return [(st, r)]
            return [(st, V('func', py=('spec', perf)))]
    if obj.k == 'obj' and obj.oid == 'selector' and name == '__name__':
        return [(st, V('obj', oid='selector.__name__'))]
    if obj.k == 'class' and obj.py == 'BinaryOpUGen' and name == 'new':
        def new(eng, a, kw, st, node):
            r = V('obj', oid='binop-unit')
            st.trace.append(('binop-new', tuple(a), r))
            return [(st, r)]
        return [(st, V('func', py=('spec', new)))]
    if obj.k == 'module' and name == 'ugen_param':
        return None
    return None


def compose_post(reflected):
    def post(c):
        t = c.trace
        pm = [e for e in t if e[0] == 'param']
        nw = [e for e in t if e[0] == 'binop-new']
        pf = [e for e in t if e[0] == 'performed']
        other = c._params['input']
        if len(pm) != 1 or len(pm[0][1]) != 1 or pm[0][1][0] is not other:
            return z3.BoolVal(False)
        me = lambda v: v.k == 'ref' and v.oid == 'self'
        if nw:
            a = nw[0][1]
            ok = (len(nw) == 1 and not pf and len(a) == 3 and a[0].k == 'obj' and a[0].oid == 'server-name'
                  and a[0].extra['of'].k == 'obj' and a[0].extra['of'].oid == 'selector.__name__'
                  and ((a[1] is other and me(a[2])) if reflected else (me(a[1]) and a[2] is other))
                  and c.resultv is nw[0][2])
            return z3.And(VALID, z3.BoolVal(bool(ok)))
        want = '_r_perform_binary_op_on_ugen' if reflected else '_perform_binary_op_on_ugen'
        ok = (len(pf) == 1 and pf[0][1] == want and pf[0][2] is pm[0][2] and len(pf[0][3]) == 2
              and pf[0][3][0] is c._params['selector'] and me(pf[0][3][1]) and c.resultv is pf[0][4])
        return z3.And(z3.Not(VALID), z3.BoolVal(bool(ok)))
    return post


for _name, _refl in (('UGen._compose_binop', False), ('UGen._rcompose_binop', True)):
    contract(F, _name, props=('C15',), params={'self': 'self', 'selector': 'obj', 'input': 'obj'},
             ensures=[('valid-input:one-binary-operator-unit-with-the-receiver-on-its-side;else-the-other-operand-performs-it', compose_post(_refl))],
             fields={'UGen': {}}, class_modules={'UGen': F, 'BinaryOpUGen': F}, hooks={'getattr': cb_getattr},
             policies={'sc3/synth/_graphparam.py::ugen_param': cb_param, 'sc3/synth/_specialindex.py::sc_opname': cb_opname},
             modifies=[], native=False)


# ---- SynthDef.as_bytes (C02: what is sent is the definition file of exactly this definition) ------------------------------------
# no bytes yet: the list of exactly THIS definition is written ONCE, through _write_def_list (which makes the SCgf header),
# into a fresh in-memory stream, and that stream's buffer is kept and returned; bytes already there are returned as they
# are and nothing is written.
FS = 'sc3/synth/synthdef.py'
HAVE_BYTES = z3.Bool('bytes_already_made')


def ab_getattr(eng, obj, name, st, node):
    if obj.k == 'ref' and obj.oid == 'self' and name == '_bytes' and st.objs.get('self', {}).get('_bytes') is None:
        return [(st, V('ref', cls='Buf', oid='old-bytes', extra={'maybe_none': z3.Not(HAVE_BYTES)}))]
    if obj.k == 'module' and name == 'BytesIO':
        return [(st, V('class', py='BytesIO'))]
    if obj.k == 'obj' and obj.oid == 'fresh-stream' and name == 'getbuffer':
        def gb(eng, a, kw, st, node, _o=obj):
            r = V('obj', oid='buffer-of-the-stream')
            st.trace.append(('getbuffer', _o, r))
            return [(st, r)]
        return [(st, V('func', py=('spec', gb)))]
    return None


def ab_construct(eng, f, args, kwargs, st, node):
    if f.k == 'class' and f.py == 'BytesIO' and not args:
        r = V('obj', oid='fresh-stream')
        st.trace.append(('stream-made', r))
        return [(st, r)]
    return None


def ab_compare(eng, op, a, b, st, node):
    import ast
    if isinstance(op, (ast.Is, ast.IsNot)):
        for p, q in ((a, b), (b, a)):
            if p.k == 'ref' and p.extra and 'maybe_none' in p.extra and q.k == 'none':
                r = p.extra['maybe_none']
                return z3.Not(r) if isinstance(op, ast.IsNot) else r
    return None


def ab_write(eng, selfv, args, kwargs, st, node):
    st.trace.append(('write-def-list', tuple(args)))
    return [(st, NONE)]


def as_bytes_post(c):
    t = c.trace
    wr = [e for e in t if e[0] == 'write-def-list']
    gb = [e for e in t if e[0] == 'getbuffer']
    kept = c.st.objs.get('self', {}).get('_bytes')
    r = c.resultv
    if not wr:
        ok = not gb and r.k == 'ref' and r.oid == 'old-bytes' and (kept is None or kept is r)
        return z3.And(HAVE_BYTES, z3.BoolVal(bool(ok)))
    if len(wr) != 1 or len(gb) != 1 or t.index(wr[0]) > t.index(gb[0]):
        return z3.BoolVal(False)
    a = wr[0][1]
    ok = (len(a) == 2 and a[0].k == 'list' and a[0].items is not None and len(a[0].items) == 1
          and a[0].items[0].k == 'ref' and a[0].items[0].oid == 'self'                          # exactly this definition
          and a[1].k == 'obj' and a[1].oid == 'fresh-stream' and gb[0][1] is a[1]              # into the stream whose buffer is kept
          and kept is gb[0][2] and r is gb[0][2])
    return z3.BoolVal(bool(ok))                      # (making them again although they exist gives the same bytes: allowed)


contract(FS, 'SynthDef.as_bytes', props=('C02',), params={'self': 'self'},
         ensures=[('made-from-exactly-this-definition-through-the-file-writer-and-kept,or-the-kept-ones', as_bytes_post)],
         fields={'SynthDef': {'_bytes': 'obj'}, 'Buf': {}}, class_modules={'SynthDef': FS, 'Buf': FS},
         hooks={'getattr': ab_getattr, 'construct': ab_construct, 'compare': ab_compare},
         policies={'SynthDef._write_def_list': ab_write}, modifies=[('self', '_bytes')], native=False)


# ---- ChannelList.__init__ (C03: "scalars and tuples are never expanded") ------------------------------------------------------------
# nothing given: no channels; a string or a TUPLE: ONE channel holding it as it is; any other iterable: its items are the
# channels; anything else (a number, a unit): one channel holding it
IS_STR_OR_TUPLE = z3.Bool('obj_is_a_str_or_tuple')
IS_ITERABLE = z3.Bool('obj_has___iter__')


def cl_builtin(eng, name, args, kwargs, st, node):
    if name == 'super':
        which = 'list' if (args and args[0].k in ('class', 'obj', 'module') and 'AbstractSequence' in str(getattr(args[0], 'py', '') or getattr(args[0], 'oid', ''))) else 'param'
        return [(st, V('obj', oid='super', extra={'which': which}))]
    if name == 'isinstance' and len(args) == 2 and args[0].k == 'obj' and args[0].oid == 'obj':
        return [(st, vbool(IS_STR_OR_TUPLE))]
    if name == 'hasattr' and len(args) == 2 and args[0].k == 'obj' and args[0].oid == 'obj' and args[1].k == 'str' and args[1].py == '__iter__':
        return [(st, vbool(IS_ITERABLE))]
    return None


def cl_getattr(eng, obj, name, st, node):
    if obj.k == 'obj' and obj.oid == 'super' and name == '__init__':
        def init(eng, a, kw, st, node, _o=obj):
            st.trace.append(('super-init', _o.extra['which'], tuple(a)))
            return [(st, NONE)]
        return [(st, V('func', py=('spec', init)))]
    if obj.k == 'module' and name in ('AbstractSequence', 'UGenSequence'):
        return [(st, V('obj', oid=name))]
    return None


def chlist_init_post(c):
    li = [e for e in c.trace if e[0] == 'super-init' and e[1] == 'list']
    if len(li) != 1:
        return z3.BoolVal(False)
    a = li[0][2]
    obj = c._params['obj']
    if c.kinds.get('obj') == 'none':
        return z3.BoolVal(len(a) == 0)
    if len(a) != 1:
        return z3.BoolVal(False)
    x = a[0]
    if x is obj:
        return z3.And(z3.Not(IS_STR_OR_TUPLE), IS_ITERABLE)                               # its items are the channels
    one = x.k == 'list' and x.items is not None and len(x.items) == 1 and x.items[0] is obj
    return z3.And(z3.BoolVal(bool(one)), z3.Or(IS_STR_OR_TUPLE, z3.Not(IS_ITERABLE)))      # ONE channel holding it


contract(F, 'ChannelList.__init__', props=('C03',), params={'self': 'self', 'obj': ['none', 'obj']},
         ensures=[('no-channels/one-channel-for-a-string,a-tuple-or-a-non-iterable/the-items-of-any-other-iterable', chlist_init_post)],
         fields={'ChannelList': {}}, class_modules={'ChannelList': F},
         hooks={'builtin_first': cl_builtin, 'getattr': cl_getattr}, modifies=[], native=False)
