"""Contracts for the finishing phases of a definition build (C01: "compilation preserves the meaning"; C02: "well
formed, topologically ordered"): sc3/synth/synthdef.py.

  _finish_build       the phases in THIS order, each once: width-first copies, graph optimisation, constant collection,
                      input check (which may refuse the definition), topological sort, and - LAST - re-indexing (the
                      indices written into the file are those of the sorted table)
  _optimize_graph     the ordering sets are initialised first; rewriting is flagged while EVERY unit of a COPY of the
                      table (units may remove themselves) optimises itself once, in table order; then removed units
                      (None slots) leave the table, and iff the table shrank the units are re-indexed
  _collect_constants  every unit collects its constants, once, in table order
  _check_inputs       EVERY unit is asked (no early stop), a complaint is never lost (the definition is then refused),
                      accepted only with True
  _write_constants    int32 count, then the constants as float32 in the order of their SLOT numbers (the dictionary
                      value is the slot), every slot exactly the constant that owns it

What each unit does in its own _optimize_graph / _collect_constants / _check_inputs are the other contracts
(synth_optimizer, synth_synthdef_graph, synth_outputs); here they are ghost calls.
"""
import ast
import z3
from vf.pyvc.spec import contract, Loop, REGISTRY
from vf.pyvc.values import *
from vf.pyvc import values as VV
from vf.pyvc.engine import Raised, Unsupported
from vf.contracts.synth_writer import WRITERS

F = 'sc3/synth/synthdef.py'
NCH = z3.Int('children.len')
UNIT_NONE = z3.Function('slot_is_none', z3.IntSort(), z3.BoolSort())


def traced(name):
    def pol(eng, selfv, args, kwargs, st, node):
        st.trace.append(('phase', name))
        return [(st, NONE)]
    return pol


PHASES = ['_add_copies_if_needed', '_optimize_graph', '_collect_constants', '_check_inputs', '_topological_sort', '_index_ugens']
contract(F, 'SynthDef._finish_build', props=('C01', 'C02'), params={'self': 'self'},
         raises={'ValueError': None},
         ensures=[('copies,optimise,constants,check,sort,and-LAST-re-index:each-once-in-this-order',
                   lambda c: z3.BoolVal([e[1] for e in c.trace if e[0] == 'phase'] == PHASES))],
         on_raise=[('refused-only-by-the-input-check', lambda c: z3.BoolVal(
             [e[1] for e in c.trace if e[0] == 'phase'][-1:] == ['_check_inputs']))],
         modifies=[], fields={'SynthDef': {}}, class_modules={'SynthDef': F}, native=False,
         policies=dict({'SynthDef.' + p: traced(p) for p in PHASES if p != '_check_inputs'},
                       **{'SynthDef._check_inputs': (lambda eng, selfv, args, kwargs, st, node: (
                           lambda ok, bad: (ok.trace.append(('phase', '_check_inputs')), bad.trace.append(('phase', '_check_inputs')),
                                            [(ok, vbool(True)), (bad, Raised(eng.make_exc('ValueError', node=node)))])[2])(st, st.fork()))}))


def unit(i):
    return V('obj', oid='unit[%s]' % str(z3.simplify(i)).replace(' ', ''), extra={'unit': i})


def children_kind(eng, name):
    return V('seq', extra={'len': NCH, 'facts': [NCH >= 0], 'the_children': True, 'get': (lambda e_, i, s_: unit(i))})


def unit_method(name, result=None):
    def getattr_(eng, obj, attr, st, node):
        if obj.k == 'obj' and obj.extra and 'unit' in obj.extra and attr == name:
            def m(eng, a, kw, st, node, _o=obj):
                r = result(eng, _o) if result else NONE
                st.trace.append((name, _o, r))
                return [(st, r)]
            return [(st, V('func', py=('spec', m)))]
        if obj.k == 'obj' and obj.extra and 'unit' in obj.extra and attr == 'name':
            return [(st, V('obj', oid='name-of', extra={'name_of': obj}))]
        return None
    return getattr_


def since(trace, ordinal=0):
    idx = -1
    for i, e in enumerate(trace):
        if e[0] == 'loop-head' and e[1] == ordinal:
            idx = i
    return trace[idx + 1:] if idx >= 0 else []


def each_unit(event):
    def inv(c, L):
        if L.phase != 'after':
            return z3.BoolVal(True)
        ev = [e for e in since(c.trace) if e[0] in (event, 'phase', 'reindex')]
        if len(ev) != 1 or ev[0][0] != event:
            return z3.BoolVal(False)
        return ev[0][1].extra['unit'] == L.i - 1
    return inv


def all_units(c, sq, k, elem):
    return sq.extra['len'] == NCH, (elem.extra['unit'] == k if elem.k == 'obj' and elem.extra and 'unit' in elem.extra else z3.BoolVal(False))


contract(F, 'SynthDef._collect_constants', props=('C01', 'C02'), params={'self': 'self'},
         ensures=[('nothing-else', lambda c: z3.BoolVal(True))],
         loops={0: Loop(inv=each_unit('_collect_constants'), over=all_units, kinds={'ugen': (lambda e, n: V('obj', oid='havoc'))})},
         modifies=[], fields={'SynthDef': {'_children': children_kind}}, class_modules={'SynthDef': F},
         hooks={'getattr': unit_method('_collect_constants')}, native=False)


# ---- _optimize_graph --------------------------------------------------------------------------------------------------
def og_slice(eng, obj, sl, st, node):
    if obj.k == 'seq' and obj.extra.get('the_children') and sl.lower is None and sl.upper is None and sl.step is None:
        st.trace.append(('table-copied',))
        return [(st, V('seq', extra={'len': NCH, 'the_copy': True, 'get': (lambda e_, i, s_: unit(i))}))]
    return None


def og_listcomp(eng, e, it, st, node):
    if it.k == 'seq' and it.extra.get('the_children') and e.generators[0].ifs:
        st.trace.append(('none-slots-dropped',))
        n = z3.Int('children_left.len')
        st.pc.append(z3.And(n >= 0, n <= NCH))
        return [(st, V('seq', extra={'len': n, 'the_children': True, 'compacted': True, 'get': (lambda e_, i, s_: unit(i))}))]
    return None


def og_pass(c, L):
    rewriting = c.post.self._rewrite_in_progress
    if L.phase != 'after':
        return rewriting                                                   # the flag is up during the whole loop
    ev = [e for e in since(c.trace) if e[0] in ('_optimize_graph', 'phase')]
    if len(ev) != 1 or ev[0][0] != '_optimize_graph':
        return z3.BoolVal(False)
    return z3.And(rewriting, ev[0][1].extra['unit'] == L.i - 1)


def og_over(c, sq, k, elem):
    ok = bool(sq.extra.get('the_copy'))                                    # over a COPY of the table
    return z3.And(z3.BoolVal(ok), sq.extra['len'] == NCH), (elem.extra['unit'] == k if elem.k == 'obj' and elem.extra else z3.BoolVal(False))


def og_post(c):
    t = [e for e in c.trace if e[0] in ('phase', 'loop-head', 'table-copied', 'none-slots-dropped')]
    kinds = [e[0] if e[0] != 'phase' else e[1] for e in t]
    ch = c.post.self.v('_children')
    ok = (kinds[:2] == ['_init_topo_sort', 'table-copied'] and 'none-slots-dropped' in kinds
          and ch.k == 'seq' and bool(ch.extra.get('compacted')))           # None slots leave the table
    if not ok:
        return z3.BoolVal(False)
    reidx = kinds.count('_index_ugens')
    return z3.And(z3.Not(c.post.self._rewrite_in_progress), z3.BoolVal(reidx <= 1),
                  z3.BoolVal(reidx == 1) == (ch.extra['len'] != NCH))       # re-indexed iff the table shrank


contract(F, 'SynthDef._optimize_graph', props=('C01', 'C02'), params={'self': 'self'},
         ensures=[('ordering-sets-first;flag-down;removed-units-leave-the-table;re-indexed-iff-it-shrank', og_post)],
         loops={0: Loop(inv=og_pass, over=og_over, kinds={'ugen': (lambda e, n: V('obj', oid='havoc'))})},
         modifies=[('self', '_rewrite_in_progress'), ('self', '_children')],
         fields={'SynthDef': {'_children': children_kind, '_rewrite_in_progress': 'bool'}}, class_modules={'SynthDef': F},
         hooks={'getattr': unit_method('_optimize_graph'), 'slice': og_slice, 'listcomp': og_listcomp}, native=False,
         policies={'SynthDef._init_topo_sort': traced('_init_topo_sort'), 'SynthDef._index_ugens': traced('_index_ugens')})


# ---- _check_inputs --------------------------------------------------------------------------------------------------------
COMPLAINS = z3.Function('unit_complains', z3.IntSort(), z3.BoolSort())


def ci_result(eng, u):
    # None (fine) or a complaint: its truth is COMPLAINS(unit)
    return V('ref', cls='Complaint', oid='err-of-%s' % u.oid, extra={'truth': COMPLAINS(u.extra['unit']), 'of': u})


def ci_binop(eng, op, a, b, st, node):
    if isinstance(op, ast.Add):
        return [(st, V('obj', oid='message', extra={'parts': (a, b)}))]
    return None


SOME = z3.Bool('some_unit_complained_so_far')


def first_err_kind(eng, name):
    return V('ref', cls='Complaint', oid='first-err', extra={'truth': SOME, 'maybe_none': z3.Not(SOME)})


def ci_compare(eng, op, a, b, st, node):
    if isinstance(op, (ast.Is, ast.IsNot)):
        for p_, q_ in ((a, b), (b, a)):
            if p_.k == 'ref' and p_.extra and 'maybe_none' in p_.extra and q_.k == 'none':
                r = p_.extra['maybe_none']
                return z3.Not(r) if isinstance(op, ast.IsNot) else r
    return None


def ci_pass(c, L):
    fe = c.st.env['first_err']
    k = L.i
    # after k units: first_err is None iff none of them complained (ghost: FIRST(k) = index of the first complaint)
    none_yet = z3.And(*[]) if False else None
    if L.phase != 'after':
        return z3.BoolVal(True)
    ev = [e for e in since(c.trace) if e[0] == '_check_inputs']
    if len(ev) != 1:
        return z3.BoolVal(False)
    k = L.i - 1
    is_head = fe.k == 'ref' and fe.oid == 'first-err'
    noted = SOME if is_head else z3.BoolVal(True)                           # is a complaint on record after this pass?
    return z3.And(ev[0][1].extra['unit'] == k,                              # EVERY unit is asked, once, in order
                  z3.Implies(COMPLAINS(k), noted))                          # a complaint is never lost (which one is reported: not demanded)


contract(F, 'SynthDef._check_inputs', props=('C01', 'C02'), params={'self': 'self'},
         raises={'ValueError': None},
         ensures=[('accepted-only-with-True', lambda c: z3.And(z3.BoolVal(c.resultv.k == 'bool'), c.result))],
         loops={0: Loop(inv=ci_pass, over=all_units, kinds={'ugen': (lambda e, n: V('obj', oid='havoc')),
                                                          'err': (lambda e, n: V('obj', oid='havoc')),
                                                          'first_err': first_err_kind})},
         modifies=[], fields={'SynthDef': {'_children': children_kind}, 'Complaint': {}}, class_modules={'SynthDef': F, 'Complaint': F},
         hooks={'getattr': unit_method('_check_inputs', ci_result), 'binop': ci_binop, 'compare': ci_compare}, native=False,
         note='which of several complaints is reported is not demanded')


# ---- _write_constants ---------------------------------------------------------------------------------------------------
NCONST = z3.Int('constants.len')
CVAL = z3.Function('constant_value', z3.IntSort(), VV.Any)
CSLOT = z3.Function('constant_slot_of_item', z3.IntSort(), z3.IntSort())
ARR = z3.Function('slot_content', z3.IntSort(), VV.Any)


def wc_getattr(eng, obj, name, st, node):
    if obj.k == 'obj' and obj.oid == 'self._constants' and name == 'items':
        def items(eng, a, kw, st, node):
            return [(st, V('seq', extra={'len': NCONST, 'facts': [NCONST >= 0], 'get': (
                lambda e_, i, s_: vtuple([V('any', CVAL(i)), vint(CSLOT(i))]))}))]
        return [(st, V('func', py=('spec', items)))]
    return None


def wc_len(eng, v, st, node):
    if v.k == 'obj' and v.oid == 'self._constants':
        st.pc.append(NCONST >= 0)
        return [(st, vint(NCONST))]
    return None


def wc_binop(eng, op, a, b, st, node):
    if isinstance(op, ast.Mult) and a.k == 'list' and a.items is not None and len(a.items) == 1 and a.items[0].k == 'none' \
            and b.k == 'int' and z3.eq(b.z, NCONST):
        st.trace.append(('slots-made',))
        return [(st, V('seq', extra={'len': NCONST, 'slots': True, 'get': (lambda e_, i, s_: V('any', ARR(i), extra={'slot': i}))}))]
    return None


def wc_setitem(eng, obj, idx, v, st, node):
    if obj.k == 'seq' and obj.extra.get('slots') and idx.k == 'int':
        st.trace.append(('slot-filled', idx.z, v))
        return [('next', st)]
    return None


def wc_fill(c, L):
    if L.phase != 'after':
        return z3.BoolVal(True)
    ev = [e for e in since(c.trace, 0) if e[0] in ('slot-filled', 'write')]
    k = L.i - 1
    if len(ev) != 1 or ev[0][0] != 'slot-filled' or ev[0][2].k != 'any':
        return z3.BoolVal(False)
    return z3.And(ev[0][1] == CSLOT(k), ev[0][2].z == CVAL(k))             # the slot the dictionary names gets THAT constant


def wc_write(c, L):
    if L.phase != 'after':
        return z3.BoolVal(True)
    ev = [e for e in since(c.trace, 1) if e[0] in ('slot-filled', 'write')]
    if len(ev) != 1 or ev[0][0] != 'write' or ev[0][1] != 'f32' or ev[0][2] is not c._params['file']:
        return z3.BoolVal(False)
    v = ev[0][3]
    sl = v.extra.get('slot') if v.k == 'any' and v.extra else None
    return sl == L.i - 1 if sl is not None else z3.BoolVal(False)          # slot k is written as the k-th float


def wc_over_items(c, sq, k, elem):
    ok = elem.k == 'tuple' and len(elem.items) == 2 and elem.items[0].k == 'any' and elem.items[1].k == 'int'
    if not ok:
        return z3.BoolVal(False), z3.BoolVal(False)
    return sq.extra['len'] == NCONST, z3.And(elem.items[0].z == CVAL(k), elem.items[1].z == CSLOT(k))


def wc_over_slots(c, sq, k, elem):
    sl = elem.extra.get('slot') if elem.k == 'any' and elem.extra else None
    return z3.And(z3.BoolVal(bool(sq.extra.get('slots'))), sq.extra['len'] == NCONST), (sl == k if sl is not None else z3.BoolVal(False))


def wc_post(c):
    t = c.trace
    h1 = [i for i, e in enumerate(t) if e[0] == 'loop-head' and e[1] == 1]
    h0 = [i for i, e in enumerate(t) if e[0] == 'loop-head' and e[1] == 0]
    if not h0 or not h1:
        return z3.BoolVal(False)
    mid = [e for e in t[h0[-1]:h1[0]] if e[0] == 'write']
    ok = len(mid) == 1 and mid[0][1] == 'i32' and mid[0][2] is c._params['file'] and mid[0][3].k == 'int'
    return mid[0][3].z == NCONST if ok else z3.BoolVal(False)              # the count, between filling and writing


contract(F, 'SynthDef._write_constants', props=('C02', 'C01'), params={'self': 'self', 'file': 'obj'},
         ensures=[('count,then-the-slots-in-slot-order', wc_post)],
         loops={0: Loop(inv=wc_fill, over=wc_over_items, kinds={'value': 'any', 'index': 'int'}),
                1: Loop(inv=wc_write, over=wc_over_slots, kinds={'item': 'any'})},
         modifies=[], fields={'SynthDef': {'_constants': 'obj'}}, class_modules={'SynthDef': F},
         hooks={'getattr': wc_getattr, 'len': wc_len, 'binop': wc_binop, 'setitem': wc_setitem},
         policies=WRITERS, native=False,
         note='that the slot numbers of distinct constants are distinct and fill 0..n-1 is the lemma of '
              'synth_synthdef_graph (constant-slots-distinct-and-inside-the-table)')
