"""Contracts for the operator streams and operator functions (C15: "operators lift uniformly over functions, streams,
patterns, lists, operands" - the denotation  next(s op t) = op(next(s), next(t))  and  (f op g)(x) = op(f(x), g(x)) ):
sc3/base/stream.py, sc3/base/functions.py.

  UnopStream.next / BinopStream.next / NaropStream.next   ONE value is drawn from every operand stream, in operand order,
        each with the SAME input value; the result is the selector applied to exactly those values in that order; an
        exhausted operand ends the stream (StopStream propagates, nothing is computed)
  ...Stream.reset                                          every operand stream is reset, once
  UnopFunction / BinopFunction.__call__                    every callable operand is called ONCE with exactly the caller's
        arguments, a non-callable operand stands for itself; the result is the selector applied to those values in order

The operand streams / operand functions and the selector are ghost calls; two further operands (type case) stand for the
argument tuple of the n-ary stream.
"""
import ast
import z3
from vf.pyvc.spec import contract, Loop, REGISTRY
from vf.pyvc.values import *
from vf.pyvc import values as VV
from vf.pyvc.engine import Raised, Unsupported

FS = 'sc3/base/stream.py'
FF = 'sc3/base/functions.py'


def operand(name):
    return V('obj', oid=name, extra={'operand': name})


def args_kind(eng, name):
    return vtuple([operand('self.args[0]'), operand('self.args[1]')])


def h_getattr(eng, obj, name, st, node):
    if obj.k == 'obj' and (obj.extra or {}).get('operand') or (obj.k == 'obj' and obj.oid in ('self.a', 'self.b')):
        who = obj
        if name == 'next':
            def nxt(eng, a, kw, st, node, _o=who):
                ok, bad = st, st.fork()
                v = V('obj', oid='drawn!%d' % next(eng.counter))
                ok.trace.append(('draw', _o.oid, v, a[0] if a else None))
                bad.trace.append(('exhausted', _o.oid))
                return [(ok, v), (bad, Raised(eng.make_exc('StopStream', node=node)))]
            return [(st, V('func', py=('spec', nxt)))]
        if name == 'reset':
            def rs(eng, a, kw, st, node, _o=who):
                st.trace.append(('reset', _o.oid))
                return [(st, NONE)]
            return [(st, V('func', py=('spec', rs)))]
    return None


def h_new_list(eng, items, st):
    if items == []:
        return V('ref', cls='ArgList', oid='the-arg-list')
    return None


def narop_getattr(eng, obj, name, st, node):
    if obj.k == 'ref' and obj.cls == 'ArgList' and name == 'append':
        def app(eng, a, kw, st, node):
            st.trace.append(('arg-appended', a[0]))
            return [(st, NONE)]
        return [(st, V('func', py=('spec', app)))]
    return h_getattr(eng, obj, name, st, node)


def narop_post(c):
    t = [e for e in c.trace if e[0] in ('draw', 'apply', 'exhausted', 'arg-appended')]
    if [e[0] for e in t] != ['draw', 'draw', 'arg-appended', 'draw', 'arg-appended', 'apply']:
        return z3.BoolVal(False)
    d0, d1, a1, d2, a2, app = t
    inval = c._params['inval']
    ok = (d0[1] == 'self.a' and d1[1] == 'self.args[0]' and d2[1] == 'self.args[1]' and all(d[3] is inval for d in (d0, d1, d2))
          and a1[1] is d1[2] and a2[1] is d2[2]
          and len(app[1]) == 2 and app[1][0] is d0[2] and app[1][1].k == 'star' and app[1][1].extra['seq'].k == 'ref'
          and app[1][1].extra['seq'].oid == 'the-arg-list' and c.resultv is app[2])
    return z3.BoolVal(bool(ok))


def h_call(eng, f, args, kwargs, st, node):
    if f.k == 'obj' and f.oid == 'self.selector':
        r = V('obj', oid='applied!%d' % next(eng.counter))
        st.trace.append(('apply', tuple(args), r))
        return [(st, r)]
    if f.k == 'obj' and f.oid in ('self.a', 'self.b'):
        r = V('obj', oid='value-of-%s!%d' % (f.oid, next(eng.counter)))
        st.trace.append(('operand-called', f.oid, tuple(args), dict(kwargs), r))
        return [(st, r)]
    return None


def next_post(operands):
    def post(c):
        t = [e for e in c.trace if e[0] in ('draw', 'apply', 'exhausted')]
        n = len(operands)
        if [e[0] for e in t] != ['draw'] * n + ['apply']:
            return z3.BoolVal(False)
        draws, app = t[:n], t[n]
        inval = c._params['inval']
        ok = (all(draws[i][1] == operands[i] and draws[i][3] is inval for i in range(n))     # each operand once, in order, same input
              and len(app[1]) == n and all(app[1][i] is draws[i][2] for i in range(n))       # the selector on exactly those values
              and c.resultv is app[2])
        return z3.BoolVal(bool(ok))
    return post


def quiet_raise(c):
    t = [e for e in c.trace if e[0] in ('draw', 'apply', 'exhausted')]
    return z3.BoolVal(bool(t) and t[-1][0] == 'exhausted' and not [e for e in t if e[0] == 'apply'])   # nothing computed


def since(trace):
    idx = -1
    for i, e in enumerate(trace):
        if e[0] == 'loop-head':
            idx = i
    return trace[idx + 1:] if idx >= 0 else []


OPS = {'UnopStream': ['self.a'], 'BinopStream': ['self.a', 'self.b'], 'NaropStream': ['self.a', 'self.args[0]', 'self.args[1]']}
FIELDS = {'UnopStream': {'selector': 'obj', 'a': 'obj'}, 'BinopStream': {'selector': 'obj', 'a': 'obj', 'b': 'obj'},
          'NaropStream': {'selector': 'obj', 'a': 'obj', 'args': args_kind}}
for cls, ops in OPS.items():
    narop = cls == 'NaropStream'
    contract(FS, cls + '.next', props=('C15',), params={'self': 'self', 'inval': 'obj'},
             raises={'StopStream': None},
             ensures=[('selector-of-one-value-per-operand,in-operand-order,same-input', narop_post if narop else next_post(ops))],
             on_raise=[('an-exhausted-operand-ends-it:nothing-computed', quiet_raise)],
             modifies=[], fields=dict({cls: FIELDS[cls]}, ArgList={}), class_modules={cls: FS, 'ArgList': FS},
             hooks=dict({'getattr': narop_getattr if narop else h_getattr, 'call': h_call}, **({'new_list': h_new_list} if narop else {})),
             native=False)
    contract(FS, cls + '.reset', props=('C15',), params={'self': 'self'},
             ensures=[('every-operand-stream-reset-once', (lambda ops: lambda c: z3.BoolVal(
                 sorted(e[1] for e in c.trace if e[0] == 'reset') == sorted(ops)))(ops))],
             modifies=[], fields={cls: FIELDS[cls]}, class_modules={cls: FS},
             hooks={'getattr': h_getattr, 'call': h_call}, native=False)


# ---- operator functions -----------------------------------------------------------------------------------------------
CALLABLE = {'self.a': z3.Bool('a_is_callable'), 'self.b': z3.Bool('b_is_callable')}


def fn_builtin(eng, name, args, kwargs, st, node):
    if name == 'callable' and len(args) == 1 and args[0].k == 'obj' and args[0].oid in CALLABLE:
        return [(st, vbool(CALLABLE[args[0].oid]))]
    return None


def call_args_kind(eng, name):
    return V('seq', extra={'len': z3.Int('call_args.len'), 'facts': [z3.Int('call_args.len') >= 0], 'call_args': True,
                           'get': (lambda e_, i, s_: V('any', z3.Function('call_arg', z3.IntSort(), VV.Any)(i)))})


def passes_callers_args(c, e):
    a, kw = e[2], e[3]
    return (len(a) == 1 and a[0].k == 'star' and a[0].extra['seq'] is c._params['args']
            and set(kw) == {'**'} and kw['**'] is c._params['kwargs'])             # positional AND keyword arguments, as they came


def unop_fn_post(c):
    calls = [e for e in c.trace if e[0] == 'operand-called']
    apps = [e for e in c.trace if e[0] == 'apply']
    ok = (len(calls) == 1 and calls[0][1] == 'self.a' and passes_callers_args(c, calls[0])
          and len(apps) == 1 and len(apps[0][1]) == 1 and apps[0][1][0] is calls[0][4] and c.resultv is apps[0][2])
    return z3.BoolVal(bool(ok))


def binop_fn_post(c):
    calls = {e[1]: e for e in c.trace if e[0] == 'operand-called'}
    ncalls = len([e for e in c.trace if e[0] == 'operand-called'])
    apps = [e for e in c.trace if e[0] == 'apply']
    if len(apps) != 1 or len(apps[0][1]) != 2 or ncalls != len(calls) or c.resultv is not apps[0][2]:
        return z3.BoolVal(False)
    cl = []
    for k, name in enumerate(('self.a', 'self.b')):
        v = apps[0][1][k]
        if name in calls:
            ok = passes_callers_args(c, calls[name]) and v is calls[name][4]
            cl += [CALLABLE[name], z3.BoolVal(bool(ok))]                     # called once with the caller's arguments
        else:
            cl += [z3.Not(CALLABLE[name]), z3.BoolVal(v.k == 'obj' and v.oid == name)]   # a value stands for itself
    return z3.And(*cl)


contract(FF, 'UnopFunction.__call__', props=('C15',), params={'self': 'self', 'args': call_args_kind, 'kwargs': 'obj'},
         ensures=[('selector-of-the-operand-called-with-the-callers-arguments', unop_fn_post)],
         modifies=[], fields={'UnopFunction': {'selector': 'obj', 'a': 'obj'}}, class_modules={'UnopFunction': FF},
         hooks={'call': h_call}, native=False)
contract(FF, 'BinopFunction.__call__', props=('C15',), params={'self': 'self', 'args': call_args_kind, 'kwargs': 'obj'},
         ensures=[('selector-of(callable-operands-called-once-with-the-callers-arguments,others-as-they-are)', binop_fn_post)],
         modifies=[], fields={'BinopFunction': {'selector': 'obj', 'a': 'obj', 'b': 'obj'}}, class_modules={'BinopFunction': FF},
         hooks={'call': h_call, 'builtin_first': fn_builtin}, native=False)


# ---- composing: which object an operator expression builds --------------------------------------------------------------
# s op x  -> BinopStream(op, s, stream(x))      x op s -> BinopStream(op, stream(x), s)      (the receiver keeps ITS side)
# op s    -> UnopStream(op, s)                  f op x -> BinopFunction(op, f, x)            x op f -> BinopFunction(op, x, f)
def cs_construct(eng, f, args, kwargs, st, node):
    if f.k == 'class' and f.py in ('UnopStream', 'BinopStream', 'NaropStream', 'UnopFunction', 'BinopFunction', 'NaropFunction'):
        r = V('obj', oid='composed', extra={'cls': f.py, 'args': tuple(args)})
        st.trace.append(('composed', f.py, tuple(args), r))
        return [(st, r)]
    return None


def cs_stream_pol(eng, selfv, args, kwargs, st, node):
    return [(st, V('obj', oid='stream-of!%d' % next(eng.counter), extra={'stream_of': args[0]}))]


def composed(cls, shape):
    """shape: list of 'selector' | 'self' | 'other' | 'stream(other)'"""
    def post(c):
        cs = [e for e in c.trace if e[0] == 'composed']
        if len(cs) != 1 or cs[0][1] != cls or c.resultv is not cs[0][3] or len(cs[0][2]) != len(shape):
            return z3.BoolVal(False)
        for want, got in zip(shape, cs[0][2]):
            if want == 'selector' and got is not c._params['selector']:
                return z3.BoolVal(False)
            if want == 'self' and not (got.k == 'ref' and got.oid == 'self'):
                return z3.BoolVal(False)
            if want == 'other' and got is not c._params['other']:
                return z3.BoolVal(False)
            if want == 'stream(other)' and not (got.k == 'obj' and got.extra and got.extra.get('stream_of') is c._params['other']):
                return z3.BoolVal(False)
        return z3.BoolVal(True)
    return post


for F_, base, kinds in ((FS, 'Stream', {'un': 'UnopStream', 'bin': 'BinopStream', 'other': 'stream(other)'}),
                        (FF, 'AbstractFunction', {'un': 'UnopFunction', 'bin': 'BinopFunction', 'other': 'other'})):
    common = dict(modifies=[], fields={base: {}}, class_modules={base: F_}, hooks={'construct': cs_construct},
                  policies={FS + '::stream': cs_stream_pol}, native=False)
    contract(F_, base + '._compose_unop', props=('C15',), params={'self': 'self', 'selector': 'obj'},
             ensures=[('op-s:the-receiver-under-the-selector', composed(kinds['un'], ['selector', 'self']))], **common)
    contract(F_, base + '._compose_binop', props=('C15',), params={'self': 'self', 'selector': 'obj', 'other': 'obj'},
             ensures=[('s-op-x:receiver-LEFT,the-other-operand-right', composed(kinds['bin'], ['selector', 'self', kinds['other']]))], **common)
    contract(F_, base + '._rcompose_binop', props=('C15',), params={'self': 'self', 'selector': 'obj', 'other': 'obj'},
             ensures=[('x-op-s:the-other-operand-LEFT,receiver-right', composed(kinds['bin'], ['selector', kinds['other'], 'self']))], **common)
