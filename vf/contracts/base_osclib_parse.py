"""Contracts for the OSC decoder's index arithmetic (C18): sc3/base/_osclib.py.
Byte contents are abstract; what is proved is progress/termination of the bundle
parser and that short datagrams are refused rather than read past the end."""
import z3
from vf.pyvc.spec import contract, Loop
from vf.pyvc.values import *
from vf.pyvc.engine import Raised

F = 'sc3/base/_osclib.py'


def remaining(c):
    L = c.blen(c.dgram)
    return z3.If(c.start_index < L, L - c.start_index, 0)


for fn, n in (('get_int', 4), ('get_timetag', 8)):
    contract(F, fn, props=('C18',),
             params={'dgram': 'bytes', 'start_index': 'int'},
             requires=lambda c: c.start_index >= 0,
             raises={'OscTypeParseError': (lambda n: lambda c: remaining(c) < n)(n)},
             ensures=[('consumes-exactly-%d-bytes' % n, (lambda n: lambda c: z3.And(
                 z3.BoolVal(c.resultv.k == 'tuple' and len(c.resultv.items) == 2),
                 c.resultv.items[1].z == c.start_index + n,
                 c.start_index + n <= c.blen(c.dgram)))(n))],
             note='never reads past the end: too short a datagram is a parse error')


def may_fail(name, exc):
    def pol(eng, selfv, args, kwargs, st, node):
        bad = st.fork()
        return [(st, V('obj', oid='%s!%d' % (name, next(eng.counter)))),
                (bad, Raised(eng.make_exc(exc, node=node)))]
    return pol


def get_int_model(eng, selfv, args, kwargs, st, node):
    """contract call of get_int (proved above)"""
    dgram, idx = args
    L = eng.bytes_len(dgram)
    rem = z3.If(idx.z < L, L - idx.z, 0)
    outs = []
    for st1, short in eng.branch(st, rem < 4, node):
        if short:
            outs.append((st1, Raised(eng.make_exc('OscTypeParseError', node=node))))
        else:
            v = eng.fresh_val('int', 'size')
            st1.pc.append(z3.And(v.z >= -2**31, v.z <= 2**31 - 1))
            outs.append((st1, vtuple([v, vint(idx.z + 4)])))
    return outs


def construct(eng, f, args, kwargs, st, node):
    if f.py in ('OscBundle', 'OscMessage'):
        bad = st.fork()
        exc = 'OscBundleParseError' if f.py == 'OscBundle' else 'OscMessageParseError'
        r = V('obj', oid='%s!%d' % (f.py, next(eng.counter)))
        st.trace.append(('parse-element', f.py, args[0] if args else None, r))
        return [(st, r), (bad, Raised(eng.make_exc(exc, node=node)))]
    return None


def pc_since(trace):
    idx = -1
    for i, e in enumerate(trace):
        if e[0] == 'loop-head':
            idx = i
    return trace[idx + 1:] if idx >= 0 else []


def pc_remember(eng, st):
    st.ghost = dict(st.ghost)
    st.ghost['index_at_head'] = st.env['index'].z


def pc_getattr(eng, obj, name, st, node):
    if obj.k == 'ref' and obj.cls == 'ContentList' and name == 'append':
        def app(eng, args, kwargs, st, node):
            st.trace.append(('contents-append', args[0]))
            return [(st, NONE)]
        return [(st, V('func', py=('spec', app)))]
    return None


def pc_new_list(eng, items, st):
    if items == []:
        return V('ref', cls='ContentList', oid='contents')
    return None


def pc_classify(which):
    def pol(eng, selfv, args, kwargs, st, node):
        b = z3.Bool('%s!%d' % (which, next(eng.counter)))
        st.trace.append(('classify', which, args[0], b))
        return [(st, vbool(b))]
    return pol


def pc_pass(c, L):
    """one bundle element per pass: its size field is read at the position the previous element ended, the
    element is exactly the `size` bytes after that field, the position moves past it (elements neither overlap
    nor leave gaps), and it is parsed once as what it starts like - a bundle, else a message - and kept"""
    base = L.index >= 0
    if L.phase != 'after':
        return base
    ev = pc_since(c.trace)
    i0 = c.st.ghost['index_at_head']
    size = c.st.env['content_size']
    elems = [e for e in ev if e[0] == 'parse-element']
    apps = [e for e in ev if e[0] == 'contents-append']
    cls_ = [e for e in ev if e[0] == 'classify']
    if size.k != 'int' or len(elems) > 1 or len(apps) != len(elems) or not cls_:
        return z3.BoolVal(False)
    cl = [base, L.index == i0 + 4 + size.z]
    is_b = [e for e in cls_ if e[1] == 'bundle']
    is_m = [e for e in cls_ if e[1] == 'message']

    def the_element(v):
        so = v.extra.get('slice_of') if v is not None and v.k == 'bytes' and v.extra else None
        if so is None or not (so[0].k == 'bytes'):
            return z3.BoolVal(False)
        return z3.And(so[1] == i0 + 4, c._eng.bytes_len(v) == size.z)
    if len(is_b) != 1:
        return z3.BoolVal(False)
    cl.append(the_element(is_b[0][2]))
    if elems:
        kind, arg, made = elems[0][1], elems[0][2], elems[0][3]
        cl += [the_element(arg), z3.BoolVal(apps[0][1] is made)]
        if kind == 'OscBundle':
            cl.append(is_b[0][3])
        else:
            cl += [z3.Not(is_b[0][3]), z3.BoolVal(len(is_m) == 1), is_m[0][3] if is_m else z3.BoolVal(False)]
    else:
        cl += [z3.Not(is_b[0][3]), z3.BoolVal(len(is_m) == 1), z3.Not(is_m[0][3]) if is_m else z3.BoolVal(False)]
    return z3.And(*cl)


contract(F, 'OscBundle._parse_contents', props=('C18',),
         params={'self': 'self', 'index': 'int'},
         requires=lambda c: c.index >= 0,
         raises={'OscBundleParseError': None},
         ensures=[],
         fields={'OscBundle': {'_dgram': 'bytes'}, 'ContentList': {}},
         loops={0: Loop(
             inv=pc_pass,
             # every iteration consumes at least the 4 size bytes: terminates
             variant=lambda c, L: c.blen(c.pre.self.v('_dgram')) - L.index,
             kinds={'content_dgram': 'bytes', 'content_size': 'int'}, havoc_hook=pc_remember)},
         policies={'get_int': get_int_model,
                   'OscBundle.dgram_is_bundle': pc_classify('bundle'), 'OscMessage.dgram_is_message': pc_classify('message')},
         hooks={'construct': construct, 'getattr': pc_getattr, 'new_list': pc_new_list},
         class_modules={'OscBundle': F, 'OscMessage': F, 'ContentList': F},
         note='termination = the loop variant: a negative element size would leave the index where it was')


# ---- get_blob: size count, that many bytes, padding to a multiple of 4 -------------------------
def get_int_traced(eng, selfv, args, kwargs, st, node):
    outs = get_int_model(eng, selfv, args, kwargs, st, node)
    for st1, r in outs:
        if not isinstance(r, Raised):
            st1.trace.append(('size', r.items[0].z))
    return outs


def blob_size(c):
    s = [e for e in c.trace if e[0] == 'size']
    return s[0][1] if len(s) == 1 else None


def blob_post(c):
    size = blob_size(c)
    r = c.resultv
    if size is None or r.k != 'tuple' or len(r.items) != 2 or r.items[0].k != 'bytes':
        return z3.BoolVal(False)
    pad = (-size) % 4
    return z3.And(size >= 0,
                  c.blen(r.items[0]) == size,                          # exactly `size` bytes of data
                  r.items[1].z == c.start_index + 4 + size + pad,      # index moves past count, data and padding
                  (r.items[1].z - c.start_index) % 4 == 0,             # stays 4-aligned relative to the start
                  c.start_index + 4 + size <= c.blen(c.dgram))         # the data lies inside the datagram


def blob_refused(c):
    """on refusal: too short for the count, a negative count, or data running past the end"""
    size = blob_size(c)
    if size is None:
        return remaining(c) < 4
    return z3.Or(size < 0, c.start_index + 4 + size > c.blen(c.dgram))


contract(F, 'get_blob', props=('C18', 'C06'),
         params={'dgram': 'bytes', 'start_index': 'int'},
         requires=lambda c: c.start_index >= 0,
         raises={'OscTypeParseError': None},
         ensures=[('count-data-padding:index-and-length', blob_post)],
         on_raise=[('refused-only-when-short-negative-or-overrunning', blob_refused)],
         policies={'get_int': get_int_traced}, native=False,
         note='byte contents are abstract (no native replay: a counter-model does not say which bytes '
              'encode the count); get_int through its proved contract; the PADDING may lie beyond the end of the datagram '
              '(python-osc leniency, accepted by the statement: "sized correctly" is about the writer)')
