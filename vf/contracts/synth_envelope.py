"""Exhaustive table obligations for envelope shape names (C19)."""
from vf.pyvc.spec import table

# SuperCollider Env help / EnvGen: shape numbers of the server
SHAPES = {'step': 0, 'lin': 1, 'linear': 1, 'exp': 2, 'exponential': 2,
          'sin': 3, 'sine': 3, 'wel': 4, 'welch': 4, 'sqr': 6, 'squared': 6,
          'cub': 7, 'cubed': 7, 'hold': 8}


def _shape_rows(repo):
    import sc3
    sc3.init('nrt')
    from sc3.synth.envelope import Env
    rows = []
    for name, num in SHAPES.items():
        try:
            got = Env._shape_number(name)
        except Exception as e:
            got = repr(e)
        rows.append(('shape_number(%r)' % name, got == num, {'got': got, 'want': num}))
        try:
            cv = Env._curve_value(name)
        except Exception as e:
            cv = repr(e)
        rows.append(('curve_value(%r)' % name, cv == 0, {'got': cv, 'want': 0}))
    for x in (0, -4, 2.5, 8):
        try:
            got = Env._shape_number(x)
        except Exception as e:
            got = repr(e)
        rows.append(('shape_number(%r)' % (x,), got == 5, {'got': got, 'want': 5}))
        try:
            cv = Env._curve_value(x)
        except Exception as e:
            cv = repr(e)
        rows.append(('curve_value(%r)' % (x,), cv == x, {'got': cv, 'want': x}))
    for bad in ('sqrt', 'linn', '', 'Lin'):
        if bad in SHAPES:
            continue
        try:
            Env._shape_number(bad)
            ok = False
            got = 'accepted'
        except ValueError:
            ok, got = True, 'ValueError'
        except Exception as e:
            ok, got = False, repr(e)
        rows.append(('unknown shape %r refused' % bad, ok, {'got': got}))
    rows.append(('mixed list', Env._shape_number(['lin', 3, 'hold']) == [1, 5, 8],
                 {'got': Env._shape_number(['lin', 3, 'hold'])}))
    return rows


table('env-shape-names', props=('C19',), rows=_shape_rows,
      reads=('sc3/synth/envelope.py',))
