"""C05  Logical time in routines is exact and independent of physical jitter.

Contract (from the statement): at its k-th resumption a routine playing on a
clock observes a logical time equal to its start time advanced by the deltas
it yielded so far, converted through the clock's tempo; a routine played from
inside a routine starts at its parent's current logical time even on another
clock; in non-real-time mode logical time never decreases from one executed
task to the next and elapsed time ends at the last scheduled instant.

Oracle: vf/specs/timeline.py (exact rational discrete-event reference).  The
observed floats must be within 1e-9 s of the exact value; bit-for-bit agreement
with the float replay (t_{k+1} = t_k + d_k; beats += d, secs = beats2secs) is
measured and reported as data.  Nothing is ever compared against wall-clock.

Sub-checks
  nrt_nested  enumerated nested-routine programs, non-real-time, in-process
  nrt_tempo   dedicated tempo-change programs, non-real-time
  rt_nested   nested-routine (and own-clock tempo-change) programs in real-time
              subprocesses under injected wake-up jitter and CPU load
"""
import itertools
import json
import multiprocessing

from vf.common import Report, driver_main, wants, silence_sc3_logging
from vf.specs import timeline as tl
from vf.drivers._rt_child import run_children

TOL = 1e-9
YIELDS = [0, 0.1, 1 / 3, 1, 2.5]
CLOCKS = ['sys', 'app', 'T0.5', 'T1', 'T2', 'T3']
TEMPI = [0.5, 1, 2, 3]


# --------------------------------------------------------------------------
# the contract
# --------------------------------------------------------------------------

def routine_clocks(prog):
    """{routine: clock name} (static: spawn clock, inherit = spawner's)."""
    out = {prog['root']: prog['routines'][prog['root']].get('clock', 'sys')}
    changed = True
    while changed:
        changed = False
        for rn, spec in prog['routines'].items():
            if rn not in out:
                continue
            for st in spec['steps']:
                if st[0] == 'spawn' and st[1] not in out:
                    out[st[1]] = st[2] if st[2] is not None else out[rn]
                    changed = True
    return out


def check_obs(prog, res, ref, mode):
    """Compare the observations of one run with the reference.
    Returns (problems, stats); problems = list of dicts."""
    problems = []
    obs = res['obs']
    start = res.get('start')
    stats = {'wakes': 0, 'bit_exact': 0, 'bit_total': 0, 'complete': True,
             'ulp_decreases': 0}
    if start is None:
        if mode == 'nrt':
            problems.append({'clause': 'start', 'what': 'program never started'})
        stats['complete'] = False
        return problems, stats
    rclk = routine_clocks(prog)
    per = {}
    for o in obs:
        if o['r'] and o['kind'] in ('wake', 'end'):
            per.setdefault(o['r'], []).append(o)
    try:
        fref = tl.reference(prog, num=float, start=start)
    except Exception:
        fref = None
    for rname, evs in ref['events'].items():
        exp = [e for e in evs if e['kind'] in ('wake', 'end')]
        got = per.get(rname, [])
        fexp = None
        if fref is not None:
            fexp = [e for e in fref['events'][rname] if e['kind'] in ('wake', 'end')]
        tempo_clock = rclk.get(rname) not in ('sys', 'app')
        for k, e in enumerate(exp):
            if k >= len(got):
                stats['complete'] = False
                if mode == 'nrt':
                    problems.append({
                        'clause': 'resumption', 'r': rname, 'k': k,
                        'what': 'routine %s: resumption %d never happened'
                                % (rname, k),
                        'observed': None, 'expected': float(e['secs'])})
                break
            g = got[k]
            if g['kind'] != e['kind']:
                problems.append({
                    'clause': 'resumption', 'r': rname, 'k': k,
                    'what': 'routine %s: event %d is %s, expected %s'
                            % (rname, k, g['kind'], e['kind']),
                    'observed': g['kind'], 'expected': e['kind']})
                break
            stats['wakes'] += 1
            rel = g['secs'] - start
            if abs(rel - float(e['secs'])) > TOL:
                problems.append({
                    'clause': 'logical-seconds', 'r': rname, 'k': k,
                    'what': 'routine %s on %s: logical time at resumption %d '
                            'is start%+.9f, expected start%+.9f'
                            % (rname, rclk.get(rname), k, rel, float(e['secs'])),
                    'observed': rel, 'expected': float(e['secs'])})
                break
            if g['csecs'] != g['secs']:
                problems.append({
                    'clause': 'clock.seconds', 'r': rname, 'k': k,
                    'what': 'routine %s: clock.seconds %r != thread seconds %r'
                            % (rname, g['csecs'], g['secs']),
                    'observed': g['csecs'], 'expected': g['secs']})
                break
            if tempo_clock:
                eb = float(e['beats'])
                if abs(g['beats'] - eb) > TOL * 10 * max(1.0, abs(eb)):
                    problems.append({
                        'clause': 'clock.beats', 'r': rname, 'k': k,
                        'what': 'routine %s on %s: beats at resumption %d are '
                                '%.9f, expected %.9f'
                                % (rname, rclk.get(rname), k, g['beats'], eb),
                        'observed': g['beats'], 'expected': eb})
                    break
            elif g['beats'] != g['secs']:
                problems.append({
                    'clause': 'clock.beats', 'r': rname, 'k': k,
                    'what': 'routine %s: beats of a tempo-less clock %r != '
                            'seconds %r' % (rname, g['beats'], g['secs']),
                    'observed': g['beats'], 'expected': g['secs']})
                break
            if fexp is not None and k < len(fexp):
                stats['bit_total'] += 1
                if fexp[k]['secs'] == g['secs']:
                    stats['bit_exact'] += 1
        if len(got) > len(exp):
            problems.append({
                'clause': 'resumption', 'r': rname, 'k': len(exp),
                'what': 'routine %s: %d resumptions, expected %d'
                        % (rname, len(got), len(exp)),
                'observed': len(got), 'expected': len(exp)})
    if mode == 'nrt':
        seq = res.get('update_log', [])
        for i in range(1, len(seq)):
            if seq[i] < seq[i - 1] and seq[i] >= seq[i - 1] - TOL:
                # float noise (same 1e-9 floats-as-reals tolerance as for the
                # times themselves): counted, reported as data
                stats['ulp_decreases'] += 1
            if seq[i] < seq[i - 1] - TOL:
                problems.append({
                    'clause': 'nrt-monotone',
                    'what': 'logical time decreases from %r to %r between '
                            'executed tasks %d and %d'
                            % (seq[i - 1], seq[i], i - 1, i),
                    'observed': seq[max(0, i - 2):i + 2], 'expected': 'non-decreasing'})
                break
        end = res.get('elapsed_end')
        want = start + float(ref['last'])
        if end is None or abs(end - want) > TOL:
            problems.append({
                'clause': 'nrt-elapsed-end',
                'what': 'elapsed time after process() is %r, last scheduled '
                        'instant is %r' % (end, want),
                'observed': end, 'expected': want})
    return problems, stats


def key_for(ref, mode, clause):
    f = ref['features']
    if mode == 'nrt':
        if 'tempo_pending' in f:
            return 'C05.nrt:tempo-change-pending'
        if 'app_sched_nonzero' in f:
            return 'C05.nrt:appclock-sched-absolute'
        return 'C05.nrt:' + clause
    return 'C05.rt:' + clause


# --------------------------------------------------------------------------
# non-real-time, in process
# --------------------------------------------------------------------------

def run_nrt(prog):
    """Run one program under NrtMain in this process."""
    import sc3.base.main as _m
    main = _m.main
    main.reset()
    obs = []
    ulog = []
    orig = main._update_logical_time

    def spy(seconds):
        ulog.append(seconds)
        return orig(seconds)
    setattr(main, '_update_logical_time', staticmethod(spy))
    try:
        h = tl.run_program(prog, obs.append)
        main.process()
        end = main.elapsed_time()
    finally:
        setattr(main, '_update_logical_time',
                         classmethod(orig.__func__))
    return {'obs': obs, 'start': h.start, 'update_log': ulog,
            'elapsed_end': end}


def _nrt_worker(progs):
    silence_sc3_logging()
    import sc3
    sc3.init('nrt')
    out = []
    for prog in progs:
        ref = tl.reference(prog)
        res = run_nrt(prog)
        problems, stats = check_obs(prog, res, ref, 'nrt')
        out.append((prog, problems, stats, sorted(ref['features'])))
    return out


def canon(prog):
    p = dict(prog)
    p.pop('id', None)
    return json.dumps(p, sort_keys=True)


def size_of(prog):
    return sum(len(s['steps']) for s in prog['routines'].values())


def nested_programs(rng, tier):
    progs = []
    # level 1: every clock x every yield list of length <= 3 (exhaustive)
    for c in CLOCKS:
        for n in range(0, 4):
            for ys in itertools.product(YIELDS, repeat=n):
                progs.append(tl.gen_nested([list(ys)], [c],
                                           start_offset=0 if n % 2 else 0.25))
    n2, n3 = (1500, 2500) if tier == 'quick' else (20000, 40000)
    # level 2: every clock pair, sampled yields
    pairs = list(itertools.product(CLOCKS, repeat=2))
    for i in range(n2):
        cs = pairs[i % len(pairs)]
        ys = [[rng.choice(YIELDS) for _ in range(rng.randint(0, 3))]
              for _ in cs]
        progs.append(tl.gen_nested(ys, list(cs),
                                   start_offset=rng.choice([0, 0.25, 1 / 3])))
    for i in range(n3):
        cs = [rng.choice(CLOCKS) for _ in range(3)]
        ys = [[rng.choice(YIELDS) for _ in range(rng.randint(0, 3))]
              for _ in cs]
        progs.append(tl.gen_nested(ys, cs,
                                   start_offset=rng.choice([0, 0.25, 1 / 3])))
    for i, p in enumerate(progs):
        p['id'] = 'n%d' % i
    return progs


def tempo_programs():
    """Dedicated tempo-change programs: (a) a routine changes the tempo of its
    own clock (nothing else pending), (b) another routine changes it while the
    clock has nothing pending, (c) another routine changes it while a task of
    that clock is pending."""
    progs = []
    small = [0.1, 1 / 3, 1]
    for t0 in TEMPI:
        for v in TEMPI:
            for a, b in itertools.product(small, repeat=2):
                progs.append({
                    'start_offset': 0.25, 'clocks': {'T': t0}, 'root': 'r0',
                    'routines': {'r0': {'clock': 'T', 'seed': 1, 'steps': [
                        ['yield', a], ['tempo', 'T', v], ['yield', b],
                        ['tempo', 'T', t0], ['yield', a]]}}})
            # (a') child on T changes T, parent on sys
            progs.append({
                'start_offset': 0, 'clocks': {'T': t0}, 'root': 'r0',
                'routines': {
                    'r0': {'clock': 'sys', 'seed': 1, 'steps': [
                        ['yield', 0.1], ['spawn', 'a', 'T'], ['yield', 1]]},
                    'a': {'seed': None, 'steps': [
                        ['yield', 1 / 3], ['tempo', 'T', v], ['yield', 1],
                        ['yield', 0.1]]}}})
            # (b) nothing pending on T when r0 changes it
            progs.append({
                'start_offset': 0.25, 'clocks': {'T': t0}, 'root': 'r0',
                'routines': {
                    'r0': {'clock': 'sys', 'seed': 1, 'steps': [
                        ['spawn', 'a', 'T'], ['yield', 2.5], ['tempo', 'T', v],
                        ['spawn', 'b', 'T'], ['yield', 1]]},
                    'a': {'seed': None, 'steps': [['yield', 0.1]]},
                    'b': {'seed': None, 'steps': [['yield', 1], ['yield', 1 / 3]]}}})
    n_ok = len(progs)
    # (c) pending task on T while r0 changes the tempo (minimal first)
    for t0, v in [(1, 2), (1, 0.5), (2, 3), (3, 0.5), (0.5, 3)]:
        progs.append({
            'start_offset': 0, 'clocks': {'T': t0}, 'root': 'r0',
            'routines': {
                'r0': {'clock': 'sys', 'seed': 1, 'steps': [
                    ['spawn', 'a', 'T'], ['yield', 0.1], ['tempo', 'T', v]]},
                'a': {'seed': None, 'steps': [['yield', 1], ['yield', 1]]}}})
    for i, p in enumerate(progs):
        p['id'] = 't%d' % i
    return progs, n_ok


def report_problems(rep, sub, prog, problems, ref_features, mode, extra=None):
    ref = {'features': set(ref_features)}
    for pr in problems[:1]:
        key = key_for(ref, mode, pr['clause'])
        rep.violation(
            obligation='C05.%s.%s' % (mode, pr['clause']),
            what='[%s] %s' % (mode, pr['what']),
            input={'program': prog, 'mode': mode,
                   'features': sorted(ref_features), **(extra or {})},
            observed=pr.get('observed'), expected=pr.get('expected'),
            key=key, replay={'func': mode, 'args': prog})


def run_nrt_set(rep, sub, progs, bound, rule, exhaustive=False):
    progs = sorted(progs, key=size_of)
    nproc = 8 if rep.tier == 'quick' else 16
    chunks = [progs[i::nproc] for i in range(nproc)]
    ctx = multiprocessing.get_context('fork')
    with ctx.Pool(nproc) as pool:
        parts = pool.map(_nrt_worker, chunks)
    results = [x for part in parts for x in part]
    results.sort(key=lambda x: size_of(x[0]))
    n = 0
    distinct = set()
    wakes = bit_exact = bit_total = bad = ulp = 0
    samples = []
    for prog, problems, stats, feats in results:
        n += 1
        ulp += stats['ulp_decreases']
        wakes += stats['wakes']
        bit_exact += stats['bit_exact']
        bit_total += stats['bit_total']
        if stats['wakes'] >= 3:
            distinct.add(canon(prog))
        if problems:
            bad += 1
            report_problems(rep, sub, prog, problems, feats, 'nrt')
    for i in (len(results) // 7, len(results) // 3, len(results) // 2,
              (2 * len(results)) // 3, len(results) - 1):
        samples.append(results[i][0])
    rep.bounded(
        name=sub, function='sc3.base.clock.* / stream.Routine (NrtMain)',
        bound=bound, evaluations=n, distinct_nontrivial=len(distinct),
        rule=rule, samples=samples, exhaustive=exhaustive,
        extra={'resumptions_checked': wakes, 'programs_with_problem': bad,
               'bit_exact_float_replay': '%d/%d' % (bit_exact, bit_total),
               'sub_tolerance_time_decreases': ulp})
    if ulp:
        rep.note('C05.%s: %d executed-task transitions went back in time by '
                 'less than 1e-9 s (one-ulp noise of the seconds->beats->'
                 'seconds round trip of the NRT wake-up on a TempoClock, e.g. '
                 'tempo 3, yields 1/3, 2.5, 0); within the stated float '
                 'tolerance, not reported as a violation' % (sub, ulp))


# --------------------------------------------------------------------------
# real time, subprocesses under jitter
# --------------------------------------------------------------------------

RT_SECS = [0, 0.01, 0.02, 1 / 30, 0.05, 0.1]
RT_CLOCKS = ['sys', 'T0.5', 'T1', 'T2', 'T3']


def rt_programs(rng, n):
    progs = []
    while len(progs) < n:
        levels = rng.choice([1, 2, 2, 3, 3])
        cs = [rng.choice(RT_CLOCKS) for _ in range(levels)]
        ys = []
        for c in cs:
            tempo = 1.0 if c == 'sys' else float(c[1:])
            secs = [rng.choice(RT_SECS) for _ in range(rng.randint(1, 5))]
            ys.append([s * tempo for s in secs])
        p = tl.gen_nested(ys, cs, start_offset=rng.choice([0, 0.02]),
                          sends=False)
        if float(tl.reference(p)['last']) <= 0.5:
            progs.append(p)
    # own-clock tempo changes (no other task on that clock)
    for t0, v in [(1, 2), (2, 0.5), (3, 1), (0.5, 3)]:
        progs.append({
            'start_offset': 0, 'clocks': {'T': t0}, 'root': 'r0',
            'routines': {
                'r0': {'clock': 'sys', 'seed': 1, 'steps': [
                    ['yield', 0.02], ['spawn', 'a', 'T'], ['yield', 0.1]]},
                'a': {'seed': None, 'steps': [
                    ['yield', 0.05 * t0], ['tempo', 'T', v],
                    ['yield', 0.1 * v], ['tempo', 'T', t0],
                    ['yield', 0.05 * t0]]}}})
    for i, p in enumerate(progs):
        p['id'] = 'r%d' % i
    return progs


def rt_pending_programs():
    """Tempo change by a SystemClock routine while a task of the TempoClock is
    pending; margins of >= 150 ms between the change and the old/new wake-up
    so that the physical order equals the logical order (validated by the
    measured lateness)."""
    progs = []
    for i, (t0, v) in enumerate([(1, 2), (1, 0.5), (2, 3)]):
        progs.append({
            'id': 'rp%d' % i,
            'start_offset': 0, 'clocks': {'T': t0}, 'root': 'r0',
            'routines': {
                'r0': {'clock': 'sys', 'seed': 1, 'steps': [
                    ['spawn', 'a', 'T'], ['yield', 0.2], ['tempo', 'T', v]]},
                'a': {'seed': None, 'steps': [
                    ['yield', 0.6 * t0], ['yield', 0.1 * v]]}}})
    return progs


def max_late(res):
    lates = [o['phys'] - o['secs'] for o in res['obs']]
    return max(lates) if lates else 0.0


def rt_run(progs, seed, jitter=20, busy=2, concurrent=True, per_child=6):
    inputs = []
    for i in range(0, len(progs), per_child):
        inputs.append({'mode': 'rt', 'seed': seed + i, 'jitter_ms': jitter,
                       'busy': busy,
                       'jobs': [{'kind': 'programs',
                                 'progs': progs[i:i + per_child],
                                 'concurrent': concurrent}]})
    outs = run_children(inputs)
    by_id = {}
    errors = []
    for o in outs:
        if o.get('error'):
            errors.append(o['error'])
            continue
        for job in o['results']:
            for res in job:
                by_id[res['id']] = res
    return by_id, errors


def rt_check(rep, sub, progs, need_valid_order, seed):
    by_id, errors = rt_run(progs, seed)
    for e in errors:
        rep.error('C05 rt child: ' + e)
    n = wakes = bit_exact = bit_total = incomplete = invalid = 0
    distinct = set()
    late_max = 0.0
    for prog in sorted(progs, key=size_of):
        res = by_id.get(prog['id'])
        if res is None:
            continue
        ref = tl.reference(prog)
        n += 1
        late = max_late(res)
        late_max = max(late_max, late)
        problems, stats = check_obs(prog, res, ref, 'rt')
        wakes += stats['wakes']
        bit_exact += stats['bit_exact']
        bit_total += stats['bit_total']
        if stats['wakes'] >= 3:
            distinct.add(canon(prog))
        if not stats['complete']:
            incomplete += 1
        if problems:
            # A mismatch is reported when it shows in every conclusive run of
            # three (this one + two fresh children, the last without injected
            # stress) and at least two runs were conclusive.  For programs
            # whose result needs the physical order to follow the logical one
            # only runs with small measured lateness are conclusive.
            runs = [(late, problems)]
            for jit, bz in ((20, 2), (0, 0)):
                again, errs = rt_run([prog], seed + 77, jitter=jit, busy=bz,
                                     concurrent=False)
                r2 = again.get(prog['id'])
                if r2 is not None:
                    runs.append((max_late(r2), check_obs(prog, r2, ref, 'rt')[0]))
            good = [p for l, p in runs if not (need_valid_order and l > 0.1)]
            invalid += len(runs) - len(good)
            if len(good) >= 2 and all(good):
                report_problems(rep, sub, prog, good[0], ref['features'], 'rt',
                                extra={'max_lateness_s': late})
            else:
                rep.note('C05.%s: a mismatch in program %s did not reproduce '
                         'in %d conclusive runs (harness timing, not reported)'
                         % (sub, prog['id'], len(good)))
    return {'n': n, 'wakes': wakes, 'bit_exact': bit_exact,
            'bit_total': bit_total, 'incomplete': incomplete,
            'distinct': distinct, 'late_max': late_max, 'invalid': invalid}


# --------------------------------------------------------------------------

def main(rep):
    silence_sc3_logging()
    if wants(rep, 'nrt_nested'):
        progs = nested_programs(rep.rng, rep.tier)
        run_nrt_set(
            rep, 'nrt_nested', progs,
            bound='all 1-level programs (6 clocks x yield lists of length<=3 '
                  'over {0,0.1,1/3,1,2.5}) + sampled 2- and 3-level nestings '
                  'over SystemClock/AppClock/TempoClock(0.5,1,2,3), start '
                  'offsets {0,0.25,1/3}',
            rule='per routine and resumption: |seconds-(start+sum of deltas '
                 'through the tempo)|<=1e-9, clock.seconds==thread seconds, '
                 'beats; child starts at parent time; NRT time monotone over '
                 'executed tasks; elapsed_time() ends at the last instant. '
                 'non-trivial = >=3 resumptions')
    if wants(rep, 'nrt_tempo'):
        progs, n_ok = tempo_programs()
        run_nrt_set(
            rep, 'nrt_tempo', progs,
            bound='%d programs with tempo changes and nothing else pending '
                  'on that clock + %d with a pending task (tempi 0.5,1,2,3)'
                  % (n_ok, len(progs) - n_ok),
            rule='same contract; beats of pending tasks are kept by a tempo '
                 'change', exhaustive=False)
    if wants(rep, 'rt_nested'):
        n = 24 if rep.tier == 'quick' else 400
        progs = rt_programs(rep.rng, n)
        st = rt_check(rep, 'rt_nested', progs, False, rep.seed)
        pend = rt_pending_programs()
        st2 = rt_check(rep, 'rt_nested', pend, True, rep.seed + 1000)
        if st['incomplete'] or st2['incomplete']:
            rep.note('C05.rt_nested: %d real-time runs were incomplete when '
                     'the observation window closed (liveness is C08, not '
                     'reported here)' % (st['incomplete'] + st2['incomplete']))
        rep.bounded(
            name='rt_nested',
            function='sc3.base.clock.SystemClock/TempoClock._run, '
                     'stream.Routine.next (RtMain, subprocesses)',
            bound='%d nested programs (<=3 levels, total <=0.5 s, '
                  'SystemClock/TempoClock 0.5,1,2,3) run 6 at a time per '
                  'process under 0-20 ms wake-up jitter + 2 busy threads, '
                  '+%d tempo-change-with-pending-task programs'
                  % (len(progs), len(pend)),
            evaluations=st['n'] + st2['n'],
            distinct_nontrivial=len(st['distinct'] | st2['distinct']),
            rule='logical times relative to the observed start equal the '
                 'exact reference within 1e-9 whatever the physical lateness',
            samples=progs[:3] + pend[:1],
            extra={'resumptions_checked': st['wakes'] + st2['wakes'],
                   'bit_exact_float_replay': '%d/%d' % (
                       st['bit_exact'] + st2['bit_exact'],
                       st['bit_total'] + st2['bit_total']),
                   'max_physical_lateness_s': round(
                       max(st['late_max'], st2['late_max']), 4),
                   'incomplete_runs': st['incomplete'] + st2['incomplete']})
    rep.note('C05: play()/resume() are driven with quant=0; the default Quant '
             'of TempoClock.play (quant=1, documented) postpones a nested start '
             'to the next whole beat and is left unspecified.  AppClock is '
             'only checked in non-real-time mode (documented drift in RT).')


def replay(case, rep):
    silence_sc3_logging()
    r = case.get('replay') or {}
    prog = r.get('args') or case['input']['program']
    mode = r.get('func', 'nrt')
    ref = tl.reference(prog)
    if mode == 'nrt':
        import sc3
        sc3.init('nrt')
        res = run_nrt(prog)
        problems, _ = check_obs(prog, res, ref, 'nrt')
    else:
        by_id, errors = rt_run([prog], 1, concurrent=False)
        res = by_id.get(prog.get('id', ''))
        if res is None:
            rep.error('rt child failed: %r' % (errors,))
            return None
        problems, _ = check_obs(prog, res, ref, 'rt')
    if problems:
        report_problems(rep, 'replay', prog, problems, ref['features'], mode)
        return False
    return True


if __name__ == '__main__':
    driver_main('C05', main, replay)
