"""Independent OSC 1.0 encoder / decoder (oracle for C06, C07).

Written from the OpenSound Control 1.0 specification, not from sc3/_osclib.py:

* every atomic datum is big endian and every element of a packet is aligned to
  4 bytes;
* int32 'i': 32-bit two's complement;   float32 'f': IEEE 754 single;
* OSC-string 's': the characters, one NUL terminator, then 0-3 further NULs so
  that the length is a multiple of 4 (so the string itself cannot contain NUL);
* OSC-blob 'b': int32 byte count, the bytes, 0-3 NULs of padding;
* OSC message: address pattern (OSC-string beginning with '/'), type tag string
  (OSC-string beginning with ','), then the arguments in type-tag order;
  '[' and ']' in the type tag string delimit arrays and carry no data;
* OSC bundle: the OSC-string "#bundle", a 64-bit NTP fixed-point time tag
  (value 1 = "immediately"), then zero or more elements, each an int32 size
  (a multiple of 4) followed by that many bytes holding a message or a bundle.

One documented deviation, needed because sc3 documents it: characters of an
OSC-string are encoded as UTF-8 (OSC 1.0 says ASCII; ASCII text is encoded
identically).  The decoder is strict: non-zero padding, a missing terminator,
sizes that are negative, unaligned or overrun the packet, unbalanced array
brackets, unknown type tags and trailing bytes are all errors.

Decoded forms
-------------
``Message(address, tags, args)``: ``tags`` is the type tag string without the
leading comma (array brackets included), ``args`` the flat list of the values
of the data-carrying tags, in order (floats are the float32 value as a Python
float, blobs are ``bytes``).
``Bundle(timetag, elements)``: ``elements`` is a list of Message / Bundle.

sc3's documented argument coercions (``NetAddr.send_msg`` / ``send_bundle``
docstrings, ``OscInterface.send_msg`` docstring, the C06 statement) are in
``coerce`` / ``coerce_message`` / ``coerce_bundle``; they compute the decoded
form that an accepted argument list must have on the wire.
"""

import ctypes
import math
import struct
from collections import namedtuple

IMMEDIATELY = 1
INT32_MIN = -2 ** 31
INT32_MAX = 2 ** 31 - 1
UINT64_MAX = 2 ** 64 - 1
BUNDLE_TAG = b'#bundle\x00'

Message = namedtuple('Message', 'address tags args')
Bundle = namedtuple('Bundle', 'timetag elements')


class OscError(Exception):
    pass


class EncodeError(OscError):
    """The value cannot be represented in OSC 1.0."""


class DecodeError(OscError):
    """The bytes are not a well-formed OSC 1.0 packet."""


class Unrepresentable(EncodeError):
    """coerce(): the Python value has no faithful OSC representation and has
    to be refused by the sender."""


# ---------------------------------------------------------------- encoder --

def pad4(n):
    """Smallest multiple of 4 that is >= n."""
    return (n + 3) // 4 * 4


def enc_int32(v):
    if isinstance(v, bool) or not isinstance(v, int):
        raise EncodeError('int32 expected: %r' % (v,))
    if not INT32_MIN <= v <= INT32_MAX:
        raise EncodeError('int32 out of range: %r' % (v,))
    return (v & 0xFFFFFFFF).to_bytes(4, 'big')


def to_float32(x):
    """The float32 nearest to x, as a Python float (inf if it overflows)."""
    return ctypes.c_float(x).value


def enc_float32(v):
    if isinstance(v, bool) or not isinstance(v, (int, float)):
        raise EncodeError('float expected: %r' % (v,))
    v = float(v)
    r = to_float32(v)
    if math.isinf(r) and not math.isinf(v):
        raise EncodeError('float32 overflow: %r' % (v,))
    return struct.pack('>f', r)


def enc_timetag(v):
    if isinstance(v, bool) or not isinstance(v, int):
        raise EncodeError('timetag must be an int: %r' % (v,))
    if not 0 <= v <= UINT64_MAX:
        raise EncodeError('timetag out of range: %r' % (v,))
    return v.to_bytes(8, 'big')


def enc_string(s):
    if not isinstance(s, str):
        raise EncodeError('str expected: %r' % (s,))
    try:
        data = s.encode('utf-8')
    except UnicodeEncodeError as e:
        raise EncodeError('string cannot be encoded: %r' % (s,)) from e
    if b'\x00' in data:
        raise EncodeError('OSC-string cannot contain NUL: %r' % (s,))
    return data + b'\x00' * (pad4(len(data) + 1) - len(data))


def enc_blob(b):
    if not isinstance(b, (bytes, bytearray, memoryview)):
        raise EncodeError('bytes expected: %r' % (b,))
    b = bytes(b)
    return enc_int32(len(b)) + b + b'\x00' * (pad4(len(b)) - len(b))


_ENC = {'i': enc_int32, 'f': enc_float32, 's': enc_string, 'b': enc_blob}


def _check_brackets(tags, exc):
    depth = 0
    for t in tags:
        if t == '[':
            depth += 1
        elif t == ']':
            depth -= 1
            if depth < 0:
                raise exc('unbalanced array brackets in %r' % (tags,))
    if depth:
        raise exc('unbalanced array brackets in %r' % (tags,))


def encode_message(msg):
    address, tags, args = msg
    if not isinstance(address, str) or not address.startswith('/'):
        raise EncodeError('bad address pattern: %r' % (address,))
    _check_brackets(tags, EncodeError)
    out = [enc_string(address), enc_string(',' + tags)]
    it = iter(args)
    for t in tags:
        if t in '[]':
            continue
        if t not in _ENC:
            raise EncodeError('unsupported type tag %r' % t)
        try:
            v = next(it)
        except StopIteration:
            raise EncodeError('fewer values than type tags') from None
        out.append(_ENC[t](v))
    for _ in it:
        raise EncodeError('more values than type tags')
    return b''.join(out)


def encode_bundle(bndl):
    timetag, elements = bndl
    out = [BUNDLE_TAG, enc_timetag(timetag)]
    for e in elements:
        data = encode(e)
        out.append(enc_int32(len(data)))
        out.append(data)
    return b''.join(out)


def encode(packet):
    if isinstance(packet, Message):
        return encode_message(packet)
    if isinstance(packet, Bundle):
        return encode_bundle(packet)
    raise EncodeError('not a Message or Bundle: %r' % (packet,))


# ---------------------------------------------------------------- decoder --

def _need(data, pos, n):
    if pos < 0 or n < 0 or pos + n > len(data):
        raise DecodeError('packet too short at %d (+%d of %d)' % (pos, n, len(data)))


def dec_int32(data, pos):
    _need(data, pos, 4)
    return int.from_bytes(data[pos:pos + 4], 'big', signed=True), pos + 4


def dec_float32(data, pos):
    _need(data, pos, 4)
    return struct.unpack('>f', data[pos:pos + 4])[0], pos + 4


def dec_timetag(data, pos):
    _need(data, pos, 8)
    return int.from_bytes(data[pos:pos + 8], 'big'), pos + 8


def dec_string(data, pos):
    if pos % 4:
        raise DecodeError('unaligned string at %d' % pos)
    end = data.find(b'\x00', pos)
    if end < 0:
        raise DecodeError('unterminated string at %d' % pos)
    nxt = pos + pad4(end - pos + 1)
    _need(data, pos, nxt - pos)
    if data[end:nxt].strip(b'\x00'):
        raise DecodeError('non-zero string padding at %d' % end)
    try:
        return data[pos:end].decode('utf-8'), nxt
    except UnicodeDecodeError as e:
        raise DecodeError('string is not UTF-8 at %d' % pos) from e


def dec_blob(data, pos):
    n, pos = dec_int32(data, pos)
    if n < 0:
        raise DecodeError('negative blob size')
    nxt = pos + pad4(n)
    _need(data, pos, nxt - pos)
    if data[pos + n:nxt].strip(b'\x00'):
        raise DecodeError('non-zero blob padding at %d' % (pos + n))
    return bytes(data[pos:pos + n]), nxt


_DEC = {'i': dec_int32, 'f': dec_float32, 's': dec_string, 'b': dec_blob}


def decode_message(data):
    data = bytes(data)
    if len(data) % 4:
        raise DecodeError('message size %d is not a multiple of 4' % len(data))
    address, pos = dec_string(data, 0)
    if not address.startswith('/'):
        raise DecodeError('address pattern does not start with "/": %r' % address)
    tags, pos = dec_string(data, pos)    # OSC 1.0: the type tag string is required
    if not tags.startswith(','):
        raise DecodeError('type tag string does not start with ",": %r' % tags)
    tags = tags[1:]
    _check_brackets(tags, DecodeError)
    args = []
    for t in tags:
        if t in '[]':
            continue
        if t not in _DEC:
            raise DecodeError('unsupported type tag %r' % t)
        v, pos = _DEC[t](data, pos)
        args.append(v)
    if pos != len(data):
        raise DecodeError('%d trailing bytes in message' % (len(data) - pos))
    return Message(address, tags, args)


def decode_bundle(data):
    data = bytes(data)
    if len(data) % 4:
        raise DecodeError('bundle size %d is not a multiple of 4' % len(data))
    if data[:8] != BUNDLE_TAG:
        raise DecodeError('not a bundle')
    timetag, pos = dec_timetag(data, 8)
    elements = []
    while pos < len(data):
        n, pos = dec_int32(data, pos)
        if n < 0 or n % 4:
            raise DecodeError('bad bundle element size %d' % n)
        _need(data, pos, n)
        elements.append(decode(data[pos:pos + n]))
        pos += n
    return Bundle(timetag, elements)


def decode(data):
    data = bytes(data)
    if data[:1] == b'#':
        return decode_bundle(data)
    if data[:1] == b'/':
        return decode_message(data)
    raise DecodeError('neither a message nor a bundle: %r' % (data[:8],))


def decode_score(raw):
    """Binary NRT score (scsynth -N): a sequence of int32-length-prefixed
    bundles.  Returns [(length_prefix, Bundle, bundle_bytes)]."""
    raw = bytes(raw)
    pos = 0
    out = []
    while pos < len(raw):
        n, pos = dec_int32(raw, pos)
        if n < 0:
            raise DecodeError('negative score entry size')
        _need(raw, pos, n)
        chunk = raw[pos:pos + n]
        out.append((n, decode_bundle(chunk), chunk))
        pos += n
    return out


# ----------------------------------------------------- structural helpers --

def nest_args(msg):
    """The message's values with arrays as nested lists: tags 'i[s[f]]' and
    args [1,'a',.5] -> [1, ['a', [0.5]]]."""
    root = []
    stack = [root]
    it = iter(msg.args)
    for t in msg.tags:
        if t == '[':
            new = []
            stack[-1].append(new)
            stack.append(new)
        elif t == ']':
            stack.pop()
        else:
            stack[-1].append(next(it))
    return root


def flatten_bundle(bndl):
    """[(timetag of the immediately enclosing bundle, Message)] in depth-first
    order."""
    out = []
    for e in bndl.elements:
        if isinstance(e, Message):
            out.append((bndl.timetag, e))
        else:
            out.extend(flatten_bundle(e))
    return out


def same(a, b):
    """Equality of decoded forms that is exact on floats (bitwise on the
    float32 encoding, so NaN == NaN and 0.0 != -0.0) and type-strict."""
    if isinstance(a, Message) and isinstance(b, Message):
        return (a.address == b.address and a.tags == b.tags
                and len(a.args) == len(b.args)
                and all(same(x, y) for x, y in zip(a.args, b.args)))
    if isinstance(a, Bundle) and isinstance(b, Bundle):
        return (a.timetag == b.timetag and len(a.elements) == len(b.elements)
                and all(same(x, y) for x, y in zip(a.elements, b.elements)))
    if isinstance(a, (Message, Bundle)) or isinstance(b, (Message, Bundle)):
        return False
    if isinstance(a, float) and isinstance(b, float):
        return struct.pack('>d', a) == struct.pack('>d', b)
    if isinstance(a, (list, tuple)) and isinstance(b, (list, tuple)):
        return len(a) == len(b) and all(same(x, y) for x, y in zip(a, b))
    if isinstance(a, bool) or isinstance(b, bool):
        return type(a) is type(b) and a == b
    if isinstance(a, (bytes, bytearray)) and isinstance(b, (bytes, bytearray)):
        return bytes(a) == bytes(b)
    return type(a) is type(b) and a == b


# ------------------------------------------------- sc3's documented coercions --

def nrt_timetag(latency, base=0.0):
    """Time tag of a bundle in non-real-time mode: seconds from zero in NTP
    32.32 fixed point; None / negative latency means "now" (= base)."""
    t = base + (latency if latency is not None and latency >= 0 else 0.0)
    return int(t * 2.0 ** 32)


def _is_number(x):
    return isinstance(x, (int, float)) and not isinstance(x, bool)


def coerce(arg, timetag_of=nrt_timetag):
    """Typed wire value(s) of one sc3 message argument: a list of (tag, value)
    pairs (value None for the array markers).

      None, False, []            -> int32 0
      True                       -> int32 1
      int                        -> int32 (refused outside the int32 range)
      float                      -> float32 (refused if it overflows float32)
      str                        -> OSC-string (refused if it contains NUL);
                                    the strings '[' and ']' are array markers
      bytes-like                 -> OSC-blob
      [str, ...]                 -> blob holding that message, encoded
      [number|None, [..], ...]   -> blob holding that bundle, encoded
      anything else              -> refused

    ``timetag_of(latency)`` gives the time tag of a (nested) bundle with that
    latency; it depends on the mode and the send instant and is the caller's
    business (C07).  Raises Unrepresentable for what has to be refused."""
    if arg is None or arg is False:
        return [('i', 0)]
    if arg is True:
        return [('i', 1)]
    if isinstance(arg, int):
        if not INT32_MIN <= arg <= INT32_MAX:
            raise Unrepresentable('int outside int32: %r' % (arg,))
        return [('i', arg)]
    if isinstance(arg, float):
        r = to_float32(arg)
        if math.isinf(r) and not math.isinf(arg):
            raise Unrepresentable('float beyond float32: %r' % (arg,))
        return [('f', r)]
    if isinstance(arg, str):
        if arg == '[' or arg == ']':
            return [(arg, None)]
        if '\x00' in arg:
            raise Unrepresentable('NUL inside a string: %r' % (arg,))
        try:
            arg.encode('utf-8')
        except UnicodeEncodeError:
            raise Unrepresentable('string cannot be encoded: %r' % (arg,)) from None
        return [('s', arg)]
    if isinstance(arg, (bytes, bytearray, memoryview)):
        return [('b', bytes(arg))]
    if isinstance(arg, list):
        if not arg:
            return [('i', 0)]
        if isinstance(arg[0], str):
            return [('b', encode_message(coerce_message(arg, timetag_of)))]
        if (arg[0] is None or _is_number(arg[0])) and len(arg) > 1 \
                and isinstance(arg[1], list):
            return [('b', encode_bundle(coerce_bundle(arg, timetag_of)))]
        raise Unrepresentable('list is neither a message nor a bundle: %r' % (arg,))
    raise Unrepresentable('unsupported type %s' % type(arg).__name__)


def coerce_message(lst, timetag_of=nrt_timetag):
    """Decoded form expected for the sc3 message list ['/addr', arg, ...]."""
    if not isinstance(lst, (list, tuple)) or not lst:
        raise Unrepresentable('not a message list: %r' % (lst,))
    address = lst[0]
    if not isinstance(address, str) or not address:
        raise Unrepresentable('address must be a non-empty str: %r' % (address,))
    if '\x00' in address:
        raise Unrepresentable('NUL inside the address')
    tags = []
    args = []
    for a in lst[1:]:
        for t, v in coerce(a, timetag_of):
            tags.append(t)
            if t not in '[]':
                args.append(v)
    tags = ''.join(tags)
    _check_brackets(tags, Unrepresentable)
    return Message(address, tags, args)


def coerce_bundle(lst, timetag_of=nrt_timetag):
    """Decoded form expected for the sc3 bundle list [latency, element, ...]
    where an element is a message list or another bundle list."""
    if not isinstance(lst, (list, tuple)) or not lst:
        raise Unrepresentable('not a bundle list: %r' % (lst,))
    if not (lst[0] is None or _is_number(lst[0])):
        raise Unrepresentable('bundle latency must be a number or None')
    elements = []
    for e in lst[1:]:
        if not isinstance(e, (list, tuple)) or not e:
            raise Unrepresentable('bundle element is not a list: %r' % (e,))
        if isinstance(e[0], str):
            elements.append(coerce_message(e, timetag_of))
        elif e[0] is None or _is_number(e[0]):
            elements.append(coerce_bundle(e, timetag_of))
        else:
            raise Unrepresentable('bundle element is neither message nor bundle')
    return Bundle(timetag_of(lst[0]), elements)


def size_of(packet):
    """Encoded size in bytes of a decoded form, computed structurally."""
    if isinstance(packet, Message):
        n = pad4(len(packet.address.encode('utf-8')) + 1) + pad4(len(packet.tags) + 2)
        it = iter(packet.args)
        for t in packet.tags:
            if t in '[]':
                continue
            v = next(it)
            if t in 'if':
                n += 4
            elif t == 's':
                n += pad4(len(v.encode('utf-8')) + 1)
            elif t == 'b':
                n += 4 + pad4(len(v))
        return n
    return 16 + sum(4 + size_of(e) for e in packet.elements)
