"""Shared pieces of the sidecar contracts."""
import z3
from vf.pyvc.values import *

MAIN_FIELDS = {
    'current_tt': 'ref:TimeThread',
    'NRT_MODE': 'const:0', 'RT_MODE': 'const:1',
    '_in_awake_call': 'bool',
    '_clock_scheduler': 'obj', '_main_lock': 'obj', '_atexitq': 'obj',
    '_atexitprio': 'obj', '_rgen': 'obj', '_current_synthdef': 'obj',
    '_def_build_lock': 'obj',
}
TT_FIELDS = {'_seconds': 'real', '_clock': 'obj', '_rgen': 'obj', 'parent': 'obj'}


def ghost_bool(field):
    """policy: the call returns the (never modified) ghost boolean field"""
    def pol(eng, selfv, args, kwargs, st, node):
        oid = selfv.oid if selfv.k == 'ref' else 'cls:' + selfv.py
        return [(st, vbool(z3.Bool('%s.%s' % (oid, field))))]
    return pol


def ghost_int(field, lo=None, hi=None):
    def pol(eng, selfv, args, kwargs, st, node):
        oid = selfv.oid if selfv.k == 'ref' else 'cls:' + selfv.py
        z = z3.Int('%s.%s' % (oid, field))
        if lo is not None:
            st.pc.append(z3.And(z >= lo, z <= hi))
        return [(st, vint(z))]
    return pol
