"""Independent reader for the SuperCollider synth definition file format,
version 2 ("SCgf"), written from the published format description
(Synth-Definition-File-Format help file), not from sc3's writer or reader.

    int32  "SCgf"            int32 version (2)        int16 number of defs
    per def:
      pstring name
      int32 K   float32[K] constants
      int32 P   float32[P] initial parameter values
      int32 N   N x (pstring name, int32 index)       parameter names
      int32 U   U x ugen-spec
      int16 V   V x (pstring name, float32[P] values) variants
    ugen-spec:
      pstring class name, int8 rate, int32 I, int32 O, int16 special index,
      I x (int32 ugen index | -1, int32 output index | constant index),
      O x int8 output rate

All integers big endian; pstring = 1 length byte + bytes.
"""
import struct


class ScgfError(Exception):
    pass


class _R:
    def __init__(self, data):
        self.d = bytes(data)
        self.i = 0

    def take(self, n):
        if n < 0 or self.i + n > len(self.d):
            raise ScgfError('truncated at %d (+%d of %d)' % (self.i, n, len(self.d)))
        b = self.d[self.i:self.i + n]
        self.i += n
        return b

    def i8(self):
        return struct.unpack('>b', self.take(1))[0]

    def u8(self):
        return self.take(1)[0]

    def i16(self):
        return struct.unpack('>h', self.take(2))[0]

    def i32(self):
        return struct.unpack('>i', self.take(4))[0]

    def f32(self):
        return struct.unpack('>f', self.take(4))[0]

    def pstr(self):
        n = self.u8()
        return self.take(n).decode('latin-1')


class UGenSpec:
    __slots__ = ('name', 'rate', 'inputs', 'outputs', 'special', 'index')

    def __init__(self, name, rate, inputs, outputs, special, index):
        self.name, self.rate, self.inputs = name, rate, inputs
        self.outputs, self.special, self.index = outputs, special, index

    def __repr__(self):
        return 'UGenSpec(%d %s r%d sp%d in=%s out=%s)' % (
            self.index, self.name, self.rate, self.special, self.inputs,
            self.outputs)


class Def:
    def __init__(self):
        self.name = None
        self.constants = []
        self.params = []
        self.param_names = []     # (name, index) in file order
        self.ugens = []
        self.variants = []        # (name, [values])


def parse(data, strict=True):
    """Parse a whole file; returns list of Def. Raises ScgfError when the bytes
    are not exactly a well-formed version-2 file (trailing bytes included)."""
    r = _R(data)
    if r.take(4) != b'SCgf':
        raise ScgfError('bad magic')
    ver = r.i32()
    if ver != 2:
        raise ScgfError('version %d' % ver)
    ndefs = r.i16()
    if ndefs < 0:
        raise ScgfError('negative def count')
    defs = []
    for _ in range(ndefs):
        d = Def()
        d.name = r.pstr()
        k = r.i32()
        if k < 0:
            raise ScgfError('negative constant count')
        d.constants = [r.f32() for _ in range(k)]
        p = r.i32()
        if p < 0:
            raise ScgfError('negative param count')
        d.params = [r.f32() for _ in range(p)]
        n = r.i32()
        if n < 0:
            raise ScgfError('negative name count')
        for _ in range(n):
            nm = r.pstr()
            ix = r.i32()
            d.param_names.append((nm, ix))
        u = r.i32()
        if u < 0:
            raise ScgfError('negative ugen count')
        for ui in range(u):
            cname = r.pstr()
            rate = r.i8()
            ni = r.i32()
            no = r.i32()
            sp = r.i16()
            if ni < 0 or no < 0:
                raise ScgfError('negative in/out count')
            ins = []
            for _ in range(ni):
                a = r.i32()
                b = r.i32()
                ins.append((a, b))
            outs = [r.i8() for _ in range(no)]
            d.ugens.append(UGenSpec(cname, rate, ins, outs, sp, ui))
        v = r.i16()
        if v < 0:
            raise ScgfError('negative variant count')
        for _ in range(v):
            vn = r.pstr()
            vals = [r.f32() for _ in range(p)]
            d.variants.append((vn, vals))
        defs.append(d)
    if strict and r.i != len(r.d):
        raise ScgfError('%d trailing bytes' % (len(r.d) - r.i))
    return defs


def wellformed(d):
    """Structural well-formedness of one definition; returns list of problems
    (empty = well formed): every wire refers to an existing constant or to an
    existing output of a strictly earlier unit; rates in 0..3; parameter name
    indices inside the parameter array."""
    bad = []
    for u in d.ugens:
        if u.rate not in (0, 1, 2, 3):
            bad.append('unit %d %s: rate %d' % (u.index, u.name, u.rate))
        for (a, b) in u.inputs:
            if a == -1:
                if not (0 <= b < len(d.constants)):
                    bad.append('unit %d %s: constant %d of %d'
                               % (u.index, u.name, b, len(d.constants)))
            else:
                if not (0 <= a < u.index):
                    bad.append('unit %d %s: refers to unit %d (not earlier)'
                               % (u.index, u.name, a))
                elif not (0 <= b < len(d.ugens[a].outputs)):
                    bad.append('unit %d %s: output %d of unit %d (%d outputs)'
                               % (u.index, u.name, b, a, len(d.ugens[a].outputs)))
        for o in u.outputs:
            if o not in (0, 1, 2, 3):
                bad.append('unit %d %s: output rate %d' % (u.index, u.name, o))
    for (nm, ix) in d.param_names:
        if not (0 <= ix < max(len(d.params), 1)) and not (ix == 0 and not d.params):
            bad.append('param name %r index %d of %d' % (nm, ix, len(d.params)))
    for (vn, vals) in d.variants:
        if len(vals) != len(d.params):
            bad.append('variant %r has %d values' % (vn, len(vals)))
    return bad


def f32(x):
    """Round a Python float to float32, as the file stores it."""
    return struct.unpack('>f', struct.pack('>f', x))[0]
