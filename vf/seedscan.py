"""python3 -m vf.seedscan: run ONLY the deductive (pyvc) part of each property's check on every seeded change
(applied to a scratch copy of /repo/sc3 outside /repo and /verif, removed afterwards) and summarise what it
decides on its own: violated obligation / undecided (function out of the subset or solver unknown) / no contract
on the changed code.  Writes seeded/pyvc_only_summary.json."""
import shutil, tempfile, collections
import json, os, subprocess, sys, glob
sys.path.insert(0, '/verif')
SCR = tempfile.mkdtemp(prefix='sc3_seedscan_')
shutil.copytree('/repo/sc3', os.path.join(SCR, 'sc3'))
out = {}
for d in sorted(glob.glob('/verif/seeded/*/')):
    d = d.rstrip('/')
    sid = os.path.basename(d)
    meta = json.load(open(os.path.join(d, 'meta.json')))
    prop = meta['property']
    patch = os.path.join(d, 'patch.diff')
    r = subprocess.run(['patch', '-p1', '-s', '-i', patch], cwd=SCR, capture_output=True, text=True)
    if r.returncode != 0:
        out[sid] = 'patch failed'
        subprocess.run(['patch', '-R', '-p1', '-s', '-i', patch], cwd=SCR, capture_output=True)
        continue
    try:
        code = ("import json,sys\nfrom vf.pyvc import api\nfrom vf import props\n"
                "r=api.verify(%r, props.PROPS[%r]['contracts'], 'quick', 0)\n"
                "st={}\n"
                "for x in r['results']:\n"
                "    if x['result']!='unsat': st.setdefault(x['result']+'/'+str(x.get('native')),[]).append(x['name'][:120])\n"
                "print(json.dumps({'st':st,'oos':[o['function']+': '+o['why'][:80] for o in r['out_of_subset']],'viol':len(r['violations']),'err':[e[:100] for e in r['errors']]}))\n" % (prop, prop))
        p = subprocess.run(['python3-vt', '-c', code], cwd='/verif', env=dict(os.environ, SC3_REPO=SCR, PYTHONPATH='/verif'),
                           capture_output=True, text=True, timeout=1800)
        try:
            out[sid] = json.loads(p.stdout.strip().split('\n')[-1])
        except Exception:
            out[sid] = {'crash': p.stderr[-300:]}
    finally:
        subprocess.run(['patch', '-R', '-p1', '-s', '-i', patch], cwd=SCR, capture_output=True)
    print(sid, json.dumps(out[sid])[:300], flush=True)
json.dump(out, open('/verif/.work/spurious_scan.json', 'w'), indent=1)
shutil.rmtree(SCR, ignore_errors=True)
cats = collections.Counter()
per = {}
for sid, v in sorted(out.items()):
    if not isinstance(v, dict) or 'st' not in v:
        tag = 'error'
    elif v['viol']:
        tag = 'violated-obligation'
    elif v['oos']:
        tag = 'undecided:out-of-subset'
    elif v['st']:
        tag = 'undecided:solver'
    else:
        tag = 'no-contract-on-the-changed-code'
    cats[tag] += 1
    per[sid] = tag
json.dump({'summary': dict(cats), 'per_seed': per}, open('/verif/seeded/pyvc_only_summary.json', 'w'), indent=1)
print(dict(cats))
